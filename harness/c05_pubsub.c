// C05: PUB/SUB - delivery iff a current subscription prefixes the body.
//
// Modes
//   det      deterministic reference-model monitor.  One driver thread
//            interleaves subscribe / unsubscribe / publish / receive
//            (NONBLOCK and asynchronous) / set RECVBUF / set PREFNEW /
//            open+close context on the socket itself and on up to four
//            contexts, mirrors every step on an executable model (per
//            context: ordered topic list + bounded deque with the PREFNEW
//            policy) and compares every receive result (bytes or EAGAIN).
//            History is serialised by a sentinel context subscribed to "":
//            sub0_recv_cb updates all contexts under one lock before it
//            completes any receive, so "sentinel got message k" is a
//            linearisation point.  A share of cases has no sentinel (only
//            then can the socket have a single context) and linearises with
//            vf_quiesce() on inproc.
//            Up to three asynchronous receives may wait on one context:
//            exactly one of them must get an arriving message.  1/20 of the
//            topics and 1/30 of the bodies are long (60-700 bytes, repeat
//            patterns with long common prefixes; some bodies 66-150 KB).
//            In a quarter of the cases a second SUB socket subscribed to ""
//            (the mirror) is connected to the same publisher(s), which then
//            have two pipes each: it must receive every publication in
//            lock-step, byte-identical, and scribbles over what it got.
//   dettcp   det restricted to tcp with the sentinel.
//   conc     2 publisher threads, one thread per subscriber context, one
//            option-setter thread.  Interval oracle: a received body must
//            be prefixed by a topic that was (possibly) in effect at some
//            instant between max(publish call, receive call) and receive
//            return; bytes unaltered; per publisher strictly increasing
//            sequence numbers (no duplicate, no reorder).
//            Two witness contexts (3/4 of the cases): W1 (topic "", buffers
//            larger than the traffic) must receive everything = loss oracle
//            and arrival order; W2 (fixed topic/RECVBUF/PREFNEW, irregular
//            reader) is judged against "exactly one drop per arrival while
//            full" using W1's arrival order and publish/receive time stamps.
//            W3 stays subscribed to "" with RECVBUF above the traffic while
//            another thread subscribes / unsubscribes other topics on it,
//            toggles PREFNEW and switches RECVBUF: same oracle as W1.
//   noblock  PUB with SENDBUF in {1,2,16} against raw TCP peers that finish
//            the SP handshake as SUB and then never read: every nng_sendmsg
//            must return 0 (SENDTIMEO 10 s turns a blocked send into a
//            result; the watchdog is the back-stop) - also before any peer
//            is connected, while a stuck peer disappears, and after the last
//            one has gone.  Up to two reading nng subscribers (inproc / tcp)
//            receive each message before the next is sent: none may be
//            missing, altered or shared.  At the end one stuck peer is read
//            out: intact messages, increasing sequence numbers, and the last
//            SENDBUF messages sent are all there (the publisher's queue drops
//            exactly its oldest entry per overflow).
#include "vfh.h"

#include <errno.h>
#include <pthread.h>
#include <stdatomic.h>
#include <sys/socket.h>
#include <unistd.h>

// ---------------------------------------------------------------- bytes
#define TLEN 6
#define BLEN 16
typedef struct {
	uint8_t len;
	uint8_t b[TLEN];
} topic_t;
typedef struct {
	uint8_t len;
	uint8_t b[BLEN];
} body_t;
// deterministic mode: any length (a few bytes up to ~200 KB); the storage
// belongs to the case (det_t.al)
typedef struct {
	uint32_t len;
	uint8_t *b;
} dbytes_t;
typedef dbytes_t dtopic_t;
typedef dbytes_t dbody_t;

static uint8_t
g_sym(vf_rng *r)
{
	uint32_t x = vf_below(r, 16);
	return x < 5 ? 'a' : x < 9 ? 'b' : x < 12 ? 'c' : x < 14 ? 0x00 : 0xff;
}

static const char *
hx(const void *p, size_t n)
{
	static _Thread_local char bufs[6][3 * 40 + 24];
	static _Thread_local int  k;
	char                     *o = bufs[k = (k + 1) % 6];
	const uint8_t            *b = p;
	size_t                    w = 0;
	o[w++] = '<';
	for (size_t i = 0; i < n && i < 36; i++) {
		if (b[i] >= 'a' && b[i] <= 'z') {
			o[w++] = (char) b[i];
		} else {
			w += (size_t) snprintf(o + w, 4, "~%02x", b[i]);
		}
	}
	o[w++] = '>';
	o[w]   = 0;
	if (n > 36) {
		snprintf(o + w, 23, "+%zu", n - 36);
	}
	return o;
}

// error name usable inside a violation key
static const char *
ename(int rv)
{
	static _Thread_local char b[48];
	snprintf(b, sizeof(b), "%s", nng_strerror(rv));
	for (char *p = b; *p; p++) {
		if (*p == ' ') *p = '-';
	}
	return b;
}

static bool
t_prefix(const topic_t *t, const uint8_t *b, size_t len)
{
	return t->len <= len && (t->len == 0 || memcmp(t->b, b, t->len) == 0);
}
static bool
d_prefix(const dtopic_t *t, const uint8_t *b, size_t len)
{
	return t->len <= len && (t->len == 0 || memcmp(t->b, b, t->len) == 0);
}
static bool
d_same(const dbytes_t *x, const void *b, size_t len)
{
	return x->len == len && (len == 0 || memcmp(x->b, b, len) == 0);
}

// subject = the socket itself (default context) or an explicit context
typedef struct {
	bool       is_sock;
	nng_socket s;
	nng_ctx    c;
} subj;

static int
sj_subscribe(const subj *j, const void *b, size_t n)
{
	return j->is_sock ? nng_sub0_socket_subscribe(j->s, b, n)
	                  : nng_sub0_ctx_subscribe(j->c, b, n);
}
static int
sj_unsubscribe(const subj *j, const void *b, size_t n)
{
	return j->is_sock ? nng_sub0_socket_unsubscribe(j->s, b, n)
	                  : nng_sub0_ctx_unsubscribe(j->c, b, n);
}
static int
sj_recv_nb(const subj *j, nng_msg **mp)
{
	return j->is_sock ? nng_recvmsg(j->s, mp, NNG_FLAG_NONBLOCK)
	                  : nng_ctx_recvmsg(j->c, mp, NNG_FLAG_NONBLOCK);
}
static void
sj_recv_aio(const subj *j, nng_aio *aio)
{
	if (j->is_sock) {
		nng_socket_recv(j->s, aio);
	} else {
		nng_ctx_recv(j->c, aio);
	}
}
static int
sj_set_recvbuf(const subj *j, int n)
{
	return j->is_sock ? nng_socket_set_int(j->s, NNG_OPT_RECVBUF, n)
	                  : nng_ctx_set_int(j->c, NNG_OPT_RECVBUF, n);
}
static int
sj_set_prefnew(const subj *j, bool v)
{
	return j->is_sock ? nng_socket_set_bool(j->s, NNG_OPT_SUB_PREFNEW, v)
	                  : nng_ctx_set_bool(j->c, NNG_OPT_SUB_PREFNEW, v);
}
static int
sj_get_recvbuf(const subj *j, int *n)
{
	return j->is_sock ? nng_socket_get_int(j->s, NNG_OPT_RECVBUF, n)
	                  : nng_ctx_get_int(j->c, NNG_OPT_RECVBUF, n);
}
static int
sj_get_prefnew(const subj *j, bool *v)
{
	return j->is_sock ? nng_socket_get_bool(j->s, NNG_OPT_SUB_PREFNEW, v)
	                  : nng_ctx_get_bool(j->c, NNG_OPT_SUB_PREFNEW, v);
}

// ======================================================================
// deterministic mode
// ======================================================================
#define NSLOT 5
#define MAXT 10
#define QMAX 192
#define MAXMSG 2048
#define NHIST 24
#define NW 3

typedef struct {
	bool    open;
	subj    j;
	dtopic_t t[MAXT];
	int     nt;
	int     q[QMAX];
	int     qlen;
	int     cap;
	bool    prefnew;
	// up to NW asynchronous receives may wait on one context at a time
	nng_aio *aio[NW];
	struct wcb {
		void *slot;
		int   k;
	} wcb[NW];
	atomic_int done[NW];
	bool    posted[NW];
	int     wq[NW];       // model: the waiting receives, in the order posted
	int     nw;
	int     expect_async; // model: exactly one of them completes with this id
	bool    ovf_since;   // an overflow hit this queue since it was last in sync-empty
	bool    purge_since; // an unsubscribe purged from this queue since then
} slot_t;

enum {
	K_PUB, K_DECIDE, K_DELIVER, K_FILTER, K_NEARMISS, K_EMPTYTOPIC, K_BINTOPIC,
	K_EXACT, K_OVF_NEW, K_OVF_OLD, K_ASYNC, K_CMP_MSG, K_CMP_EAGAIN, K_SUBS,
	K_DUPSUB, K_UNSUB, K_UNSUB_ABSENT, K_PURGED, K_PURGE_KEPT, K_RESIZE,
	K_RESIZE_TRUNC, K_PREFSET, K_CTXOPEN, K_CTXCLOSE, K_CANCEL, K_OPS,
	K_SENTINEL, K_QUIESCE_LIN, K_SOLO_ARRIVALS, K_MULTIWAIT, K_WAIT_FIFO,
	K_WAIT_NONFIFO, K_CANCEL_MIDDLE, K_BLOCKING_RECV, K_LONG_TOPIC_MATCH,
	K_LONG_TOPIC_DECIDE, K_BIG_BODY, K_LONG_BODY, K_MULTI_MATCH, K_DELIVER_SOCK,
	K_BIG_BODY_TCP, K_MIRROR, K_N
};
static const char *knames[K_N] = { "publishes", "match_decisions", "delivered",
	"filtered", "topic_longer_than_body", "empty_topic_match",
	"binary_topic_match", "topic_equals_body", "overflow_drop_new",
	"overflow_drop_oldest", "async_deliveries", "recv_msg_compared",
	"recv_eagain_compared", "subscribes", "duplicate_subscribes",
	"unsubscribes", "unsubscribe_absent", "purged_by_unsubscribe",
	"kept_by_unsubscribe", "recvbuf_sets", "recvbuf_truncating",
	"prefnew_sets", "ctx_opens", "ctx_closes", "async_cancels", "ops",
	"sentinel_linearisations", "quiesce_linearisations",
	"single_context_arrivals", "deliveries_with_several_waiters",
	"waiter_first_posted_served", "waiter_other_served",
	"cancel_of_non_first_waiter", "blocking_recv_compared",
	"long_topic_matches", "long_topic_decisions", "bodies_over_64k",
	"bodies_60_to_700", "body_matched_by_several_topics",
	"delivered_socket_form", "bodies_over_64k_tcp", "mirror_sub_compared" };

typedef struct {
	vf_rng     r;
	int        tran;
	bool       sentinel;
	nng_socket sub;
	nng_socket pub[2];
	int        npub;
	nng_ctx    z;
	nng_aio   *zaio;
	// mirror: a second SUB socket subscribed to "" on the same publisher(s),
	// so that every PUB has two pipes; read in lock-step after each publish
	bool       mirror;
	nng_socket msub;
	slot_t     s[NSLOT];
	dbody_t     bodies[MAXMSG];
	int        nmsg;
	void     **al; // storage of topics and bodies of this case
	int        nal, cal;
	uint8_t    pat[3][8]; // the case's repeat patterns for long strings
	int        patlen[3];
	bool       failed;
	char       hist[NHIST][112];
	int        nh;
	long       k[K_N];
} det_t;

// Pipe life-cycle of the current case.  A pipe that goes away before the
// harness closes anything breaks the premise "connected" of the
// deterministic oracle: such a case is abandoned (counted), not judged.
static _Atomic int g_pipe_add, g_pipe_rem, g_closing;
static long        abandoned_pipe_lost, abandoned_connect;

static void
pipe_cb(nng_pipe p, nng_pipe_ev ev, void *arg)
{
	(void) p;
	(void) arg;
	if (atomic_load(&g_closing)) return;
	if (ev == NNG_PIPE_EV_ADD_POST) atomic_fetch_add(&g_pipe_add, 1);
	if (ev == NNG_PIPE_EV_REM_POST) atomic_fetch_add(&g_pipe_rem, 1);
}

static void
aio_done_cb(void *arg)
{
	struct wcb *w = arg;
	slot_t     *s = w->slot;
	atomic_store(&s->done[w->k], 1);
}

static uint8_t *
d_alloc(det_t *d, size_t n)
{
	if (d->nal == d->cal) {
		d->cal = d->cal ? d->cal * 2 : 256;
		d->al  = realloc(d->al, sizeof(void *) * (size_t) d->cal);
	}
	uint8_t *p = malloc(n ? n : 1);
	if (p == NULL || d->al == NULL) vf_harness_fail("out of memory");
	d->al[d->nal++] = p;
	return p;
}

static void
hist(det_t *d, const char *fmt, ...)
{
	va_list ap;
	va_start(ap, fmt);
	vsnprintf(d->hist[d->nh % NHIST], sizeof(d->hist[0]), fmt, ap);
	va_end(ap);
	d->nh++;
}

static void
det_violation(det_t *d, const char *key, const char *fmt, ...)
{
	char    msg[600], tail[1300];
	va_list ap;
	size_t  w = 0;
	va_start(ap, fmt);
	vsnprintf(msg, sizeof(msg), fmt, ap);
	va_end(ap);
	tail[0] = 0;
	int from = d->nh > NHIST ? d->nh - NHIST : 0;
	for (int i = from; i < d->nh && w + 120 < sizeof(tail); i++) {
		w += (size_t) snprintf(tail + w, sizeof(tail) - w, "%s; ",
		    d->hist[i % NHIST]);
	}
	d->failed = true;
	if (atomic_load(&g_pipe_rem) > 0) {
		abandoned_pipe_lost++;
		fprintf(stderr, "note: case %ld abandoned, a pipe was closed in mid-case (%d added, %d removed); would have been %s: %s\n",
		    vf_case_index(), atomic_load(&g_pipe_add), atomic_load(&g_pipe_rem), key, msg);
		return;
	}
	vf_violation(key, "%s || last ops: %s", msg, tail);
}

static bool
m_matches(const slot_t *s, const dbody_t *b)
{
	for (int i = 0; i < s->nt; i++) {
		if (d_prefix(&s->t[i], b->b, b->len)) {
			return true;
		}
	}
	return false;
}

static const char *
fillcls(const slot_t *s)
{
	return s->qlen == 0 ? "empty" : s->qlen >= s->cap ? "full" : "part";
}
static const char *
ntcls(int n)
{
	return n == 0 ? "0" : n == 1 ? "1" : n == 2 ? "2" : "3+";
}
static const char *
tlencls(uint32_t n)
{
	static const char *small[7] = { "0", "1", "2", "3", "4", "5", "6" };
	return n <= 6 ? small[n] : n < 128 ? "60-127" : n < 300 ? "128-299" : "300-600";
}
static const char *
cntcls(int n)
{
	return n == 0 ? "0" : n == 1 ? "1" : "2+";
}

// what kind of match (for evidence only)
static const char *
match_kind(det_t *d, const slot_t *s, const dbody_t *b, bool *matched)
{
	bool m = false, empty = false, exact = false, bin = false, longer = false;
	bool lng = false, lngm = false, lngnear = false;
	int  nmatch = 0;
	for (int i = 0; i < s->nt; i++) {
		const dtopic_t *t = &s->t[i];
		if (t->len >= 60) lng = true;
		if (d_prefix(t, b->b, b->len)) {
			m = true;
			nmatch++;
			if (t->len == 0) empty = true;
			if (t->len == b->len) exact = true;
			if (t->len >= 60) lngm = true;
			for (uint32_t k = 0; k < t->len; k++) {
				if (t->b[k] == 0x00 || t->b[k] == 0xff) bin = true;
			}
		} else if (t->len >= 60 && b->len >= 60 && memcmp(t->b, b->b, 59) == 0) {
			lngnear = true; // long common prefix, yet no match
		} else if (t->len > b->len &&
		    (b->len == 0 || memcmp(t->b, b->b, b->len) == 0)) {
			longer = true; // body is a proper prefix of the topic
		}
	}
	*matched = m;
	if (lng) d->k[K_LONG_TOPIC_DECIDE]++;
	if (nmatch >= 2) d->k[K_MULTI_MATCH]++; // the overlap clause
	if (m) {
		if (empty) d->k[K_EMPTYTOPIC]++;
		if (exact) d->k[K_EXACT]++;
		if (bin) d->k[K_BINTOPIC]++;
		if (lngm) d->k[K_LONG_TOPIC_MATCH]++;
		return empty ? "empty" : lngm ? (exact ? "long-exact" : "long-prefix") : exact ? "exact" : bin ? "binary" : "prefix";
	}
	if (lngnear) {
		return "long-near-miss";
	}
	if (longer) {
		d->k[K_NEARMISS]++;
		return "topic-longer";
	}
	return "none";
}

// classification of a mismatch -> stable violation key
static void
det_mismatch(det_t *d, int si, const char *op, int rv, nng_msg *got, int want)
{
	slot_t     *s = &d->s[si];
	const char *clause = s->purge_since ? "unsubscribe-purge"
	    : s->ovf_since ? (s->prefnew ? "overflow-prefnew" : "overflow-prefold")
	                   : "iff";
	const char *shape;
	char        key[160];
	dbody_t      g = { 0, NULL };
	if (got != NULL) {
		g.len = (uint32_t) nng_msg_len(got);
		g.b   = nng_msg_body(got);
	}
	if (rv != 0 && rv != NNG_EAGAIN) {
		snprintf(key, sizeof(key), "C05/recv-error/%s", ename(rv));
		det_violation(d, key, "%s on slot %d returned %s (model: %s)", op, si,
		    nng_strerror(rv), want < 0 ? "EAGAIN" : "message");
		return;
	}
	if (got == NULL) {
		shape = "matching-message-not-delivered";
	} else if (want < 0) {
		shape = m_matches(s, &g) ? "extra-message" : "delivered-without-matching-subscription";
	} else {
		bool later = false;
		for (int i = 1; i < s->qlen; i++) {
			const dbody_t *b = &d->bodies[s->q[i]];
			if (b->len == nng_msg_len(got) &&
			    memcmp(b->b, nng_msg_body(got), b->len) == 0) {
				later = true;
			}
		}
		shape = later ? "head-of-queue-missing"
		    : m_matches(s, &g) ? "wrong-message"
		                       : "delivered-without-matching-subscription";
	}
	snprintf(key, sizeof(key), "C05/%s/%s", clause, shape);
	det_violation(d, key,
	    "%s on %s slot %d (cap %d prefnew %d topics %d qlen %d): got %s, model expects %s",
	    op, s->j.is_sock ? "socket" : "ctx", si, s->cap, s->prefnew, s->nt,
	    s->qlen, got ? hx(g.b, g.len) : "EAGAIN",
	    want < 0 ? "EAGAIN" : hx(d->bodies[want].b, d->bodies[want].len));
}

// compare one receive result with the model; consumes msg
static void
det_compare(det_t *d, int si, const char *op, int rv, nng_msg *msg, int want)
{
	slot_t *s = &d->s[si];
	if (rv == 0 && want >= 0) {
		const dbody_t *b = &d->bodies[want];
		if (nng_msg_len(msg) == b->len &&
		    memcmp(nng_msg_body(msg), b->b, b->len) == 0) {
			d->k[K_CMP_MSG]++;
		} else {
			det_mismatch(d, si, op, rv, msg, want);
		}
		nng_msg_free(msg);
		return;
	}
	if (rv == NNG_EAGAIN && want < 0) {
		d->k[K_CMP_EAGAIN]++;
		s->ovf_since   = false;
		s->purge_since = false;
		return;
	}
	det_mismatch(d, si, op, rv, rv == 0 ? msg : NULL, want);
	if (rv == 0) {
		nng_msg_free(msg);
	}
}

static void
q_pop(slot_t *s)
{
	memmove(s->q, s->q + 1, sizeof(int) * (size_t) (s->qlen - 1));
	s->qlen--;
}

static void
wq_remove(slot_t *s, int p)
{
	memmove(&s->wq[p], &s->wq[p + 1], sizeof(int) * (size_t) (s->nw - p - 1));
	s->nw--;
}

// collect waiter at queue position p (its aio has completed or will now)
static int
wq_collect(slot_t *s, int p, nng_msg **mp)
{
	int k = s->wq[p];
	nng_aio_wait(s->aio[k]);
	int rv = (int) nng_aio_result(s->aio[k]);
	*mp    = rv == 0 ? nng_aio_get_msg(s->aio[k]) : NULL;
	s->posted[k] = false;
	wq_remove(s, p);
	return rv;
}

// asynchronous receives whose completion the model predicts.  With several
// receives waiting on one context the property demands that exactly one of
// them gets the message (never duplicated); which one is not stated.
static void
det_settle_async(det_t *d)
{
	for (int i = 0; i < NSLOT && !d->failed; i++) {
		slot_t *s = &d->s[i];
		if (!s->open) continue;
		if (s->expect_async >= 0) {
			int      w = s->expect_async, p = -1, nwb = s->nw;
			uint64_t end = vf_now_ns() + 10000000000ULL;
			s->expect_async = -1;
			while (p < 0) {
				for (int q = 0; q < s->nw && p < 0; q++) {
					if (atomic_load(&s->done[s->wq[q]])) p = q;
				}
				if (p < 0) {
					if (vf_now_ns() > end) break;
					vf_usleep(20);
				}
			}
			if (p < 0) {
				// none of the waiting receives completed within 10 s
				det_compare(d, i, "async-recv", NNG_EAGAIN, NULL, w);
				continue;
			}
			nng_msg *m;
			int      rv = wq_collect(s, p, &m);
			if (rv == NNG_ETIMEDOUT) rv = NNG_EAGAIN;
			det_compare(d, i, "async-recv", rv, m, w);
			d->k[K_ASYNC]++;
			if (nwb > 1) {
				d->k[K_MULTIWAIT]++;
				d->k[p == 0 ? K_WAIT_FIFO : K_WAIT_NONFIFO]++;
				vf_class("async-delivery/waiters-%d/served-%s", nwb, p == 0 ? "first-posted" : "other");
			}
		}
		// any other completion is one the model did not predict
		for (int q = 0; q < s->nw && !d->failed;) {
			if (!atomic_load(&s->done[s->wq[q]])) {
				q++;
				continue;
			}
			nng_msg *m;
			int      rv = wq_collect(s, q, &m);
			if (rv == 0) {
				det_compare(d, i, "async-recv-unpredicted", 0, m, -1);
			}
			// a time-out of the 120 s aio is harness trouble, not judged
		}
	}
}

static void
m_arrive(det_t *d, int id)
{
	const dbody_t *b = &d->bodies[id];
	int           nopen = 0;
	for (int i = 0; i < NSLOT; i++) {
		nopen += d->s[i].open;
	}
	if (!d->sentinel && nopen == 1) d->k[K_SOLO_ARRIVALS]++;
	for (int i = 0; i < NSLOT; i++) {
		slot_t *s = &d->s[i];
		if (!s->open) continue;
		bool        m;
		const char *mk = match_kind(d, s, b, &m);
		const char *out;
		d->k[K_DECIDE]++;
		if (!m) {
			d->k[K_FILTER]++;
			out = "filtered";
		} else if (s->nw > 0) {
			s->expect_async = id;
			d->k[K_DELIVER]++;
			out = "to-waiting-receiver";
		} else if (s->qlen >= s->cap) {
			s->ovf_since = true;
			if (s->prefnew) {
				q_pop(s);
				s->q[s->qlen++] = id;
				d->k[K_OVF_OLD]++;
				d->k[K_DELIVER]++;
				out = "drop-oldest";
			} else {
				d->k[K_OVF_NEW]++;
				out = "drop-new";
			}
		} else {
			s->q[s->qlen++] = id;
			d->k[K_DELIVER]++;
			out = "queued";
		}
		if (s->j.is_sock && m && strcmp(out, "drop-new") != 0) d->k[K_DELIVER_SOCK]++;
		vf_class("arrive/%s/topics-%s/match-%s/fill-%s/prefnew-%d/%s",
		    s->j.is_sock ? "sock" : "ctx", ntcls(s->nt), mk,
		    out[0] == 'd' ? "full" : fillcls(s), s->prefnew, out);
	}
}

// receive on the linearisation aio with a time-out
static long premature_timeouts;

static int
z_recv(det_t *d, const subj *j, int ms, nng_msg **mp)
{
	for (;;) {
		uint64_t t0 = vf_now_ns();
		nng_aio_set_timeout(d->zaio, ms);
		sj_recv_aio(j, d->zaio);
		nng_aio_wait(d->zaio);
		int rv = (int) nng_aio_result(d->zaio);
		if (rv == 0) {
			*mp = nng_aio_get_msg(d->zaio);
		}
		uint64_t el = (vf_now_ns() - t0) / 1000000;
		if (rv == NNG_ETIMEDOUT && el + 1 < (uint64_t) ms / 2) {
			// The operation was timed out long before its deadline.
			// That is a defect of the aio expiry machinery (property
			// C02), not of PUB/SUB: count it and ask again.
			if (premature_timeouts++ == 0) {
				fprintf(stderr, "note: receive with %d ms time-out returned ETIMEDOUT after %llu ms (case %ld)\n",
				    ms, (unsigned long long) el, vf_case_index());
			}
			continue;
		}
		return rv;
	}
}

// blocking receive on a socket whose RECVTIMEO is 'ms'; a time-out that comes
// long before its deadline is the known aio expiry defect (C02): ask again
static int
m_recv(nng_socket s, int ms, nng_msg **mp)
{
	for (;;) {
		uint64_t t0 = vf_now_ns();
		int      rv = nng_recvmsg(s, mp, 0);
		uint64_t el = (vf_now_ns() - t0) / 1000000;
		if (rv == NNG_ETIMEDOUT && el + 1 < (uint64_t) ms / 2) {
			premature_timeouts++;
			continue;
		}
		return rv;
	}
}

static int
raw_publish(nng_socket p, const void *b, size_t n, int flags)
{
	nng_msg *m;
	int      rv;
	if (nng_msg_alloc(&m, 0) != 0 || nng_msg_append(m, b, n) != 0) {
		vf_harness_fail("msg alloc");
	}
	if ((rv = nng_sendmsg(p, m, flags)) != 0) {
		nng_msg_free(m);
	}
	return rv;
}

static bool
det_publish(det_t *d, int pi, const dbody_t *b)
{
	int id = d->nmsg++;
	int flags = vf_chance(&d->r, 1, 4) ? NNG_FLAG_NONBLOCK : 0;
	int rv;
	d->bodies[id] = *b;
	hist(d, "pub%d %s", pi, hx(b->b, b->len));
	if ((rv = raw_publish(d->pub[pi], b->b, b->len, flags)) != 0) {
		char key[96];
		snprintf(key, sizeof(key), "C05/pub-send/%s%s", ename(rv),
		    flags ? "-nonblock" : "");
		det_violation(d, key, "nng_sendmsg on idle PUB returned %s",
		    nng_strerror(rv));
		return false;
	}
	d->k[K_PUB]++;
	if (b->len > 65536) {
		d->k[K_BIG_BODY]++;
		if (d->tran == VF_T_TCP) d->k[K_BIG_BODY_TCP]++;
	} else if (b->len >= 60) {
		d->k[K_LONG_BODY]++;
	}
	if (d->sentinel) {
		subj     zj = { .is_sock = false, .c = d->z };
		nng_msg *m  = NULL;
		if ((rv = z_recv(d, &zj, 10000, &m)) != 0) {
			det_violation(d, "C05/iff/not-delivered-to-empty-subscription",
			    "sentinel context subscribed to \"\" with room did not get %s within 10 s over %s: %s",
			    hx(b->b, b->len), vf_tran_names[d->tran], nng_strerror(rv));
			return false;
		}
		bool same = nng_msg_len(m) == b->len &&
		    memcmp(nng_msg_body(m), b->b, b->len) == 0;
		if (!same) {
			det_violation(d, "C05/integrity/sentinel-got-other-bytes",
			    "published %s, sentinel received %s", hx(b->b, b->len),
			    hx(nng_msg_body(m), nng_msg_len(m)));
		}
		nng_msg_free(m);
		if (!same) return false;
		d->k[K_SENTINEL]++;
	} else {
		if (!vf_quiesce(0, 20000)) {
			vf_harness_fail("library did not quiesce after publish");
		}
		d->k[K_QUIESCE_LIN]++;
	}
	if (d->mirror) {
		// the publisher's second pipe: the mirror reads in lock-step, so its
		// pipe never holds more than one queued message and nothing may be
		// dropped for it, whatever happens on the other pipe
		nng_msg *m = NULL;
		if ((rv = m_recv(d->msub, 10000, &m)) != 0) {
			det_violation(d, "C05/pub-fanout/not-delivered-to-second-subscriber",
			    "a second SUB socket subscribed to \"\" (read in lock-step) did not get %s within 10 s over %s: %s",
			    hx(b->b, b->len), vf_tran_names[d->tran], nng_strerror(rv));
			return false;
		}
		bool same = nng_msg_len(m) == b->len &&
		    memcmp(nng_msg_body(m), b->b, b->len) == 0;
		if (!same) {
			det_violation(d, "C05/pub-fanout/second-subscriber-got-other-bytes",
			    "published %s, the second SUB socket received %s", hx(b->b, b->len),
			    hx(nng_msg_body(m), nng_msg_len(m)));
		}
		// a received message belongs to the receiver: scribble over it.  If
		// the two subscribers were handed one shared body, the comparisons
		// of the socket under test see the damage.
		memset(nng_msg_body(m), 0x5a, nng_msg_len(m));
		nng_msg_free(m);
		if (!same) return false;
		d->k[K_MIRROR]++;
	}
	m_arrive(d, id);
	det_settle_async(d);
	return !d->failed;
}

static void
det_slot_init_model(det_t *d, int si)
{
	slot_t *s = &d->s[si];
	int     cap;
	bool    pn;
	if (sj_get_recvbuf(&s->j, &cap) != 0 || sj_get_prefnew(&s->j, &pn) != 0) {
		vf_harness_fail("cannot read RECVBUF/PREFNEW of slot %d", si);
	}
	if (cap < 1 || cap >= QMAX) {
		vf_harness_fail("unexpected RECVBUF %d", cap);
	}
	s->cap = cap;
	s->prefnew = pn;
	s->nt = 0;
	s->qlen = 0;
	s->nw = 0;
	s->expect_async = -1;
	s->ovf_since = s->purge_since = false;
	for (int k = 0; k < NW; k++) {
		s->wcb[k].slot = s;
		s->wcb[k].k    = k;
		s->posted[k]   = false;
		atomic_store(&s->done[k], 0);
		if (nng_aio_alloc(&s->aio[k], aio_done_cb, &s->wcb[k]) != 0) {
			vf_harness_fail("aio alloc");
		}
		nng_aio_set_timeout(s->aio[k], 120000);
	}
	// blocking receives (flags 0) are only issued when the model holds a
	// message; the time-out turns a lost one into a result
	if (s->j.is_sock) {
		nng_socket_set_ms(s->j.s, NNG_OPT_RECVTIMEO, 10000);
	} else {
		nng_ctx_set_ms(s->j.c, NNG_OPT_RECVTIMEO, 10000);
	}
	s->open = true;
}

static void
det_ctx_open(det_t *d, int si)
{
	slot_t *s = &d->s[si];
	int     rv;
	s->j.is_sock = false;
	if ((rv = nng_ctx_open(&s->j.c, d->sub)) != 0) {
		vf_harness_fail("nng_ctx_open: %s", nng_strerror(rv));
	}
	det_slot_init_model(d, si);
	d->k[K_CTXOPEN]++;
	hist(d, "open ctx%d cap%d pn%d", si, s->cap, s->prefnew);
}

// cancel the waiting receive at queue position p
static void
det_cancel_one(det_t *d, int si, int p, const char *why)
{
	slot_t  *s = &d->s[si];
	int      k = s->wq[p];
	nng_msg *m;
	if (!atomic_load(&s->done[k])) {
		nng_aio_cancel(s->aio[k]);
	}
	int rv = wq_collect(s, p, &m);
	if (rv == 0 && !d->failed) {
		det_compare(d, si, why, 0, m, -1);
	} else if (rv == 0) {
		nng_msg_free(m);
	}
}

// cancel (or, for a context, close under) all waiting receives
static void
det_cancel_pending(det_t *d, int si, bool close_ctx)
{
	slot_t *s = &d->s[si];
	if (close_ctx) {
		nng_ctx_close(s->j.c);
	}
	while (s->nw > 0) {
		det_cancel_one(d, si, 0, close_ctx ? "close-with-waiting-receive" : "cancelled-receive");
	}
	s->expect_async = -1;
}

static void
det_free_aios(slot_t *s)
{
	for (int k = 0; k < NW; k++) {
		nng_aio_free(s->aio[k]);
	}
}

static void
det_drain(det_t *d, int si, const char *why)
{
	slot_t *s = &d->s[si];
	for (int n = 0; n < QMAX + 4 && !d->failed; n++) {
		nng_msg *m    = NULL;
		int      rv   = sj_recv_nb(&s->j, &m);
		int      want = s->qlen ? s->q[0] : -1;
		det_compare(d, si, why, rv, m, want);
		if (want >= 0) q_pop(s);
		if (want < 0 || rv != 0) break;
	}
}

static void
det_subscribe(det_t *d, int si, const dtopic_t *t)
{
	slot_t *s = &d->s[si];
	int     rv;
	bool    dup = false;
	for (int i = 0; i < s->nt; i++) {
		if (s->t[i].len == t->len && memcmp(s->t[i].b, t->b, t->len) == 0) dup = true;
	}
	if (!dup && s->nt == MAXT) return;
	hist(d, "sub s%d %s", si, hx(t->b, t->len));
	// a zero-length topic is passed with a NULL or a non-NULL pointer
	const void *p = (t->len == 0 && vf_chance(&d->r, 1, 2)) ? NULL : t->b;
	if ((rv = sj_subscribe(&s->j, p, t->len)) != 0) {
		det_violation(d, "C05/subscribe/error", "subscribe %s on slot %d: %s",
		    hx(t->b, t->len), si, nng_strerror(rv));
		return;
	}
	if (!dup) {
		s->t[s->nt++] = *t;
	} else {
		d->k[K_DUPSUB]++;
	}
	d->k[K_SUBS]++;
	vf_class("subscribe/len-%s/%s/topics-%s/fill-%s", tlencls(t->len), dup ? "duplicate" : "new",
	    ntcls(s->nt), fillcls(s));
}

static void
det_unsubscribe(det_t *d, int si, const dtopic_t *t)
{
	slot_t *s  = &d->s[si];
	int     at = -1, rv;
	for (int i = 0; i < s->nt; i++) {
		if (s->t[i].len == t->len && memcmp(s->t[i].b, t->b, t->len) == 0) at = i;
	}
	hist(d, "unsub s%d %s%s", si, hx(t->b, t->len), at < 0 ? " (absent)" : "");
	rv = sj_unsubscribe(&s->j, t->b, t->len);
	if (at < 0) {
		// the property does not say what unsubscribing an absent topic
		// returns; the model is unchanged
		d->k[K_UNSUB_ABSENT]++;
		vf_class("unsubscribe/absent/rv-%s", rv == 0 ? "0" : "error");
		return;
	}
	if (rv != 0) {
		det_violation(d, "C05/unsubscribe/error-on-current-topic",
		    "unsubscribe of current topic %s on slot %d: %s", hx(t->b, t->len), si,
		    nng_strerror(rv));
		return;
	}
	memmove(&s->t[at], &s->t[at + 1], sizeof(dtopic_t) * (size_t) (s->nt - at - 1));
	s->nt--;
	int kept = 0, purged = 0;
	for (int i = 0; i < s->qlen; i++) {
		if (m_matches(s, &d->bodies[s->q[i]])) {
			s->q[kept++] = s->q[i];
		} else {
			purged++;
		}
	}
	s->qlen = kept;
	if (purged) s->purge_since = true;
	d->k[K_UNSUB]++;
	d->k[K_PURGED] += purged;
	d->k[K_PURGE_KEPT] += kept;
	vf_class("unsubscribe/len-%s/topics-left-%s/purged-%s/kept-%s%s", tlencls(t->len),
	    ntcls(s->nt), cntcls(purged), cntcls(kept), s->nw ? "/receiver-waiting" : "");
}

static void
det_set_recvbuf(det_t *d, int si, int n)
{
	slot_t *s = &d->s[si];
	int     rv;
	hist(d, "recvbuf s%d %d (qlen %d)", si, n, s->qlen);
	if ((rv = sj_set_recvbuf(&s->j, n)) != 0) {
		det_violation(d, "C05/recvbuf/error", "set RECVBUF %d on slot %d: %s", n, si,
		    nng_strerror(rv));
		return;
	}
	d->k[K_RESIZE]++;
	const char *kind = n > s->cap ? "grow" : n == s->cap ? "same" : s->qlen <= n ? "shrink-fits" : "shrink-truncates";
	vf_class("recvbuf/%s/fill-%s", kind, fillcls(s));
	int oldlen = s->qlen;
	s->cap     = n;
	if (oldlen > n) {
		// Which messages survive a shrink below the fill level is not
		// stated by the property (C18 owns buffer resizing).  Demand only
		// what C05 says: what is left is an in-order, unaltered,
		// duplicate-free subsequence of what was queued.  Drain and resync.
		d->k[K_RESIZE_TRUNC]++;
		int pos = 0, got = 0;
		for (;;) {
			nng_msg *m = NULL;
			rv         = sj_recv_nb(&s->j, &m);
			if (rv == NNG_EAGAIN) break;
			if (rv != 0) {
				det_mismatch(d, si, "recv-after-shrink", rv, NULL, -1);
				return;
			}
			bool found = false;
			while (pos < oldlen && !found) {
				const dbody_t *b = &d->bodies[s->q[pos++]];
				found = b->len == nng_msg_len(m) &&
				    memcmp(b->b, nng_msg_body(m), b->len) == 0;
			}
			if (!found) {
				det_violation(d, "C05/order/after-recvbuf-shrink",
				    "after shrinking RECVBUF to %d with %d queued, message %d (%s) is not an in-order remainder of the queue",
				    n, oldlen, got, hx(nng_msg_body(m), nng_msg_len(m)));
				nng_msg_free(m);
				return;
			}
			nng_msg_free(m);
			got++;
			d->k[K_CMP_MSG]++;
		}
		s->qlen = 0;
		s->ovf_since = s->purge_since = false;
	}
}

static void
fill_pattern(det_t *d, uint8_t *out, size_t n, int which)
{
	for (size_t i = 0; i < n; i++) {
		out[i] = d->pat[which][i % (size_t) d->patlen[which]];
	}
}

// lengths around allocation / ring boundaries, else uniform
static uint32_t
g_longlen(vf_rng *r, uint32_t lo, uint32_t hi)
{
	static const uint16_t edge[14] = { 60, 63, 64, 65, 127, 128, 129, 255, 256,
		257, 511, 512, 513, 600 };
	if (vf_chance(r, 1, 3)) {
		uint32_t e = edge[vf_below(r, 14)];
		if (e >= lo && e <= hi) return e;
	}
	return vf_range(r, lo, hi);
}

static void
g_topic(det_t *d, dtopic_t *t)
{
	vf_rng *r = &d->r;
	static const uint8_t lens[20] = { 0, 0, 1, 1, 1, 1, 1, 1, 2, 2, 2, 2, 2, 3,
		3, 3, 4, 4, 5, 6 };
	if (vf_chance(r, 1, 20)) {
		// long topic: one of the case's repeat patterns, so that long
		// topics and long bodies share long prefixes
		t->len = g_longlen(r, 60, 600);
		t->b   = d_alloc(d, t->len);
		fill_pattern(d, t->b, t->len, (int) vf_below(r, 3));
		if (vf_chance(r, 1, 4)) {
			t->b[t->len - 1] ^= 0x01; // differs in the very last byte only
		}
		return;
	}
	t->len = lens[vf_below(r, 20)];
	t->b   = d_alloc(d, TLEN);
	for (uint32_t i = 0; i < t->len; i++) {
		t->b[i] = g_sym(r);
	}
}

static void
g_body(det_t *d, dbody_t *b)
{
	vf_rng *r = &d->r;
	static const uint8_t lens[20] = { 0, 1, 1, 1, 2, 2, 2, 2, 2, 3, 3, 3, 3, 3,
		4, 4, 4, 5, 5, 6 };
	uint32_t how = vf_below(r, 10);
	const dtopic_t *base = NULL;
	if (how >= 4) {
		// derive from an existing topic so that matches are dense
		int cand[NSLOT], nc = 0;
		for (int i = 0; i < NSLOT; i++) {
			if (d->s[i].open && d->s[i].nt > 0) cand[nc++] = i;
		}
		if (nc > 0) {
			slot_t *s = &d->s[cand[vf_below(r, (uint32_t) nc)]];
			base      = &s->t[vf_below(r, (uint32_t) s->nt)];
		}
	}
	b->len = 0;
	if (base == NULL && vf_chance(r, 1, 30)) {
		// long or very large body made of a repeat pattern (a tcp frame
		// of more than one segment when > 64 KB)
		uint32_t n = vf_chance(r, 1, 10) ? vf_range(r, 66000, 150000) : g_longlen(r, 60, 700);
		b->b       = d_alloc(d, n + 4);
		fill_pattern(d, b->b, n, (int) vf_below(r, 3));
		b->len = n;
	} else if (base == NULL) {
		int n = lens[vf_below(r, 20)];
		b->b  = d_alloc(d, 16);
		for (int i = 0; i < n; i++) b->b[b->len++] = g_sym(r);
	} else {
		b->b = d_alloc(d, base->len + 8);
		memcpy(b->b, base->b, base->len);
		b->len = base->len;
		if (how >= 8 && b->len > 0) {
			if (vf_chance(r, 1, 2)) {
				b->len--; // topic longer than body
			} else {
				// one byte differs (for long topics biased to the end)
				uint32_t at = vf_chance(r, 1, 2) ? b->len - 1 : vf_below(r, b->len);
				b->b[at]    = (uint8_t) (b->b[at] == 'a' ? 'b' : 'a');
			}
		} else {
			int ext = (int) vf_below(r, 4);
			for (int i = 0; i < ext; i++) b->b[b->len++] = g_sym(r);
		}
	}
	if (vf_chance(r, 3, 5)) {
		// unique tag so that identical prefixes stay distinguishable
		uint32_t id = (uint32_t) d->nmsg;
		b->b[b->len++] = 0xd0;
		b->b[b->len++] = (uint8_t) (id >> 8);
		b->b[b->len++] = (uint8_t) id;
	}
}

// connect publisher pi and make sure its pipe is live on both sides
static bool
det_connect(det_t *d, int pi)
{
	subj    j;
	uint8_t probe[3] = { 0x01, 'P', (uint8_t) pi };
	uint8_t fence[3] = { 0x01, 'F', (uint8_t) pi };
	int     rv;
	bool    up = false;
	// The publisher listens and the subscriber dials: a stray dialer of
	// some other process on this machine that reaches our ephemeral tcp
	// port can then only become one more subscriber, never a publisher
	// feeding foreign messages into the socket under test.
	if (d->mirror && (rv = vf_connect(d->pub[pi], d->msub, d->tran)) != 0) {
		abandoned_connect++;
		d->failed = true;
		fprintf(stderr, "note: case %ld abandoned, mirror connect over %s: %s\n", vf_case_index(),
		    vf_tran_names[d->tran], nng_strerror(rv));
		return false;
	}
	if ((rv = vf_connect(d->pub[pi], d->sub, d->tran)) != 0) {
		// not a PUB/SUB matter (C14 owns connection establishment)
		abandoned_connect++;
		d->failed = true;
		fprintf(stderr, "note: case %ld abandoned, connect over %s: %s (%d pipes added, %d removed)\n", vf_case_index(),
		    vf_tran_names[d->tran], nng_strerror(rv), atomic_load(&g_pipe_add), atomic_load(&g_pipe_rem));
		return false;
	}
	if (d->sentinel) {
		j.is_sock = false;
		j.c       = d->z;
	} else {
		j.is_sock = true;
		j.s       = d->sub;
	}
	uint64_t t0 = vf_now_ns();
	long     probes = 0;
	bool     mup = !d->mirror;
	if (d->mirror) nng_socket_set_ms(d->msub, NNG_OPT_RECVTIMEO, 25);
	while (!(up && mup) && vf_now_ns() - t0 < 20000000000ULL) {
		nng_msg *m = NULL;
		if (raw_publish(d->pub[pi], probe, 3, 0) != 0) vf_harness_fail("probe send");
		probes++;
		if (!up && z_recv(d, &j, 25, &m) == 0) {
			up = nng_msg_len(m) == 3 && memcmp(nng_msg_body(m), probe, 3) == 0;
			nng_msg_free(m);
		}
		// (once 'up', the 25 ms receive of the mirror paces the loop)
		while (!mup && nng_recvmsg(d->msub, &m, up ? 0 : NNG_FLAG_NONBLOCK) == 0) {
			mup = nng_msg_len(m) == 3 && memcmp(nng_msg_body(m), probe, 3) == 0;
			nng_msg_free(m);
		}
	}
	if (d->mirror) nng_socket_set_ms(d->msub, NNG_OPT_RECVTIMEO, 10000);
	if (up && !mup) {
		det_violation(d, "C05/pub-fanout/not-delivered-to-second-subscriber",
		    "two SUB sockets connected to one PUB over %s (all sides report their pipes): the first received a probe, the second (subscribed to \"\") none of %ld messages published during 20 s",
		    vf_tran_names[d->tran], probes);
		return false;
	}
	if (!up) {
		// both sockets report a pipe, yet nothing published during 20 s
		// reached a context subscribed to the empty topic
		det_violation(d, "C05/iff/not-delivered-to-empty-subscription",
		    "connected over %s (both sides report a pipe) but none of %ld messages published during 20 s reached the %s subscribed to \"\"",
		    vf_tran_names[d->tran], probes, d->sentinel ? "context" : "socket");
		return false;
	}
	if (raw_publish(d->pub[pi], fence, 3, 0) != 0) vf_harness_fail("fence send");
	for (;;) {
		nng_msg *m = NULL;
		if (z_recv(d, &j, 10000, &m) != 0) {
			det_violation(d, "C05/iff/not-delivered-to-empty-subscription",
			    "a message published on a live %s pipe did not reach the subscription \"\" within 10 s",
			    vf_tran_names[d->tran]);
			return false;
		}
		bool f = nng_msg_len(m) == 3 && memcmp(nng_msg_body(m), fence, 3) == 0;
		nng_msg_free(m);
		if (f) break;
	}
	while (d->mirror) {
		nng_msg *m = NULL;
		if ((rv = m_recv(d->msub, 10000, &m)) != 0) {
			det_violation(d, "C05/pub-fanout/not-delivered-to-second-subscriber",
			    "a message published on a PUB with two live %s pipes reached the first subscriber, not the second (subscribed to \"\", buffer not full) within 10 s: %s",
			    vf_tran_names[d->tran], nng_strerror(rv));
			return false;
		}
		bool f = nng_msg_len(m) == 3 && memcmp(nng_msg_body(m), fence, 3) == 0;
		nng_msg_free(m);
		if (f) break;
	}
	return true;
}

static void
det_case(long idx)
{
	det_t *d = calloc(1, sizeof(*d));
	vf_rng *r = &d->r;
	int     rv;
	static const int caps[16] = { 1, 1, 2, 2, 2, 3, 4, 4, 4, 5, 7, 8, 8, 16, 16, 128 };

	vf_rng_seed(r, vf_seed, (uint64_t) idx);
	d->sentinel = !vf_chance(r, 1, 5);
	d->tran     = d->sentinel && vf_chance(r, 1, 4) ? VF_T_TCP : VF_T_INPROC;
	d->npub     = vf_chance(r, 1, 3) ? 2 : 1;
	if (!strcmp(vf_mode, "dettcp")) {
		// tcp only (connection set-up and the socket path dominate)
		d->sentinel = true;
		d->tran     = VF_T_TCP;
	}
	int nsteps  = (int) vf_range(r, 80, vf_tier ? 500 : 320);
	int maxctx  = d->sentinel ? (int) vf_range(r, 0, 4) : (vf_chance(r, 1, 2) ? 0 : (int) vf_range(r, 1, 3));
	int cap0    = vf_chance(r, 4, 5) ? caps[vf_below(r, 15)] : 0;
	bool pn0    = vf_chance(r, 1, 2);
	{
		// (own stream: the cases proper stay what they were before the
		// mirror was introduced)
		vf_rng r2;
		vf_rng_seed(&r2, vf_seed ^ 0x6d6972726f72ULL, (uint64_t) idx);
		d->mirror = vf_chance(&r2, 1, 4);
	}
	vf_case_begin(idx, "det tran=%s sentinel=%d pubs=%d steps=%d maxctx=%d cap0=%d prefnew0=%d mirror=%d",
	    vf_tran_names[d->tran], d->sentinel, d->npub, nsteps, maxctx, cap0, pn0, d->mirror);

	for (int i = 0; i < 3; i++) {
		d->patlen[i] = (int) vf_range(r, 1, 7);
		for (int k = 0; k < d->patlen[i]; k++) d->pat[i][k] = g_sym(r);
	}
	if ((rv = nng_sub0_open(&d->sub)) != 0) vf_harness_fail("sub open");
	for (int i = 0; i < d->npub; i++) {
		if (nng_pub0_open(&d->pub[i]) != 0) vf_harness_fail("pub open");
		nng_socket_set_ms(d->pub[i], NNG_OPT_SENDTIMEO, 10000);
	}
	atomic_store(&g_closing, 0);
	atomic_store(&g_pipe_add, 0);
	atomic_store(&g_pipe_rem, 0);
	for (int i = -1; i < d->npub; i++) {
		nng_socket x = i < 0 ? d->sub : d->pub[i];
		nng_pipe_notify(x, NNG_PIPE_EV_ADD_POST, pipe_cb, NULL);
		nng_pipe_notify(x, NNG_PIPE_EV_REM_POST, pipe_cb, NULL);
	}
	if (d->mirror) {
		if (nng_sub0_open(&d->msub) != 0) vf_harness_fail("mirror open");
		if (nng_sub0_socket_subscribe(d->msub, "", 0) != 0) vf_harness_fail("mirror subscribe");
		nng_socket_set_ms(d->msub, NNG_OPT_RECVTIMEO, 10000);
		nng_pipe_notify(d->msub, NNG_PIPE_EV_ADD_POST, pipe_cb, NULL);
		nng_pipe_notify(d->msub, NNG_PIPE_EV_REM_POST, pipe_cb, NULL);
	}
	if (nng_aio_alloc(&d->zaio, NULL, NULL) != 0) vf_harness_fail("aio");
	if (d->sentinel) {
		if (nng_ctx_open(&d->z, d->sub) != 0) vf_harness_fail("sentinel ctx");
		if (nng_sub0_ctx_subscribe(d->z, "", 0) != 0) vf_harness_fail("sentinel subscribe");
	} else {
		if (nng_sub0_socket_subscribe(d->sub, "", 0) != 0) vf_harness_fail("subscribe");
	}
	for (int i = 0; i < d->npub; i++) {
		if (!det_connect(d, i)) break;
	}
	if (!d->sentinel && !d->failed) {
		// remove the bootstrap subscription again; this also purges
		if (nng_sub0_socket_unsubscribe(d->sub, "", 0) != 0) vf_harness_fail("unsubscribe");
		nng_msg *m;
		while (nng_recvmsg(d->sub, &m, NNG_FLAG_NONBLOCK) == 0) nng_msg_free(m);
	}
	// socket level defaults (inherited by contexts opened later)
	if (cap0) nng_socket_set_int(d->sub, NNG_OPT_RECVBUF, cap0);
	nng_socket_set_bool(d->sub, NNG_OPT_SUB_PREFNEW, pn0);
	d->s[0].j.is_sock = true;
	d->s[0].j.s       = d->sub;
	det_slot_init_model(d, 0);
	for (int i = 1; i <= maxctx && i < NSLOT; i++) {
		if (vf_chance(r, 2, 3)) det_ctx_open(d, i);
	}

	for (int step = 0; step < nsteps && !d->failed; step++) {
		int open[NSLOT], no = 0;
		for (int i = 0; i < NSLOT; i++) {
			if (d->s[i].open) open[no++] = i;
		}
		int      si = open[vf_below(r, (uint32_t) no)];
		slot_t  *s  = &d->s[si];
		uint32_t op = vf_below(r, 100);
		d->k[K_OPS]++;
		if (op < 34) {
			dbody_t b;
			g_body(d, &b);
			if (d->nmsg >= MAXMSG) break;
			det_publish(d, (int) vf_below(r, (uint32_t) d->npub), &b);
		} else if (op < 52) {
			nng_msg *m    = NULL;
			int      want = s->qlen ? s->q[0] : -1;
			hist(d, "recv s%d want %s", si, want < 0 ? "EAGAIN" : hx(d->bodies[want].b, d->bodies[want].len));
			bool blocking = want >= 0 && vf_chance(r, 1, 4);
			vf_class("recv/%s/fill-%s/prefnew-%d%s%s", want < 0 ? "eagain" : "message", fillcls(s), s->prefnew,
			    s->nw ? "/receiver-waiting" : "", blocking ? "/blocking" : "");
			if (blocking) {
				// flags 0: must return the queued message at once
				rv = s->j.is_sock ? nng_recvmsg(s->j.s, &m, 0) : nng_ctx_recvmsg(s->j.c, &m, 0);
				if (rv == NNG_ETIMEDOUT) rv = NNG_EAGAIN;
				if (rv == 0) d->k[K_BLOCKING_RECV]++;
			} else {
				rv = sj_recv_nb(&s->j, &m);
			}
			det_compare(d, si, blocking ? "blocking-recv" : "recv", rv, m, want);
			if (want >= 0) q_pop(s);
		} else if (op < 64) {
			dtopic_t t;
			g_topic(d, &t);
			det_subscribe(d, si, &t);
		} else if (op < 74) {
			dtopic_t t;
			if (s->nt > 0 && vf_chance(r, 4, 5)) {
				t = s->t[vf_below(r, (uint32_t) s->nt)];
			} else {
				g_topic(d, &t);
			}
			det_unsubscribe(d, si, &t);
		} else if (op < 80) {
			// asynchronous receive
			int k = -1;
			for (int x = 0; x < NW; x++) {
				if (!s->posted[x]) k = x;
			}
			if (k < 0 || s->expect_async >= 0) continue;
			atomic_store(&s->done[k], 0);
			s->posted[k] = true;
			hist(d, "arecv s%d qlen %d waiters %d", si, s->qlen, s->nw);
			sj_recv_aio(&s->j, s->aio[k]);
			if (s->qlen > 0) {
				// completes at once with the head of the queue
				nng_aio_wait(s->aio[k]);
				rv           = (int) nng_aio_result(s->aio[k]);
				nng_msg *m   = rv == 0 ? nng_aio_get_msg(s->aio[k]) : NULL;
				s->posted[k] = false;
				if (rv == NNG_ETIMEDOUT) rv = NNG_EAGAIN;
				det_compare(d, si, "async-recv-immediate", rv, m, s->q[0]);
				q_pop(s);
				d->k[K_ASYNC]++;
				vf_class("async-recv/immediate");
			} else {
				s->wq[s->nw++] = k;
				vf_class("async-recv/waits-as-number-%d", s->nw);
			}
		} else if (op < 82) {
			if (s->nw == 0) continue;
			int pos = (int) vf_below(r, (uint32_t) s->nw);
			hist(d, "cancel s%d waiter %d of %d", si, pos, s->nw);
			vf_class("cancel-waiter/%d-of-%d", pos, s->nw);
			if (pos > 0) d->k[K_CANCEL_MIDDLE]++;
			det_cancel_one(d, si, pos, "cancelled-receive");
			d->k[K_CANCEL]++;
		} else if (op < 86) {
			det_set_recvbuf(d, si, caps[vf_below(r, 16)]);
		} else if (op < 90) {
			bool v = vf_chance(r, 1, 2);
			hist(d, "prefnew s%d %d", si, v);
			if ((rv = sj_set_prefnew(&s->j, v)) != 0) {
				det_violation(d, "C05/prefnew/error", "set PREFNEW: %s", nng_strerror(rv));
			}
			s->prefnew = v;
			d->k[K_PREFSET]++;
			vf_class("prefnew-set/%d/fill-%s", v, fillcls(s));
		} else if (op < 94) {
			for (int i = 1; i <= maxctx && i < NSLOT; i++) {
				if (!d->s[i].open) {
					det_ctx_open(d, i);
					break;
				}
			}
		} else if (op < 97) {
			if (si == 0) continue;
			hist(d, "close ctx%d (qlen %d, %d receivers waiting)", si, s->qlen, s->nw);
			vf_class("ctx-close/fill-%s/waiters-%d", fillcls(s), s->nw);
			det_cancel_pending(d, si, true);
			det_free_aios(s);
			s->open = false;
			d->k[K_CTXCLOSE]++;
		} else {
			hist(d, "drain s%d (qlen %d)", si, s->qlen);
			det_drain(d, si, "drain");
		}
	}
	// final comparison of everything still queued
	for (int i = 0; i < NSLOT; i++) {
		slot_t *s = &d->s[i];
		if (!s->open) continue;
		if (!d->failed) {
			hist(d, "final drain s%d (qlen %d)", i, s->qlen);
			det_drain(d, i, "final-drain");
		}
		det_cancel_pending(d, i, !s->j.is_sock);
		det_free_aios(s);
		s->open = false;
	}
	atomic_store(&g_closing, 1);
	if (d->sentinel) nng_ctx_close(d->z);
	// the dialing side closes first: TIME_WAIT then sits on the dialer's
	// port, and the listeners' ephemeral ports are free again at once
	nng_socket_close(d->sub);
	if (d->mirror) nng_socket_close(d->msub);
	for (int i = 0; i < d->npub; i++) nng_socket_close(d->pub[i]);
	nng_aio_free(d->zaio);
	for (int i = 0; i < K_N; i++) {
		if (d->k[i]) vf_stat(knames[i], d->k[i]);
	}
	vf_stat("compared", d->k[K_CMP_MSG] + d->k[K_CMP_EAGAIN]);
	vf_stat(d->tran == VF_T_TCP ? "cases_tcp" : "cases_inproc", 1);
	if (d->npub == 2) vf_stat("det_cases_two_publishers", 1);
	if (d->mirror && d->k[K_MIRROR]) {
		vf_stat(d->tran == VF_T_TCP ? "det_cases_with_mirror_tcp" : "det_cases_with_mirror_inproc", 1);
		vf_class("det/mirror/%s/pubs-%d/%s", vf_tran_names[d->tran], d->npub, d->sentinel ? "sentinel" : "quiesce");
	}
	vf_stat("cases", 1);
	if ((idx % 16) == 0) {
		vf_sample("{\"mode\":\"det\",\"tran\":\"%s\",\"sentinel\":%d,\"publishers\":%d,\"steps\":%d,\"publishes\":%ld,\"compared\":%ld,\"overflow_new\":%ld,\"overflow_old\":%ld,\"purged\":%ld,\"last_body\":\"%s\"}",
		    vf_tran_names[d->tran], d->sentinel, d->npub, nsteps, d->k[K_PUB],
		    d->k[K_CMP_MSG] + d->k[K_CMP_EAGAIN], d->k[K_OVF_NEW], d->k[K_OVF_OLD],
		    d->k[K_PURGED], d->nmsg ? hx(d->bodies[d->nmsg - 1].b, d->bodies[d->nmsg - 1].len) : "");
	}
	for (int i = 0; i < d->nal; i++) free(d->al[i]);
	free(d->al);
	free(d);
}

// ======================================================================
// concurrent mode
// ======================================================================
#define C_MAXSEQ 1024
#define C_MAXENT 400
#define C_SLACK 2000ULL // ns, tolerance for cross-CPU clock reads

typedef struct conc conc_t;
typedef struct {
	conc_t  *c;
	int      idx;
	subj     j;
	vf_rng   r;
	struct {
		topic_t  t;
		uint64_t start, end; // end == UINT64_MAX while subscribed
	} ent[C_MAXENT];
	int      nent;
	long     lastseq[2];
	long     received, overlapped, timeouts, topic_ops, nb_recvs, with_ended_topic;
	bool     viol;
	char     vkey[128];
	char     vdetail[400];
	nng_aio *aio;
} csub_t;

struct conc {
	uint64_t   key;
	int        tran;
	nng_socket sub;
	nng_socket pub[2];
	int        nmsgs[2];
	int        nsub;
	csub_t     cs[4];
	_Atomic uint64_t pubtime[2][C_MAXSEQ];
	atomic_int stop;
	atomic_int pub_err[2];
	long       setter_ops;
	vf_rng     setter_r;
	// witnesses (see c_w1_thread / c_w2_thread)
	bool       witnesses;
	nng_ctx    w1, w2;
	atomic_int all_arrived; // 1: W1 has everything, 2: W1 gave up
	int        total;
	struct {
		uint8_t pub;
		int     seq;
	} arr[2 * C_MAXSEQ]; // arrival order at the socket, as seen by W1
	int        narr;
	char       w1_fail[300]; // non-empty: W1 missed something
	char       w1_key[96];
	int        w2_cap;
	bool       w2_prefnew;
	topic_t    w2_topic;
	struct {
		uint8_t  pub;
		int      seq;
		uint64_t t_r;
	} w2r[2 * C_MAXSEQ];
	int        w2n;
	char       w2_fail[300];
	char       w2_key[96];
	bool       w2_unjudged; // cross-publisher order differed from W1's
	// W3 (see c_w3_thread / c_w3_churn_thread)
	nng_ctx    w3;
	atomic_int w1n, w3n, w3_done;
	char       w3_fail[300];
	char       w3_key[96];
	long       w3_ops, w3_unsubs, w3_unsubs_nonempty, w3_premature;
	char       w3c_fail[200];
	char       w3c_key[96];
};

static long sock_stat(nng_socket s, const char *name);
static long witness_cases, w2_unjudged_cases;

static void
c_body(uint64_t key, int pub, int seq, body_t *b)
{
	vf_rng r;
	vf_rng_seed(&r, key ^ 0xc05c05, (uint64_t) pub * 100003u + (uint64_t) seq);
	int n = (int) vf_range(&r, 0, 4);
	b->len = 0;
	for (int i = 0; i < n; i++) {
		uint32_t x = vf_below(&r, 8);
		b->b[b->len++] = x < 3 ? 'a' : x < 6 ? 'b' : x < 7 ? 'c' : 0xff;
	}
	b->b[b->len++] = (uint8_t) (0xe0 + pub);
	b->b[b->len++] = (uint8_t) (seq >> 8);
	b->b[b->len++] = (uint8_t) seq;
}

static void
c_topic(vf_rng *r, topic_t *t)
{
	static const uint8_t lens[10] = { 0, 1, 1, 1, 1, 2, 2, 2, 3, 1 };
	t->len = lens[vf_below(r, 10)];
	for (int i = 0; i < t->len; i++) {
		uint32_t x = vf_below(r, 8);
		t->b[i] = x < 3 ? 'a' : x < 6 ? 'b' : x < 7 ? 'c' : 0xff;
	}
}

static void
c_viol(csub_t *s, const char *key, const char *fmt, ...)
{
	va_list ap;
	if (s->viol) return;
	s->viol = true;
	snprintf(s->vkey, sizeof(s->vkey), "%s", key);
	va_start(ap, fmt);
	vsnprintf(s->vdetail, sizeof(s->vdetail), fmt, ap);
	va_end(ap);
}

static void
c_topic_op(csub_t *s)
{
	vf_rng *r = &s->r;
	int     active[C_MAXENT], na = 0;
	for (int i = 0; i < s->nent; i++) {
		if (s->ent[i].end == UINT64_MAX) active[na++] = i;
	}
	if (na > 0 && (na >= 4 || vf_chance(r, 1, 2))) {
		int e  = active[vf_below(r, (uint32_t) na)];
		int rv = sj_unsubscribe(&s->j, s->ent[e].t.b, s->ent[e].t.len);
		uint64_t now = vf_now_ns();
		if (rv != 0) {
			c_viol(s, "C05/unsubscribe/error-on-current-topic", "unsubscribe %s: %s",
			    hx(s->ent[e].t.b, s->ent[e].t.len), nng_strerror(rv));
		}
		s->ent[e].end = now;
		s->topic_ops++;
	} else if (s->nent < C_MAXENT) {
		topic_t t;
		c_topic(r, &t);
		for (int i = 0; i < na; i++) {
			const topic_t *o = &s->ent[active[i]].t;
			if (o->len == t.len && memcmp(o->b, t.b, t.len) == 0) return; // already active
		}
		uint64_t now = vf_now_ns();
		int      rv  = sj_subscribe(&s->j, t.b, t.len);
		if (rv != 0) {
			c_viol(s, "C05/subscribe/error", "subscribe: %s", nng_strerror(rv));
			return;
		}
		s->ent[s->nent].t     = t;
		s->ent[s->nent].start = now;
		s->ent[s->nent].end   = UINT64_MAX;
		s->nent++;
		s->topic_ops++;
	}
}

static void
c_check(csub_t *s, nng_msg *m, uint64_t t_r0, uint64_t t_r)
{
	conc_t        *c   = s->c;
	const uint8_t *b   = nng_msg_body(m);
	size_t         len = nng_msg_len(m);
	body_t         want;
	s->received++;
	if (len < 3 || len > BLEN || (b[len - 3] != 0xe0 && b[len - 3] != 0xe1)) {
		c_viol(s, "C05/conc/altered", "received %s which no publisher sent", hx(b, len));
		return;
	}
	int pub = b[len - 3] - 0xe0;
	int seq = (b[len - 2] << 8) | b[len - 1];
	if (seq >= c->nmsgs[pub]) {
		c_viol(s, "C05/conc/altered", "received %s: sequence beyond what publisher %d sent", hx(b, len), pub);
		return;
	}
	c_body(c->key, pub, seq, &want);
	if (want.len != len || memcmp(want.b, b, len) != 0) {
		c_viol(s, "C05/conc/altered", "publisher %d message %d arrived as %s, sent %s", pub, seq,
		    hx(b, len), hx(want.b, want.len));
		return;
	}
	if (seq <= s->lastseq[pub]) {
		c_viol(s, seq == s->lastseq[pub] ? "C05/conc/duplicate" : "C05/conc/reordered",
		    "subscriber %d got message %d of publisher %d after message %ld", s->idx, seq, pub,
		    s->lastseq[pub]);
		return;
	}
	s->lastseq[pub] = seq;
	uint64_t t_p = atomic_load_explicit(&c->pubtime[pub][seq], memory_order_relaxed);
	uint64_t lo  = t_p > t_r0 ? t_p : t_r0;
	bool     ok = false, ended = false;
	for (int i = 0; i < s->nent && !ok; i++) {
		if (!t_prefix(&s->ent[i].t, b, len)) continue;
		if (s->ent[i].start <= t_r + C_SLACK &&
		    (s->ent[i].end == UINT64_MAX || s->ent[i].end + C_SLACK >= lo)) {
			ok = true;
			ended = s->ent[i].end != UINT64_MAX;
		}
	}
	if (ok && ended) s->with_ended_topic++;
	if (!ok) {
		bool ever = false;
		for (int i = 0; i < s->nent; i++) {
			if (t_prefix(&s->ent[i].t, b, len)) ever = true;
		}
		c_viol(s, ever ? "C05/conc/delivered-after-unsubscribe-or-before-subscribe"
		               : "C05/conc/delivered-without-matching-subscription",
		    "subscriber %d (%s) received %s but no topic prefixing it was subscribed between max(publish,receive call) and receive return",
		    s->idx, s->j.is_sock ? "socket" : "ctx", hx(b, len));
	}
}

static void *
c_sub_thread(void *arg)
{
	csub_t *s = arg;
	conc_t *c = s->c;
	while (!atomic_load(&c->stop) && !s->viol) {
		if (vf_chance(&s->r, 1, 4)) {
			nng_msg *m = NULL;
			uint64_t t0 = vf_now_ns();
			int      rv = sj_recv_nb(&s->j, &m);
			uint64_t t1 = vf_now_ns();
			s->nb_recvs++;
			if (rv == 0) {
				c_check(s, m, t0, t1);
				nng_msg_free(m);
			} else if (rv != NNG_EAGAIN) {
				c_viol(s, "C05/conc/recv-error", "NONBLOCK receive: %s", nng_strerror(rv));
			}
			if (vf_chance(&s->r, 1, 2)) c_topic_op(s);
			continue;
		}
		uint64_t t0 = vf_now_ns();
		nng_aio_set_timeout(s->aio, 15);
		sj_recv_aio(&s->j, s->aio);
		int  nops = (int) vf_below(&s->r, 3);
		long before = s->topic_ops;
		for (int i = 0; i < nops; i++) {
			c_topic_op(s);
			if (vf_chance(&s->r, 1, 3)) vf_usleep((int) vf_below(&s->r, 150));
		}
		nng_aio_wait(s->aio);
		uint64_t t1 = vf_now_ns();
		int      rv = (int) nng_aio_result(s->aio);
		if (rv == 0) {
			nng_msg *m = nng_aio_get_msg(s->aio);
			if (s->topic_ops != before) s->overlapped++;
			c_check(s, m, t0, t1);
			nng_msg_free(m);
		} else if (rv == NNG_ETIMEDOUT) {
			s->timeouts++;
		} else {
			c_viol(s, "C05/conc/recv-error", "receive: %s", nng_strerror(rv));
		}
	}
	return NULL;
}

typedef struct {
	conc_t *c;
	int     pub;
	vf_rng  r;
} cpub_t;

static void *
c_pub_thread(void *arg)
{
	cpub_t *p = arg;
	conc_t *c = p->c;
	for (int seq = 0; seq < c->nmsgs[p->pub]; seq++) {
		body_t b;
		c_body(c->key, p->pub, seq, &b);
		atomic_store_explicit(&c->pubtime[p->pub][seq], vf_now_ns(), memory_order_relaxed);
		int rv = raw_publish(c->pub[p->pub], b.b, b.len, (seq & 7) == 7 ? NNG_FLAG_NONBLOCK : 0);
		if (rv != 0) {
			atomic_store(&c->pub_err[p->pub], rv);
			break;
		}
		if (vf_chance(&p->r, 2, 3)) vf_usleep((int) vf_range(&p->r, 20, 300));
	}
	return NULL;
}

static void *
c_setter_thread(void *arg)
{
	conc_t *c = arg;
	vf_rng *r = &c->setter_r;
	while (!atomic_load(&c->stop)) {
		csub_t *s = &c->cs[vf_below(r, (uint32_t) c->nsub)];
		switch (vf_below(r, 4)) {
		case 0:
			sj_set_recvbuf(&s->j, (int) vf_range(r, 1, 9));
			break;
		case 1:
			sj_set_prefnew(&s->j, vf_chance(r, 1, 2));
			break;
		case 2: {
			// a short-lived extra context changes the context list
			nng_ctx x;
			if (nng_ctx_open(&x, c->sub) == 0) {
				nng_msg *m;
				nng_sub0_ctx_subscribe(x, "a", 1);
				vf_usleep((int) vf_below(r, 300));
				while (nng_ctx_recvmsg(x, &m, NNG_FLAG_NONBLOCK) == 0) nng_msg_free(m);
				nng_sub0_ctx_unsubscribe(x, "a", 1);
				nng_ctx_close(x);
			}
			break;
		}
		default: {
			int  n;
			bool v;
			sj_get_recvbuf(&s->j, &n);
			sj_get_prefnew(&s->j, &v);
			break;
		}
		}
		c->setter_ops++;
		vf_usleep((int) vf_range(r, 50, 600));
	}
	return NULL;
}

// W1: fixed subscription "", RECVBUF larger than everything that will be
// published, nobody changes its options, publishers' SENDBUF larger than
// what they publish: it must receive every message of both publishers, in
// per-publisher order, with blocking receives.  Its receive order is the
// order in which sub0_recv_cb processed the arrivals for every context.
static void *
c_w1_thread(void *arg)
{
	conc_t *c = arg;
	long    last[2] = { -1, -1 };
	while (c->narr < c->total) {
		nng_msg *m = NULL;
		int      rv = nng_ctx_recvmsg(c->w1, &m, 0); // RECVTIMEO 20 s
		if (rv != 0) {
			snprintf(c->w1_key, sizeof(c->w1_key), rv == NNG_ETIMEDOUT ? "C05/conc/lost-with-room" : "C05/conc/recv-error");
			snprintf(c->w1_fail, sizeof(c->w1_fail),
			    "context subscribed to \"\" with RECVBUF 8192 got %d of %d messages (next expected: publisher 0 #%ld, publisher 1 #%ld), then a blocking receive returned %s",
			    c->narr, c->total, last[0] + 1, last[1] + 1, nng_strerror(rv));
			break;
		}
		const uint8_t *b   = nng_msg_body(m);
		size_t         len = nng_msg_len(m);
		body_t         want;
		int            pub = len >= 3 ? b[len - 3] - 0xe0 : -1;
		int            seq = len >= 3 ? (b[len - 2] << 8) | b[len - 1] : -1;
		if (pub < 0 || pub > 1 || seq >= c->nmsgs[pub]) {
			snprintf(c->w1_key, sizeof(c->w1_key), "C05/conc/altered");
			snprintf(c->w1_fail, sizeof(c->w1_fail), "witness received %s which no publisher sent", hx(b, len));
			nng_msg_free(m);
			break;
		}
		c_body(c->key, pub, seq, &want);
		if (want.len != len || memcmp(want.b, b, len) != 0) {
			snprintf(c->w1_key, sizeof(c->w1_key), "C05/conc/altered");
			snprintf(c->w1_fail, sizeof(c->w1_fail), "publisher %d message %d arrived as %s", pub, seq, hx(b, len));
			nng_msg_free(m);
			break;
		}
		nng_msg_free(m);
		if (seq != last[pub] + 1) {
			snprintf(c->w1_key, sizeof(c->w1_key), seq > last[pub] ? "C05/conc/lost-with-room" : seq == last[pub] ? "C05/conc/duplicate" : "C05/conc/reordered");
			snprintf(c->w1_fail, sizeof(c->w1_fail),
			    "context subscribed to \"\" with RECVBUF 8192 (never full): after message %ld of publisher %d came message %d",
			    last[pub], pub, seq);
			break;
		}
		last[pub]            = seq;
		c->arr[c->narr].pub  = (uint8_t) pub;
		c->arr[c->narr].seq  = seq;
		c->narr++;
		atomic_store(&c->w1n, c->narr);
	}
	atomic_store(&c->all_arrived, c->narr == c->total ? 1 : 2);
	return NULL;
}

// W2: fixed topic, fixed RECVBUF and PREFNEW, nobody changes them; receives
// at an irregular pace so that its buffer overflows.  What it received is
// judged afterwards against the arrival order recorded by W1.
static void *
c_w2_thread(void *arg)
{
	conc_t *c = arg;
	vf_rng  r;
	vf_rng_seed(&r, c->key, 777);
	for (;;) {
		int      phase = atomic_load(&c->all_arrived);
		nng_msg *m     = NULL;
		int      rv    = nng_ctx_recvmsg(c->w2, &m, NNG_FLAG_NONBLOCK);
		uint64_t t     = vf_now_ns();
		if (rv == 0) {
			const uint8_t *b   = nng_msg_body(m);
			size_t         len = nng_msg_len(m);
			if (len >= 3 && c->w2n < 2 * C_MAXSEQ) {
				c->w2r[c->w2n].pub = (uint8_t) (b[len - 3] - 0xe0);
				c->w2r[c->w2n].seq = (b[len - 2] << 8) | b[len - 1];
				c->w2r[c->w2n].t_r = t;
				c->w2n++;
			}
			nng_msg_free(m);
			if (phase == 0 && vf_chance(&r, 1, 3)) vf_usleep((int) vf_below(&r, 400));
			continue;
		}
		if (rv != NNG_EAGAIN) {
			snprintf(c->w2_key, sizeof(c->w2_key), "C05/conc/recv-error");
			snprintf(c->w2_fail, sizeof(c->w2_fail), "NONBLOCK receive: %s", nng_strerror(rv));
			break;
		}
		// empty.  Once W1 has seen everything nothing more can arrive.
		if (phase != 0) break;
		vf_usleep((int) vf_range(&r, 20, 600));
	}
	return NULL;
}

// W3: subscribed to "" for the whole case like W1, RECVBUF always larger than
// the traffic - but a second thread keeps subscribing / unsubscribing other
// topics (every unsubscribe re-filters the queued messages; all of them still
// match ""), toggles PREFNEW (irrelevant while the buffer is not full) and
// switches RECVBUF between two values that both exceed everything published.
// None of that may lose, duplicate or reorder anything: same oracle as W1.
static void *
c_w3_thread(void *arg)
{
	conc_t *c = arg;
	long    last[2] = { -1, -1 };
	int     n = 0;
	vf_rng  r;
	vf_rng_seed(&r, c->key, 778);
	while (n < c->total) {
		nng_msg *m  = NULL;
		uint64_t t0 = vf_now_ns();
		int      rv = nng_ctx_recvmsg(c->w3, &m, 0); // RECVTIMEO 20 s
		if (rv == NNG_ETIMEDOUT && (vf_now_ns() - t0) / 1000000 < 9000) {
			c->w3_premature++; // known aio expiry defect (C02), not ours
			continue;
		}
		if (rv != 0) {
			snprintf(c->w3_key, sizeof(c->w3_key), rv == NNG_ETIMEDOUT ? "C05/conc/lost-with-room/churned-context" : "C05/conc/recv-error");
			snprintf(c->w3_fail, sizeof(c->w3_fail),
			    "context subscribed to \"\" (RECVBUF >= 4096, other topics / PREFNEW / RECVBUF changing meanwhile) got %d of %d messages (next expected: publisher 0 #%ld, publisher 1 #%ld), then a blocking receive returned %s",
			    n, c->total, last[0] + 1, last[1] + 1, nng_strerror(rv));
			break;
		}
		const uint8_t *b   = nng_msg_body(m);
		size_t         len = nng_msg_len(m);
		body_t         want;
		int            pub = len >= 3 ? b[len - 3] - 0xe0 : -1;
		int            seq = len >= 3 ? (b[len - 2] << 8) | b[len - 1] : -1;
		if (pub < 0 || pub > 1 || seq >= c->nmsgs[pub]) {
			snprintf(c->w3_key, sizeof(c->w3_key), "C05/conc/altered");
			snprintf(c->w3_fail, sizeof(c->w3_fail), "churned witness received %s which no publisher sent", hx(b, len));
			nng_msg_free(m);
			break;
		}
		c_body(c->key, pub, seq, &want);
		if (want.len != len || memcmp(want.b, b, len) != 0) {
			snprintf(c->w3_key, sizeof(c->w3_key), "C05/conc/altered");
			snprintf(c->w3_fail, sizeof(c->w3_fail), "publisher %d message %d arrived as %s at the churned witness", pub, seq, hx(b, len));
			nng_msg_free(m);
			break;
		}
		nng_msg_free(m);
		if (seq != last[pub] + 1) {
			snprintf(c->w3_key, sizeof(c->w3_key), seq > last[pub] ? "C05/conc/lost-with-room/churned-context"
			        : seq == last[pub]                                  ? "C05/conc/duplicate/churned-context"
			                                                            : "C05/conc/reordered/churned-context");
			snprintf(c->w3_fail, sizeof(c->w3_fail),
			    "context subscribed to \"\" throughout (RECVBUF >= 4096 = never full; topics a/b/ab subscribed and unsubscribed, PREFNEW and RECVBUF changed meanwhile): after message %ld of publisher %d came message %d",
			    last[pub], pub, seq);
			break;
		}
		last[pub] = seq;
		n++;
		atomic_store(&c->w3n, n);
		// lag behind now and then, so that unsubscribes meet a filled queue
		if (vf_chance(&r, 1, 24)) vf_usleep((int) vf_range(&r, 300, 2500));
	}
	atomic_store(&c->w3_done, 1);
	return NULL;
}

static void *
c_w3_churn_thread(void *arg)
{
	conc_t *c = arg;
	vf_rng  r;
	static const char *tp[3] = { "a", "b", "ab" };
	bool    have[3] = { false, false, false };
	bool    big = true, pn = true;
	vf_rng_seed(&r, c->key, 779);
	while (!atomic_load(&c->w3_done) && !c->w3c_fail[0]) {
		uint32_t op = vf_below(&r, 10);
		int      t  = (int) vf_below(&r, 3), rv = 0;
		if (op < 3) {
			rv = nng_sub0_ctx_subscribe(c->w3, tp[t], strlen(tp[t]));
			if (rv != 0) {
				snprintf(c->w3c_key, sizeof(c->w3c_key), "C05/subscribe/error");
				snprintf(c->w3c_fail, sizeof(c->w3c_fail), "subscribe %s: %s", tp[t], nng_strerror(rv));
			}
			have[t] = true;
		} else if (op < 7) {
			// (W1 has seen w1n arrivals; every one of them was offered to all
			// contexts under the same lock before W1 could receive it)
			int backlog = atomic_load(&c->w1n) - atomic_load(&c->w3n);
			rv          = nng_sub0_ctx_unsubscribe(c->w3, tp[t], strlen(tp[t]));
			if (have[t] && rv != 0) {
				snprintf(c->w3c_key, sizeof(c->w3c_key), "C05/unsubscribe/error-on-current-topic");
				snprintf(c->w3c_fail, sizeof(c->w3c_fail), "unsubscribe of current topic %s: %s", tp[t], nng_strerror(rv));
			}
			if (have[t]) {
				c->w3_unsubs++;
				if (backlog >= 2) c->w3_unsubs_nonempty++;
			}
			have[t] = false;
		} else if (op < 8) {
			pn = !pn;
			rv = nng_ctx_set_bool(c->w3, NNG_OPT_SUB_PREFNEW, pn);
		} else {
			big = !big;
			rv  = nng_ctx_set_int(c->w3, NNG_OPT_RECVBUF, big ? 8192 : 4096);
			if (rv != 0) {
				snprintf(c->w3c_key, sizeof(c->w3c_key), "C05/recvbuf/error");
				snprintf(c->w3c_fail, sizeof(c->w3c_fail), "set RECVBUF %d: %s", big ? 8192 : 4096, nng_strerror(rv));
			}
		}
		c->w3_ops++;
		vf_usleep((int) vf_range(&r, 10, 300));
	}
	return NULL;
}

static void
w2_violation(conc_t *c, const char *key, const char *fmt, ...)
{
	va_list ap;
	if (c->w2_fail[0]) return;
	snprintf(c->w2_key, sizeof(c->w2_key), "%s", key);
	va_start(ap, fmt);
	vsnprintf(c->w2_fail, sizeof(c->w2_fail), fmt, ap);
	va_end(ap);
}

// Judge W2 against a bounded FIFO that drops exactly one message per
// arrival while full.  ap[] = arrivals (indices into c->arr) that match
// W2's topic, in arrival order; got[i] = index into w2r of the receive of
// ap[i], or -1 if W2 never received it.
static void
c_judge_w2(conc_t *c, long *drops_judged)
{
	static int ap[2 * C_MAXSEQ], got[2 * C_MAXSEQ], pos[2][C_MAXSEQ];
	int        n = 0, C = c->w2_cap;
	for (int i = 0; i < c->narr; i++) {
		body_t b;
		c_body(c->key, c->arr[i].pub, c->arr[i].seq, &b);
		pos[c->arr[i].pub][c->arr[i].seq] = -1;
		if (t_prefix(&c->w2_topic, b.b, b.len)) {
			pos[c->arr[i].pub][c->arr[i].seq] = n;
			got[n]                              = -1;
			ap[n++]                             = i;
		}
	}
	int prev = -1;
	for (int k = 0; k < c->w2n; k++) {
		int pub = c->w2r[k].pub, seq = c->w2r[k].seq;
		if (pub > 1 || seq >= c->nmsgs[pub]) {
			w2_violation(c, "C05/conc/altered", "fixed-topic context received a message no publisher sent");
			return;
		}
		int i = pos[pub][seq];
		if (i < 0) {
			w2_violation(c, "C05/conc/delivered-without-matching-subscription",
			    "context with the single fixed topic %s received publisher %d message %d which it does not prefix",
			    hx(c->w2_topic.b, c->w2_topic.len), pub, seq);
			return;
		}
		if (got[i] >= 0) {
			w2_violation(c, "C05/conc/duplicate", "fixed-topic context received publisher %d message %d twice", pub, seq);
			return;
		}
		got[i] = k;
		if (i < prev) {
			// Order across publishers differs from W1's.  Only the order
			// per publisher is stated by the property (and is checked
			// here: same publisher => reordered).
			for (int q = 0; q < k; q++) {
				if (c->w2r[q].pub == pub && c->w2r[q].seq > seq) {
					w2_violation(c, "C05/conc/reordered", "fixed-topic context got publisher %d message %d after %d", pub, seq, c->w2r[q].seq);
					return;
				}
			}
			c->w2_unjudged = true;
			return; // FIFO premise of the drop analysis not given: not judged
		}
		prev = i;
	}
	// drop analysis
	for (int i = 0; i < n; i++) {
		if (got[i] >= 0) continue;
		int      pub = c->arr[ap[i]].pub, seq = c->arr[ap[i]].seq;
		(*drops_judged)++;
		if (!c->w2_prefnew) {
			// dropped on arrival: the C messages accepted (= received)
			// most recently before it were all still queued then
			int cnt = 0, a1 = -1;
			for (int q = i - 1; q >= 0 && cnt < C; q--) {
				if (got[q] >= 0) {
					cnt++;
					a1 = q;
				}
			}
			if (cnt < C) {
				w2_violation(c, "C05/conc/dropped-while-not-full/prefnew-0",
				    "context (topic %s, RECVBUF %d, PREFNEW false) never received publisher %d message %d although only %d matching messages had been accepted before it arrived",
				    hx(c->w2_topic.b, c->w2_topic.len), C, pub, seq, cnt);
				return;
			}
			uint64_t t_p = atomic_load_explicit(&c->pubtime[pub][seq], memory_order_relaxed);
			if (c->w2r[got[a1]].t_r + C_SLACK < t_p) {
				w2_violation(c, "C05/conc/dropped-while-not-full/prefnew-0",
				    "context (topic %s, RECVBUF %d, PREFNEW false) never received publisher %d message %d, but of the %d messages accepted before it one had already been received before it was even published (buffer held fewer than %d)",
				    hx(c->w2_topic.b, c->w2_topic.len), C, pub, seq, C, C);
				return;
			}
		} else {
			// evicted as the oldest by the arrival of ap[i + C]
			if (i + C >= n) {
				w2_violation(c, "C05/conc/dropped-while-not-full/prefnew-1",
				    "context (topic %s, RECVBUF %d, PREFNEW true) never received publisher %d message %d although only %d matching messages arrived after it",
				    hx(c->w2_topic.b, c->w2_topic.len), C, pub, seq, n - 1 - i);
				return;
			}
			int nx = -1;
			for (int q = i + 1; q < n && nx < 0; q++) {
				if (got[q] >= 0) nx = q;
			}
			if (nx < 0) continue; // cannot happen when the check above passed
			int      epub = c->arr[ap[i + C]].pub, eseq = c->arr[ap[i + C]].seq;
			uint64_t t_p  = atomic_load_explicit(&c->pubtime[epub][eseq], memory_order_relaxed);
			if (c->w2r[got[nx]].t_r + C_SLACK < t_p) {
				w2_violation(c, "C05/conc/dropped-while-not-full/prefnew-1",
				    "context (topic %s, RECVBUF %d, PREFNEW true) never received publisher %d message %d, yet the next message behind it was received before the %d-th later arrival (the only one that may evict it) was published",
				    hx(c->w2_topic.b, c->w2_topic.len), C, pub, seq, C);
				return;
			}
		}
	}
}

static void
conc_case(long idx)
{
	conc_t   *c = calloc(1, sizeof(*c));
	vf_rng    r;
	pthread_t pt[2], st[4], set, wt1, wt2, wt3, wt3c;
	cpub_t    cp[2];
	int       rv;
	long      disc0[2] = { 0, 0 };

	vf_rng_seed(&r, vf_seed, (uint64_t) idx);
	c->key  = vf_rand(&r);
	c->tran = vf_chance(&r, 1, 3) ? VF_T_TCP : VF_T_INPROC;
	c->nsub = (int) vf_range(&r, 1, 4);
	bool use_sock = vf_chance(&r, 2, 3);
	for (int i = 0; i < 2; i++) c->nmsgs[i] = (int) vf_range(&r, 150, vf_tier ? 900 : 500);
	c->witnesses = vf_chance(&r, 3, 4);
	c->total     = c->nmsgs[0] + c->nmsgs[1];
	{
		static const int wcaps[6] = { 1, 2, 3, 4, 5, 8 };
		c->w2_cap     = wcaps[vf_below(&r, 6)];
		c->w2_prefnew = vf_chance(&r, 1, 2);
		c->w2_topic.len = vf_chance(&r, 1, 2) ? 0 : 1;
		c->w2_topic.b[0] = vf_chance(&r, 1, 2) ? 'a' : 'b';
	}
	vf_case_begin(idx, "conc tran=%s subs=%d sock=%d msgs=%d+%d witnesses=%d w2=(%s cap %d prefnew %d)", vf_tran_names[c->tran], c->nsub,
	    use_sock, c->nmsgs[0], c->nmsgs[1], c->witnesses, hx(c->w2_topic.b, c->w2_topic.len), c->w2_cap, c->w2_prefnew);
	if (nng_sub0_open(&c->sub) != 0) vf_harness_fail("sub open");
	atomic_store(&g_closing, 0);
	atomic_store(&g_pipe_add, 0);
	atomic_store(&g_pipe_rem, 0);
	nng_pipe_notify(c->sub, NNG_PIPE_EV_REM_POST, pipe_cb, NULL);
	if (c->witnesses) {
		if (nng_ctx_open(&c->w1, c->sub) != 0 || nng_ctx_open(&c->w2, c->sub) != 0) vf_harness_fail("witness ctx");
		if (nng_ctx_set_int(c->w1, NNG_OPT_RECVBUF, 8192) != 0) vf_harness_fail("witness RECVBUF");
		nng_ctx_set_ms(c->w1, NNG_OPT_RECVTIMEO, 20000);
		if (nng_sub0_ctx_subscribe(c->w1, "", 0) != 0) vf_harness_fail("witness subscribe");
		if (nng_ctx_set_int(c->w2, NNG_OPT_RECVBUF, c->w2_cap) != 0 ||
		    nng_ctx_set_bool(c->w2, NNG_OPT_SUB_PREFNEW, c->w2_prefnew) != 0) {
			vf_harness_fail("witness options");
		}
		if (nng_ctx_open(&c->w3, c->sub) != 0 || nng_ctx_set_int(c->w3, NNG_OPT_RECVBUF, 8192) != 0) vf_harness_fail("witness 3");
		nng_ctx_set_ms(c->w3, NNG_OPT_RECVTIMEO, 20000);
	}
	for (int i = 0; i < 2; i++) {
		if (nng_pub0_open(&c->pub[i]) != 0) vf_harness_fail("pub open");
		nng_socket_set_ms(c->pub[i], NNG_OPT_SENDTIMEO, 10000);
		// no drops at the publisher: its per-pipe queue holds everything
		if (c->witnesses && nng_socket_set_int(c->pub[i], NNG_OPT_SENDBUF, 2048) != 0) vf_harness_fail("SENDBUF");
		nng_pipe_notify(c->pub[i], NNG_PIPE_EV_REM_POST, pipe_cb, NULL);
		if ((rv = vf_connect(c->pub[i], c->sub, c->tran)) != 0) {
			vf_harness_fail("connect: %s", nng_strerror(rv));
		}
		if (c->witnesses) {
			// wait until the pipe really carries messages (W1 sees a probe),
			// then flush the probes with a fence
			uint8_t  probe[3] = { 0x01, 'P', (uint8_t) i }, fence[3] = { 0x01, 'F', (uint8_t) i };
			bool     up = false, fenced = false;
			uint64_t t0 = vf_now_ns();
			nng_ctx_set_ms(c->w1, NNG_OPT_RECVTIMEO, 25);
			while (!up && vf_now_ns() - t0 < 20000000000ULL) {
				nng_msg *m = NULL;
				if (raw_publish(c->pub[i], probe, 3, 0) != 0) vf_harness_fail("probe send");
				if (nng_ctx_recvmsg(c->w1, &m, 0) == 0) {
					up = nng_msg_len(m) == 3 && memcmp(nng_msg_body(m), probe, 3) == 0;
					nng_msg_free(m);
				}
			}
			nng_ctx_set_ms(c->w1, NNG_OPT_RECVTIMEO, 20000);
			if (up && raw_publish(c->pub[i], fence, 3, 0) != 0) vf_harness_fail("fence send");
			while (up && !fenced) {
				nng_msg *m = NULL;
				if (nng_ctx_recvmsg(c->w1, &m, 0) != 0) break;
				fenced = nng_msg_len(m) == 3 && memcmp(nng_msg_body(m), fence, 3) == 0;
				nng_msg_free(m);
			}
			if (!fenced) {
				// as in det mode: connection trouble is not judged here
				c->witnesses = false;
				abandoned_connect++;
				fprintf(stderr, "note: case %ld: witness could not be synchronised with publisher %d\n", idx, i);
			}
			disc0[i] = sock_stat(c->pub[i], "tx_discard");
		}
	}
	if (c->witnesses && nng_sub0_ctx_subscribe(c->w2, c->w2_topic.b, c->w2_topic.len) != 0) vf_harness_fail("witness subscribe");
	if (c->witnesses && nng_sub0_ctx_subscribe(c->w3, "", 0) != 0) vf_harness_fail("witness 3 subscribe");
	for (int i = 0; i < c->nsub; i++) {
		csub_t *s = &c->cs[i];
		s->c      = c;
		s->idx    = i;
		s->lastseq[0] = s->lastseq[1] = -1;
		vf_rng_seed(&s->r, c->key, 100 + (uint64_t) i);
		if (i == 0 && use_sock) {
			s->j.is_sock = true;
			s->j.s       = c->sub;
		} else if (nng_ctx_open(&s->j.c, c->sub) != 0) {
			vf_harness_fail("ctx open");
		}
		sj_set_recvbuf(&s->j, (int) vf_range(&r, 1, 16));
		sj_set_prefnew(&s->j, vf_chance(&r, 1, 2));
		if (nng_aio_alloc(&s->aio, NULL, NULL) != 0) vf_harness_fail("aio");
	}
	vf_rng_seed(&c->setter_r, c->key, 99);
	bool wit = c->witnesses; // (threads started <=> joined)
	if (wit) {
		pthread_create(&wt1, NULL, c_w1_thread, c);
		pthread_create(&wt2, NULL, c_w2_thread, c);
		pthread_create(&wt3, NULL, c_w3_thread, c);
		pthread_create(&wt3c, NULL, c_w3_churn_thread, c);
	}
	for (int i = 0; i < c->nsub; i++) pthread_create(&st[i], NULL, c_sub_thread, &c->cs[i]);
	pthread_create(&set, NULL, c_setter_thread, c);
	for (int i = 0; i < 2; i++) {
		cp[i].c   = c;
		cp[i].pub = i;
		vf_rng_seed(&cp[i].r, c->key, 50 + (uint64_t) i);
		pthread_create(&pt[i], NULL, c_pub_thread, &cp[i]);
	}
	for (int i = 0; i < 2; i++) pthread_join(pt[i], NULL);
	if (wit) {
		// W1 ends when it has everything (or 20 s after the last message)
		pthread_join(wt1, NULL);
		pthread_join(wt2, NULL);
		pthread_join(wt3, NULL);
		pthread_join(wt3c, NULL);
	} else {
		vf_quiesce(1, 5000);
	}
	atomic_store(&c->stop, 1);
	for (int i = 0; i < c->nsub; i++) pthread_join(st[i], NULL);
	pthread_join(set, NULL);
	if (wit) {
		// premises of the loss oracle: nothing was dropped at a publisher
		// and no pipe went away
		long disc = 0;
		bool pub_ok = atomic_load(&c->pub_err[0]) == 0 && atomic_load(&c->pub_err[1]) == 0;
		for (int i = 0; i < 2; i++) disc += sock_stat(c->pub[i], "tx_discard") - disc0[i];
		if (disc != 0 || atomic_load(&g_pipe_rem) > 0 || !pub_ok) {
			abandoned_pipe_lost++;
			fprintf(stderr, "note: case %ld: witness verdict dropped (publisher discards %ld, pipes removed %d)\n", idx, disc,
			    atomic_load(&g_pipe_rem));
		} else if (c->w1_fail[0]) {
			vf_violation(c->w1_key, "%s", c->w1_fail);
		} else {
			long dj = 0;
			if (!c->w2_fail[0]) c_judge_w2(c, &dj);
			if (c->w2_fail[0]) vf_violation(c->w2_key, "%s", c->w2_fail);
			if (c->w3_fail[0]) vf_violation(c->w3_key, "%s", c->w3_fail);
			if (c->w3c_fail[0]) vf_violation(c->w3c_key, "%s", c->w3c_fail);
			vf_stat("witness_cases_complete", 1);
			if (c->tran == VF_T_TCP) vf_stat("witness_cases_complete_tcp", 1);
			vf_stat("witness_messages_all_received", c->narr);
			vf_stat("witness2_received", c->w2n);
			if (c->w2_unjudged) {
				// the single-drop oracle was off for this case
				w2_unjudged_cases++;
				vf_stat("witness2_order_premise_failed", 1);
				dj = 0;
			}
			vf_stat("witness2_drops_judged", dj);
			vf_stat(c->w2_prefnew ? "witness2_drops_judged_prefnew_1" : "witness2_drops_judged_prefnew_0", dj);
			if (!c->w3_fail[0]) {
				vf_stat("witness3_all_received", atomic_load(&c->w3n));
				vf_stat("witness3_churn_ops", c->w3_ops);
				vf_stat("witness3_unsubscribes", c->w3_unsubs);
				vf_stat("witness3_unsubs_on_nonempty_queue", c->w3_unsubs_nonempty);
				vf_stat("compared", atomic_load(&c->w3n));
			}
			if (c->w3_premature) vf_stat("premature_aio_timeouts_tolerated", c->w3_premature);
			witness_cases++;
			vf_stat("compared", c->narr + c->w2n);
			vf_class("witness/%s/topic-%s/cap-%d/prefnew-%d/%s", vf_tran_names[c->tran], c->w2_topic.len ? "one-byte" : "empty",
			    c->w2_cap, c->w2_prefnew, dj ? "drops" : "no-drops");
		}
		nng_ctx_close(c->w1);
		nng_ctx_close(c->w2);
		nng_ctx_close(c->w3);
	} else {
		// how often the publishers' own queues overflowed in the cases
		// that run with the default SENDBUF (evidence only)
		long disc = 0;
		for (int i = 0; i < 2; i++) disc += sock_stat(c->pub[i], "tx_discard");
		vf_stat("conc_pub_discards", disc > 0 ? disc : 0);
	}
	atomic_store(&g_closing, 1);

	for (int i = 0; i < 2; i++) {
		int e = atomic_load(&c->pub_err[i]);
		if (e != 0) {
			char key[96];
			snprintf(key, sizeof(key), "C05/pub-send/%s", ename(e));
			vf_violation(key, "concurrent publisher %d: nng_sendmsg returned %s", i, nng_strerror(e));
		}
	}
	long rec = 0, ovl = 0, tops = 0, ended = 0;
	for (int i = 0; i < c->nsub; i++) {
		csub_t *s = &c->cs[i];
		if (s->viol) vf_violation(s->vkey, "%s", s->vdetail);
		rec += s->received;
		ovl += s->overlapped;
		tops += s->topic_ops;
		ended += s->with_ended_topic;
		nng_aio_free(s->aio);
		if (!s->j.is_sock) nng_ctx_close(s->j.c);
	}
	vf_stat("conc_received_checked", rec);
	vf_stat("conc_recv_overlapping_topic_change", ovl);
	vf_stat("conc_topic_ops", tops);
	vf_stat("conc_justified_by_ended_subscription", ended);
	vf_stat("conc_published", c->nmsgs[0] + c->nmsgs[1]);
	vf_stat("conc_setter_ops", c->setter_ops);
	vf_stat("compared", rec);
	if (c->tran == VF_T_TCP) {
		vf_stat("conc_cases_tcp", 1);
		vf_stat("conc_received_checked_tcp", rec);
	}
	vf_stat("cases", 1);
	vf_class("conc/%s/subs-%d/%s/%s", vf_tran_names[c->tran], c->nsub, use_sock ? "socket+ctx" : "ctx-only",
	    ovl ? "overlap" : "no-overlap");
	if ((idx % 8) == 0) {
		vf_sample("{\"mode\":\"conc\",\"tran\":\"%s\",\"subscribers\":%d,\"published\":%d,\"received_checked\":%ld,\"topic_ops\":%ld,\"receives_overlapping_topic_change\":%ld}",
		    vf_tran_names[c->tran], c->nsub, c->nmsgs[0] + c->nmsgs[1], rec, tops, ovl);
	}
	nng_socket_close(c->sub);
	for (int i = 0; i < 2; i++) nng_socket_close(c->pub[i]);
	free(c);
}

// ======================================================================
// PUB never blocks
// ======================================================================
static long
sock_stat(nng_socket s, const char *name)
{
	nng_stat       *st = NULL;
	const nng_stat *ss, *ps;
	long            v = -1;
	if (nng_stats_get(&st) != 0) return -1;
	if ((ss = nng_stat_find_socket(st, s)) != NULL && (ps = nng_stat_find(ss, name)) != NULL) {
		v = (long) nng_stat_value(ps);
	}
	nng_stats_free(st);
	return v;
}

// Messages of this mode: a 24 byte header (magic, kind, sequence number,
// length, check) and one fill byte derived from the sequence number.
#define NB_HDR 24

static void
nb_make(uint8_t *b, size_t len, char kind, uint64_t seq)
{
	memcpy(b, "C05N", 4);
	b[4] = (uint8_t) kind;
	b[5] = b[6] = b[7] = 0;
	for (int i = 0; i < 8; i++) b[8 + i] = (uint8_t) (seq >> (56 - 8 * i));
	for (int i = 0; i < 4; i++) b[16 + i] = (uint8_t) ((uint32_t) len >> (24 - 8 * i));
	for (int i = 0; i < 4; i++) b[20 + i] = (uint8_t) ~b[12 + i];
	if (len > NB_HDR) memset(b + NB_HDR, (int) (0x61 + seq % 23), len - NB_HDR);
}

// 0: intact (kind and seq set); < 0: these bytes were never sent
static int
nb_check(const uint8_t *b, size_t len, char *kind, uint64_t *seq)
{
	uint64_t s = 0;
	uint32_t l = 0;
	if (len < NB_HDR || memcmp(b, "C05N", 4) != 0) return -1;
	if ((b[4] != 'P' && b[4] != 'F' && b[4] != 'D') || b[5] || b[6] || b[7]) return -2;
	for (int i = 0; i < 8; i++) s = (s << 8) | b[8 + i];
	for (int i = 0; i < 4; i++) l = (l << 8) | b[16 + i];
	for (int i = 0; i < 4; i++) {
		if (b[20 + i] != (uint8_t) ~b[12 + i]) return -3;
	}
	if (l != len) return -4;
	if (len > NB_HDR) {
		if (b[NB_HDR] != (uint8_t) (0x61 + s % 23)) return -5;
		if (len > NB_HDR + 1 && memcmp(b + NB_HDR, b + NB_HDR + 1, len - NB_HDR - 1) != 0) return -6;
	}
	*kind = (char) b[4];
	*seq  = s;
	return 0;
}

// one send; form 0,1 blocking  2 NONBLOCK  3 aio
static int
nb_send(nng_socket pub, nng_aio *saio, int form, size_t len, char kind, uint64_t seq, uint64_t *dt)
{
	nng_msg *m;
	int      rv;
	if (nng_msg_alloc(&m, len) != 0) vf_harness_fail("alloc");
	nb_make(nng_msg_body(m), len, kind, seq);
	uint64_t t0 = vf_now_ns();
	if (form == 3) {
		nng_aio_set_msg(saio, m);
		nng_socket_send(pub, saio);
		nng_aio_wait(saio);
		rv = (int) nng_aio_result(saio);
	} else {
		rv = nng_sendmsg(pub, m, form == 2 ? NNG_FLAG_NONBLOCK : 0);
	}
	if (dt != NULL) *dt = vf_now_ns() - t0;
	if (rv != 0) nng_msg_free(m);
	return rv;
}

static const char *
nb_form(int form)
{
	return form == 2 ? "-nonblock" : form == 3 ? "-aio" : "";
}

// healthy subscribers: nng SUB sockets subscribed to "" that receive every
// message in lock-step with the sends
typedef struct {
	nng_socket s;
	int        tran;
} nb_sub;

// The lock-step receive after a send.  false: stop (violation or the pipe of
// a healthy subscriber went away = not judged).
static bool
nb_expect(nb_sub *h, char kind, uint64_t seq, size_t len, int sendbuf, long discards, int nstuck, bool *lost_pipe)
{
	nng_msg *m = NULL;
	char     key[128];
	int      rv = m_recv(h->s, 10000, &m);
	if (atomic_load(&g_pipe_rem) > 0) {
		if (rv == 0) nng_msg_free(m);
		*lost_pipe = true;
		return false;
	}
	if (rv != 0) {
		snprintf(key, sizeof(key), "C05/pub-fanout/reading-subscriber-missed-message/%s/%s", vf_tran_names[h->tran],
		    discards > 0 ? "other-pipes-stuck" : "no-pipe-stuck");
		vf_violation(key,
		    "PUB (SENDBUF %d) with %d raw TCP subscribers that never read (%ld queue overflows so far) and an nng SUB over %s subscribed to \"\" that receives every message before the next one is sent: message #%llu never came, blocking receive: %s",
		    sendbuf, nstuck, discards, vf_tran_names[h->tran], (unsigned long long) seq, nng_strerror(rv));
		return false;
	}
	char     gk  = 0;
	uint64_t gs  = 0;
	int      chk = nb_check(nng_msg_body(m), nng_msg_len(m), &gk, &gs);
	if (chk != 0 || (gk == kind && gs == seq && nng_msg_len(m) != len)) {
		snprintf(key, sizeof(key), "C05/pub-fanout/altered/%s", vf_tran_names[h->tran]);
		vf_violation(key, "message #%llu (%zu bytes) reached the reading subscriber over %s as %zu bytes that were never sent (check %d): %s",
		    (unsigned long long) seq, len, vf_tran_names[h->tran], nng_msg_len(m), chk, hx(nng_msg_body(m), nng_msg_len(m)));
		nng_msg_free(m);
		return false;
	}
	if (gk != kind || gs != seq) {
		snprintf(key, sizeof(key), "C05/pub-fanout/%s/%s", gk == kind && gs < seq ? "duplicate-or-reordered" : "wrong-message", vf_tran_names[h->tran]);
		vf_violation(key, "reading subscriber over %s: expected message %c#%llu (the only one outstanding), received %c#%llu",
		    vf_tran_names[h->tran], kind, (unsigned long long) seq, gk, (unsigned long long) gs);
		nng_msg_free(m);
		return false;
	}
	// the message is ours now: if another subscriber was handed the same
	// body it will see this
	memset(nng_msg_body(m), 0x5a, nng_msg_len(m));
	nng_msg_free(m);
	return true;
}

static void
nb_send_violation(int rv, int form, const char *where, const char *fmt, ...)
{
	char    key[128], msg[400];
	va_list ap;
	va_start(ap, fmt);
	vsnprintf(msg, sizeof(msg), fmt, ap);
	va_end(ap);
	snprintf(key, sizeof(key), "C05/pub-blocks/%s%s/%s", ename(rv), nb_form(form), where);
	vf_violation(key, "%s returned %s: %s", form == 3 ? "nng_socket_send" : "nng_sendmsg", nng_strerror(rv), msg);
}

// pipes of the publisher that were started / have been removed
static _Atomic int g_pub_add, g_pub_rem;

static void
nb_pub_pipe_cb(nng_pipe p, nng_pipe_ev ev, void *arg)
{
	(void) p;
	(void) arg;
	if (ev == NNG_PIPE_EV_ADD_POST) atomic_fetch_add(&g_pub_add, 1);
	if (ev == NNG_PIPE_EV_REM_POST) atomic_fetch_add(&g_pub_rem, 1);
}

static void
noblock_case(long idx)
{
	static const int sbufs[3] = { 1, 2, 16 };
	static const size_t sizes[4] = { 4096, 32768, 65536, 262144 };
	vf_rng     r, r2;
	nng_socket pub, lazy;
	int        fds[3], nfd, rv;
	bool       have_lazy;
	nb_sub     hs[2];
	int        nh;

	vf_rng_seed(&r, vf_seed, (uint64_t) idx);
	vf_rng_seed(&r2, vf_seed ^ 0x66616e6f7574ULL, (uint64_t) idx);
	int    sendbuf = sbufs[vf_below(&r, 3)];
	size_t msz     = sizes[vf_below(&r, 4)];
	bool   dialout = vf_chance(&r, 1, 2);
	nfd            = (int) vf_range(&r, 1, 3);
	have_lazy      = vf_chance(&r, 1, 2);
	// reading subscribers: none (1/5), one, or two (then the publisher has
	// two healthy pipes; two inproc ones share the message body by reference)
	nh = vf_chance(&r2, 1, 5) ? 0 : (int) vf_range(&r2, 1, 2);
	for (int i = 0; i < 2; i++) hs[i].tran = vf_chance(&r2, 1, 2) ? VF_T_INPROC : VF_T_TCP;
	if (nh == 2 && vf_chance(&r2, 1, 3)) hs[0].tran = hs[1].tran = VF_T_INPROC;
	// one stuck peer goes away in mid-stream: the first one (the head of the
	// publisher's pipe list); the last one is read out at the end
	bool close_plan = nfd >= 2 ? vf_chance(&r2, 2, 3) : vf_chance(&r2, 1, 4);
	int  victim = 0, di = nfd - 1;
	vf_case_begin(idx, "noblock sendbuf=%d msgsize=%zu peers=%d pub-%s lazy-nng-sub=%d reading-subs=%d(%s,%s) close-in-mid-stream=%d", sendbuf, msz, nfd,
	    dialout ? "dials" : "listens", have_lazy, nh, vf_tran_names[hs[0].tran], vf_tran_names[hs[1].tran], close_plan);
	if (nng_pub0_open(&pub) != 0) vf_harness_fail("pub open");
	if ((rv = nng_socket_set_int(pub, NNG_OPT_SENDBUF, sendbuf)) != 0) vf_harness_fail("SENDBUF: %s", nng_strerror(rv));
	nng_socket_set_ms(pub, NNG_OPT_SENDTIMEO, 10000);
	atomic_store(&g_pub_add, 0);
	atomic_store(&g_pub_rem, 0);
	nng_pipe_notify(pub, NNG_PIPE_EV_ADD_POST, nb_pub_pipe_cb, NULL);
	nng_pipe_notify(pub, NNG_PIPE_EV_REM_POST, nb_pub_pipe_cb, NULL);
	atomic_store(&g_closing, 0);
	atomic_store(&g_pipe_add, 0);
	atomic_store(&g_pipe_rem, 0);

	nng_aio *saio;
	if (nng_aio_alloc(&saio, NULL, NULL) != 0) vf_harness_fail("aio");
	nng_aio_set_timeout(saio, 10000);

	uint16_t     port = 0;
	nng_listener l;
	char         url[64], durl[64];
	int          lfd = -1;
	bool         bad = false;
	if (!dialout) {
		if ((rv = nng_listen(pub, "tcp://127.0.0.1:0", &l, 0)) != 0) vf_harness_fail("listen: %s", nng_strerror(rv));
		if (vf_dial_url(l, VF_T_TCP, "tcp://127.0.0.1:0", durl, sizeof(durl)) != 0) vf_harness_fail("port");
		port = (uint16_t) atoi(strrchr(durl, ':') + 1);
	} else {
		if ((lfd = vf_tcp_listen(&port)) < 0) vf_harness_fail("raw listen");
		snprintf(url, sizeof(url), "tcp://127.0.0.1:%u", port);
	}
	// a PUB nobody is connected to: every form of send returns 0 at once
	for (int k = 0; k < 8 && !bad; k++) {
		int form = k % 4;
		if ((rv = nb_send(pub, saio, form, (k & 4) ? msz : NB_HDR, 'P', (uint64_t) k, NULL)) != 0) {
			nb_send_violation(rv, form, "no-pipe", "send #%d on a PUB (SENDBUF %d) that has no pipe yet", k, sendbuf);
			bad = true;
		} else {
			vf_stat("noblock_sends_without_pipe", 1);
			vf_stat("compared", 1);
		}
	}
	for (int i = 0; i < nfd; i++) {
		uint16_t peer = 0;
		// Small receive buffers, so that the pipes are stuck soon.  The last
		// peer is read out at the end: its buffer must exceed the loopback
		// MSS (64 KB), else the window never opens far enough for a full
		// segment and what is left trickles in at the pace of the persist
		// timer.  (The listener's buffer size at SYN time fixes the window
		// scale of a connection it accepts.)
		int small = i == di ? 262144 : 4096;
		if (!dialout) {
			fds[i]    = vf_tcp_connect(port, 5000);
			if (fds[i] >= 0) setsockopt(fds[i], SOL_SOCKET, SO_RCVBUF, &small, sizeof(small));
		} else {
			setsockopt(lfd, SOL_SOCKET, SO_RCVBUF, &small, sizeof(small));
			if ((rv = nng_dial(pub, url, NULL, NNG_FLAG_NONBLOCK)) != 0) vf_harness_fail("dial: %s", nng_strerror(rv));
			fds[i] = vf_tcp_accept(lfd, 5000);
		}
		if (fds[i] < 0) vf_harness_fail("raw peer connect");
		for (int tries = 0;; tries++) {
			if (vf_sp_handshake(fds[i], 0x21, &peer, 5000) == 0 && peer == 0x20) break;
			// a stray dialer of another process on this machine may have
			// reached our ephemeral port: drop it and take the next one
			close(fds[i]);
			if (!dialout || tries >= 8) vf_harness_fail("SP handshake (peer %#x)", peer);
			vf_stat("noblock_foreign_connections_dropped", 1);
			if ((fds[i] = vf_tcp_accept(lfd, 5000)) < 0) vf_harness_fail("raw peer accept");
		}
	}
	if (have_lazy) {
		// an nng subscriber that matches everything and never receives
		if (nng_sub0_open(&lazy) != 0) vf_harness_fail("sub open");
		nng_socket_set_int(lazy, NNG_OPT_RECVBUF, 2);
		nng_socket_set_bool(lazy, NNG_OPT_SUB_PREFNEW, vf_chance(&r, 1, 2));
		nng_sub0_socket_subscribe(lazy, "", 0);
		if ((rv = vf_connect(pub, lazy, VF_T_INPROC)) != 0) vf_harness_fail("lazy connect: %s", nng_strerror(rv));
	}
	for (int i = 0; i < nh; i++) {
		if (nng_sub0_open(&hs[i].s) != 0) vf_harness_fail("sub open");
		nng_socket_set_int(hs[i].s, NNG_OPT_RECVBUF, (int) vf_range(&r2, 2, 8));
		nng_socket_set_ms(hs[i].s, NNG_OPT_RECVTIMEO, 25);
		nng_sub0_socket_subscribe(hs[i].s, "", 0);
		nng_pipe_notify(hs[i].s, NNG_PIPE_EV_REM_POST, pipe_cb, NULL);
		if ((rv = vf_connect(pub, hs[i].s, hs[i].tran)) != 0) vf_harness_fail("reading subscriber connect: %s", nng_strerror(rv));
	}
	int want_pipes = nfd + (have_lazy ? 1 : 0) + nh;
	for (int i = 0; i < 5000 && vf_pipe_count(pub) < want_pipes; i++) vf_msleep(1);
	if (vf_pipe_count(pub) < want_pipes) vf_harness_fail("pipes did not come up");

	bool lost_pipe = false;
	if (nh > 0 && !bad) {
		// pipes are reported before the protocols have started them: publish
		// probes until each reading subscriber has seen one, then a fence
		bool     up[2] = { false, false };
		int      nup = 0;
		long     probes = 0;
		uint64_t t0 = vf_now_ns();
		while (nup < nh && !bad && vf_now_ns() - t0 < 20000000000ULL) {
			if ((rv = nb_send(pub, saio, 0, NB_HDR, 'P', (uint64_t) (100 + probes), NULL)) != 0) {
				nb_send_violation(rv, 0, "idle-pipes", "probe send on PUB (SENDBUF %d) with %d fresh pipes", sendbuf, want_pipes);
				bad = true;
			}
			probes++;
			for (int i = 0; i < nh; i++) {
				nng_msg *m;
				// (25 ms while waiting for the first one, then just empty it)
				while (nng_recvmsg(hs[i].s, &m, up[i] ? NNG_FLAG_NONBLOCK : 0) == 0) {
					nng_msg_free(m);
					if (!up[i]) {
						up[i] = true;
						nup++;
					}
				}
			}
		}
		for (int i = 0; i < nh; i++) nng_socket_set_ms(hs[i].s, NNG_OPT_RECVTIMEO, 10000);
		if (nup < nh && !bad && atomic_load(&g_pipe_rem) == 0) {
			char key[128];
			int  i = up[0] ? 1 : 0;
			snprintf(key, sizeof(key), "C05/pub-fanout/not-delivered-to-reading-subscriber/%s", vf_tran_names[hs[i].tran]);
			vf_violation(key, "PUB with %d pipes (all sides report them): none of %ld small messages published during 20 s reached the nng SUB over %s subscribed to \"\"",
			    want_pipes, probes, vf_tran_names[hs[i].tran]);
			bad = true;
		}
		if (!bad && (rv = nb_send(pub, saio, 0, NB_HDR, 'F', 0, NULL)) != 0) {
			nb_send_violation(rv, 0, "idle-pipes", "fence send on PUB (SENDBUF %d)", sendbuf);
			bad = true;
		}
		for (int i = 0; i < nh && !bad; i++) {
			for (;;) {
				nng_msg *m = NULL;
				if ((rv = m_recv(hs[i].s, 10000, &m)) != 0) {
					if (atomic_load(&g_pipe_rem) == 0) {
						char key[128];
						snprintf(key, sizeof(key), "C05/pub-fanout/not-delivered-to-reading-subscriber/%s", vf_tran_names[hs[i].tran]);
						vf_violation(key, "a message published after the %s pipe carried traffic did not reach the SUB subscribed to \"\" (PREFNEW, so the newest message is never the one dropped) within 10 s: %s",
						    vf_tran_names[hs[i].tran], nng_strerror(rv));
					}
					bad = true;
					break;
				}
				bool f = nng_msg_len(m) == NB_HDR && ((uint8_t *) nng_msg_body(m))[4] == 'F';
				nng_msg_free(m);
				if (f) break;
			}
			// the queue is empty now; either policy (never applied in lock-step)
			nng_socket_set_bool(hs[i].s, NNG_OPT_SUB_PREFNEW, vf_chance(&r2, 1, 2));
		}
		if (atomic_load(&g_pipe_rem) > 0) lost_pipe = true;
	}

	// publish until the per-pipe queues have overflowed many times (the
	// peers' socket buffers are full and the pipes are stuck), then more
	long     sends = 0, discards = 0, after_stuck = 0, fan_stuck = 0, fan = 0, across_loss = 0;
	uint64_t worst = 0;
	size_t   budget = (size_t) 96 << 20;
	bool     resize_plan = vf_chance(&r, 1, 2), resized = false, closed_mid = false;
	long     aio_stuck = 0, last_event = 0, resize_at = -1;
	long     i = 0;
	int      nstuck = nfd;
	for (; i < 20000 && !bad; i++) {
		int      form = (int) (i % 4); // 0,1 blocking  2 NONBLOCK  3 aio
		uint64_t dt;
		rv = nb_send(pub, saio, form, msz, 'D', (uint64_t) i, &dt);
		if (dt > worst) worst = dt;
		if (rv != 0) {
			char where[32];
			snprintf(where, sizeof(where), "sendbuf-%d", sendbuf);
			nb_send_violation(rv, form, where,
			    "send #%ld on PUB (SENDBUF %d%s, %d raw TCP subscribers that never read%s, %d reading nng subscribers, %ld queue overflows so far) after %llu ms",
			    i, sendbuf, resized ? " changed while stuck" : "", nfd, closed_mid ? " one of which has just gone away" : "", nh, discards,
			    (unsigned long long) (dt / 1000000));
			bad = true;
			break;
		}
		sends++;
		for (int h = 0; h < nh && !lost_pipe && !bad; h++) {
			if (!nb_expect(&hs[h], 'D', (uint64_t) i, msz, sendbuf, discards, nstuck, &lost_pipe)) {
				if (!lost_pipe) bad = true;
				break;
			}
			fan++;
			if (discards > 0) fan_stuck++;
		}
		if (bad) break;
		if (discards > 0) {
			after_stuck++;
			if (form == 3) aio_stuck++;
		}
		if (closed_mid) across_loss++;
		if (resize_plan && !resized && after_stuck >= 100) {
			// change the depth of the (full) per-pipe queues in mid-stream
			int nb = sbufs[vf_below(&r, 3)];
			if (nb == sendbuf) nb = sendbuf == 16 ? 1 : 16;
			if (nng_socket_set_int(pub, NNG_OPT_SENDBUF, nb) == 0) {
				vf_stat("noblock_sendbuf_changes_while_stuck", 1);
				vf_class("noblock/sendbuf-change/%d-to-%d", sendbuf, nb);
				sendbuf   = nb;
				resize_at = i;
			}
			resized    = true;
			last_event = i;
		}
		if (close_plan && !closed_mid && after_stuck >= 60) {
			// a subscriber disappears while its pipe is stuck in a send
			close(fds[victim]);
			fds[victim] = -1;
			closed_mid  = true;
			last_event  = i;
			nstuck--;
		}
		if ((i & 15) == 15) {
			discards = sock_stat(pub, "tx_discard");
			if (discards >= 200 * nfd && after_stuck >= 300 && (!resize_plan || resized) && (!close_plan || closed_mid) &&
			    i - last_event >= 40) {
				i++;
				break;
			}
		}
		if ((size_t) sends * msz > budget) {
			i++;
			break;
		}
		if ((i & 63) == 0) vf_watchdog(40);
	}
	discards = sock_stat(pub, "tx_discard");

	// What the publisher's own queue let through: read out the first stuck
	// peer.  A last message is sent first; then frames are read until that
	// one arrives.  Per pipe the publisher drops exactly one message - the
	// oldest queued - per send while the queue is full, so: every frame is
	// an intact message, sequence numbers strictly increase, and the last K
	// messages sent (K = SENDBUF, less if SENDBUF changed that recently)
	// were never the oldest of a full queue and must all arrive.
	vf_watchdog(120);
	if (!bad && discards > 0 && fds[di] >= 0) {
		uint64_t marker = (uint64_t) i;
		if ((rv = nb_send(pub, saio, 0, msz, 'D', marker, NULL)) != 0) {
			nb_send_violation(rv, 0, "last-message", "send on PUB (SENDBUF %d) with stuck pipes", sendbuf);
			bad = true;
		}
		for (int h = 0; h < nh && !lost_pipe && !bad; h++) {
			if (!nb_expect(&hs[h], 'D', marker, msz, sendbuf, discards, nstuck, &lost_pipe) && !lost_pipe) bad = true;
		}
		uint8_t *buf = malloc(msz);
		uint64_t prev = 0, tail[16];
		long     nd = 0;
		bool     complete = false;
		int      K = sendbuf;
		if (resize_at >= 0 && (long) marker - resize_at < K) K = (int) ((long) marker - resize_at);
		if ((long) marker + 1 < K) K = (int) marker + 1;
		if (buf == NULL) vf_harness_fail("out of memory");
		int rem0 = atomic_load(&g_pub_rem);
		while (!bad) {
			long     n = vf_sp_recv_frame(fds[di], false, buf, msz, 10000);
			char     kind = 0;
			uint64_t seq = 0;
			char     key[128];
			if (n == -3) {
				vf_violation("C05/pub-overflow/altered/frame-longer-than-any-message", "stuck raw subscriber, read out after %ld queue overflows: frame #%ld announces more than the %zu bytes of every message sent",
				    discards, nd, msz);
				bad = true;
				break;
			}
			if (n < 0) {
				// Nothing for 10 s.  Connection gone: not judged.  Connection
				// there and idle: the publisher has nothing more for this
				// pipe, so the newest message was not kept for it.
				vf_msleep(50);
				if (vf_fd_wait_eof(fds[di], 20) == 0 && atomic_load(&g_pub_rem) == rem0) {
					snprintf(key, sizeof(key), "C05/pub-overflow/newest-message-not-delivered/sendbuf-%d", sendbuf);
					vf_violation(key,
					    "PUB SENDBUF %d, pipe stuck (%ld overflows), then read out: %ld frames up to message #%llu arrived, then nothing for 10 s on a live connection; the last message sent (#%llu, never the oldest of a full queue) is missing",
					    sendbuf, discards, nd, (unsigned long long) prev, (unsigned long long) marker);
					bad = true;
				}
				break;
			}
			int chk = nb_check(buf, (size_t) n, &kind, &seq);
			if (chk != 0 || (kind == 'D' && (size_t) n != msz)) {
				snprintf(key, sizeof(key), "C05/pub-overflow/altered/sendbuf-%d", sendbuf);
				vf_violation(key, "stuck raw subscriber, read out after %ld queue overflows: frame #%ld (%ld bytes, after message #%llu) is not a message that was sent (check %d): %s", discards,
				    nd, n, (unsigned long long) prev, chk, hx(buf, (size_t) n));
				bad = true;
				break;
			}
			if (kind != 'D') {
				if (nd == 0) continue; // probes and the fence come first
				seq = 0;               // ... and never again
			}
			if (nd > 0 && seq <= prev) {
				snprintf(key, sizeof(key), "C05/pub-overflow/%s/sendbuf-%d", kind == 'D' && seq == prev ? "duplicate" : "reordered", sendbuf);
				vf_violation(key, "stuck raw subscriber, read out after %ld queue overflows: after message #%llu came %c#%llu", discards,
				    (unsigned long long) prev, kind, (unsigned long long) seq);
				bad = true;
				break;
			}
			prev          = seq;
			tail[nd % 16] = seq;
			nd++;
			if (seq == marker) {
				complete = true;
				break;
			}
		}
		if (complete) {
			long have = nd < K ? nd : K;
			for (long q = 0; q < K && !bad; q++) {
				// q-th from the end must be marker - q
				if (q >= have || tail[(nd - 1 - q) % 16] != marker - (uint64_t) q) {
					char key[128];
					snprintf(key, sizeof(key), "C05/pub-overflow/dropped-while-not-oldest-of-full-queue/sendbuf-%d", sendbuf);
					vf_violation(key,
					    "PUB SENDBUF %d%s, pipe stuck (%ld overflows), then read out: of the last %d messages sent (#%llu..#%llu), none of which can have been the oldest of a full queue, #%llu never arrived (%ld frames read)",
					    sendbuf, resize_at >= 0 ? " (set while stuck)" : "", discards, K, (unsigned long long) (marker - (uint64_t) K + 1),
					    (unsigned long long) marker, (unsigned long long) (marker - (uint64_t) q), nd);
					bad = true;
				}
			}
			vf_stat("noblock_drains_complete", 1);
			vf_stat("noblock_frames_read_after_overflow", nd);
			vf_stat("noblock_recent_messages_required", K);
			vf_stat("compared", nd);
			vf_class("noblock/read-out/sendbuf-%d/msg-%zu/%s%s", sendbuf, msz, resize_at >= 0 ? "resized" : "fixed", closed_mid ? "/other-peer-left" : "");
		} else if (!bad) {
			vf_stat("noblock_drains_incomplete", 1);
		}
		free(buf);
	}

	vf_stat("noblock_aio_sends_with_stuck_peer", aio_stuck);
	vf_stat("noblock_sends", sends);
	vf_stat("noblock_sends_with_stuck_peer", after_stuck);
	vf_stat("noblock_sends_across_pipe_loss", across_loss);
	vf_stat("noblock_queue_overflows", discards > 0 ? discards : 0);
	vf_stat("fanout_deliveries", fan);
	vf_stat("fanout_deliveries_with_stuck_peer", fan_stuck);
	if (nh == 2) vf_stat(hs[0].tran == VF_T_INPROC && hs[1].tran == VF_T_INPROC ? "fanout_cases_two_inproc_readers" : "fanout_cases_two_readers_other", 1);
	if (lost_pipe) {
		abandoned_pipe_lost++;
		fprintf(stderr, "note: case %ld: the pipe of a reading subscriber went away; fan-out not judged further\n", idx);
	}
	vf_stat_max("noblock_worst_send_us", (long) (worst / 1000));
	vf_stat("compared", sends + fan);
	vf_stat("cases", 1);
	vf_class("noblock/sendbuf-%d/msg-%zu/peers-%d/%s/%s%s", sendbuf, msz, nfd, dialout ? "dial" : "listen",
	    discards > 0 ? "stuck" : "never-stuck", have_lazy ? "/lazy-sub" : "");
	if (nh > 0) {
		vf_class("noblock/readers-%d/%s%s%s/sendbuf-%d/%s", nh, vf_tran_names[hs[0].tran], nh > 1 ? "+" : "", nh > 1 ? vf_tran_names[hs[1].tran] : "",
		    sendbuf, closed_mid ? "peer-left-in-mid-stream" : "peers-stay");
	}
	if ((idx % 4) == 0) {
		vf_sample("{\"mode\":\"noblock\",\"sendbuf\":%d,\"msgsize\":%zu,\"raw_peers\":%d,\"reading_subs\":%d,\"sends\":%ld,\"queue_overflows\":%ld,\"fanout_deliveries\":%ld,\"worst_send_us\":%llu}",
		    sendbuf, msz, nfd, nh, sends, discards, fan, (unsigned long long) (worst / 1000));
	}

	// all subscribers leave; a PUB without pipes still takes every message
	atomic_store(&g_closing, 1);
	if (lfd >= 0) close(lfd);
	for (int k = 0; k < nfd; k++) {
		if (fds[k] >= 0) close(fds[k]);
	}
	if (have_lazy) nng_socket_close(lazy);
	for (int k = 0; k < nh; k++) nng_socket_close(hs[k].s);
	if (!bad) {
		// (not vf_pipe_count: the socket's "pipes" statistic is also counted
		// down for connections that died during negotiation and never were
		// counted up, so it can read -1 here)
		int left = 1;
		for (int k = 0; k < 10000 && (left = atomic_load(&g_pub_add) - atomic_load(&g_pub_rem)) != 0; k++) vf_msleep(1);
		if (left == 0) {
			for (int k = 0; k < 8 && !bad; k++) {
				int form = k % 4;
				if ((rv = nb_send(pub, saio, form, (k & 4) ? msz : NB_HDR, 'P', (uint64_t) k, NULL)) != 0) {
					nb_send_violation(rv, form, "after-last-pipe-left", "send #%d on a PUB (SENDBUF %d) whose %d subscribers have all gone", k, sendbuf, want_pipes);
					bad = true;
				} else {
					vf_stat("noblock_sends_after_last_pipe_left", 1);
					vf_stat("compared", 1);
				}
			}
		} else {
			vf_stat("noblock_pipes_did_not_leave", 1);
		}
	}
	nng_aio_free(saio);
	nng_socket_close(pub);
}

int
main(int argc, char **argv)
{
	vf_init(argc, argv);
	vf_nng_init(4, 2, 2);
	void (*fn)(long) = det_case;
	long ran = 0;
	if (!strcmp(vf_mode, "conc")) {
		fn = conc_case;
	} else if (!strcmp(vf_mode, "noblock")) {
		fn = noblock_case;
	} else if (strcmp(vf_mode, "det") != 0 && strcmp(vf_mode, "dettcp") != 0 && vf_mode[0] != 0) {
		vf_harness_fail("unknown mode %s", vf_mode);
	}
	for (long idx = 0; idx < vf_cases; idx++) {
		if (!vf_want_case(idx)) continue;
		vf_watchdog(120);
		fn(idx);
		ran++;
		if (vf_violations() >= 6) {
			// the verdict is settled; do not spend the run's time-out
			// on thousands of further failing cases
			break;
		}
		if ((idx & 31) == 31) {
			// allocator balance (leaks of topics / queued messages)
			vf_quiesce(0, 5000);
			vf_nng_fini("C05");
			vf_nng_init(4, 2, 2);
		}
	}
	vf_nng_fini("C05");
	if (premature_timeouts) vf_stat("premature_aio_timeouts_tolerated", premature_timeouts);
	if (abandoned_pipe_lost) vf_stat("cases_abandoned_pipe_lost", abandoned_pipe_lost);
	if (abandoned_connect) vf_stat("cases_abandoned_connect_failed", abandoned_connect);
	if (w2_unjudged_cases > 3 && w2_unjudged_cases * 50 > witness_cases) {
		// (cannot happen while one lock orders the arrivals for all contexts)
		vf_harness_fail("single-drop oracle switched off in %ld of %ld witness cases: the second witness saw another cross-publisher order than the first",
		    w2_unjudged_cases, witness_cases);
	}
	if (abandoned_pipe_lost + abandoned_connect > 3 && (abandoned_pipe_lost + abandoned_connect) * 50 > ran) {
		// pipes that keep disappearing would silently shrink what is judged
		vf_harness_fail("%ld of %ld cases abandoned (pipe lost %ld, connect failed %ld)", abandoned_pipe_lost + abandoned_connect, ran,
		    abandoned_pipe_lost, abandoned_connect);
	}
	return vf_finish();
}
