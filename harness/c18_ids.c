// C18 (identifiers): ids issued by the library are unique among live
// objects, inside their documented range, not reissued before the range
// wraps; nng_id_map set/get/remove/alloc/visit behave as a finite map.
//
// modes: map    nng_id_map_* public API against a dictionary model: tiny
//               ranges that wrap, ranges at the 32/64-bit edges, explicit keys
//               colliding modulo 8/16/32/64, random start, iteration with and
//               without removal (the guarded structural recount in idhash.c
//               runs on every set/remove and reports through nni_verif_fail)
//        storm  open/close storms of sockets, contexts, dialers, listeners and
//               the pipes they create: every id is collected; request and
//               survey ids are read off the wire by raw peers
//        wrap   the library's own static id maps (sockets, contexts, dialers,
//               listeners, pipes) at the end of their range: the cursor of the
//               real map is moved to just below its maximum (the map is found
//               through the executable's symbol table: there is no accessor),
//               then objects are opened and closed across the wrap while ten
//               long-lived ones hold the lowest ids
#include "core/nng_impl.h"

#include "vfh.h"

#include <elf.h>
#include <fcntl.h>
#include <link.h>
#include <pthread.h>
#include <stdatomic.h>
#include <sys/mman.h>
#include <sys/stat.h>
#include <unistd.h>

// ==================================================================
// nng_id_map against a dictionary
// ==================================================================
#define DMAX 4096
typedef struct {
	uint64_t  key[DMAX];
	uintptr_t val[DMAX];
	int       n;
} dict;

static int
d_find(const dict *d, uint64_t k)
{
	for (int i = 0; i < d->n; i++) {
		if (d->key[i] == k) {
			return i;
		}
	}
	return -1;
}

static void
d_set(dict *d, uint64_t k, uintptr_t v)
{
	int i = d_find(d, k);
	if (i < 0) {
		if (d->n >= DMAX) {
			vf_harness_fail("dict overflow");
		}
		i         = d->n++;
		d->key[i] = k;
	}
	d->val[i] = v;
}

static void
d_del(dict *d, int i)
{
	d->key[i] = d->key[d->n - 1];
	d->val[i] = d->val[d->n - 1];
	d->n--;
}

typedef struct {
	nng_id_map *m;
	dict        d;
	uint64_t    lo, hi; // effective range
	bool        random;
	bool        have_prev;
	uint64_t    prev; // last id issued by alloc
	uintptr_t   vctr;
	bool        dead;
	long        v0;
	char        desc[160];
	long        wraps, allocs, full_refusals, spurious_refusals;
} mctx;

static void mv(mctx *C, const char *clause, const char *fmt, ...) __attribute__((format(printf, 3, 4)));
static void
mv(mctx *C, const char *clause, const char *fmt, ...)
{
	char    key[96], b[300];
	va_list ap;
	va_start(ap, fmt);
	vsnprintf(b, sizeof(b), fmt, ap);
	va_end(ap);
	snprintf(key, sizeof(key), "C18/idmap/%s", clause);
	vf_violation(key, "%s | map: %s", b, C->desc);
	C->dead = true;
}

static bool
mdead(mctx *C)
{
	if (!C->dead && vf_violations() != C->v0) {
		C->dead = true;
	}
	return C->dead;
}

static long abandoned;

static uintptr_t
newval(mctx *C)
{
	C->vctr += 16;
	return C->vctr;
}

// number of live keys inside [lo,hi]
static uint64_t
in_range_live(const mctx *C)
{
	uint64_t n = 0;
	for (int i = 0; i < C->d.n; i++) {
		if (C->d.key[i] >= C->lo && C->d.key[i] <= C->hi) {
			n++;
		}
	}
	return n;
}

static bool
free_above(const mctx *C, uint64_t prev)
{
	// is there an id in (prev, hi] that is not live?
	if (prev >= C->hi) {
		return false;
	}
	uint64_t span = C->hi - prev; // ids prev+1..hi
	uint64_t live = 0;
	for (int i = 0; i < C->d.n; i++) {
		if (C->d.key[i] > prev && C->d.key[i] <= C->hi) {
			live++;
		}
	}
	return live < span;
}

static void
op_alloc(mctx *C)
{
	uint64_t  id = 0xdeadbeefdeadbeefULL;
	uintptr_t v  = newval(C);
	uint64_t  width1 = C->hi - C->lo; // width - 1
	uint64_t  live   = in_range_live(C);
	bool      full   = live > width1;
	int       rv     = nng_id_alloc(C->m, &id, (void *) v);
	if (mdead(C)) {
		return;
	}
	if (rv != 0) {
		if (full) {
			C->full_refusals++;
		} else if ((uint64_t) C->d.n > width1) {
			// the implementation counts explicit keys outside the
			// range against it: a refusal the property does not
			// speak about (counted, reported separately)
			C->spurious_refusals++;
		} else {
			mv(C, "alloc/refused-with-free-ids", "nng_id_alloc returned %d with %llu of %llu ids in use", rv, (unsigned long long) live, (unsigned long long) width1 + 1);
		}
		return;
	}
	C->allocs++;
	if (id < C->lo || id > C->hi) {
		mv(C, "alloc/out-of-range", "allocated id %llu outside [%llu,%llu]", (unsigned long long) id, (unsigned long long) C->lo, (unsigned long long) C->hi);
		return;
	}
	if (d_find(&C->d, id) >= 0) {
		mv(C, "alloc/duplicate-live", "allocated id %llu is still in use", (unsigned long long) id);
		return;
	}
	if (C->have_prev && id <= C->prev) {
		// the cursor wrapped: legitimate only if nothing above the
		// previous id was free
		C->wraps++;
		if (free_above(C, C->prev)) {
			mv(C, "alloc/reissued-before-wrap", "allocated %llu after %llu although ids above %llu were free", (unsigned long long) id, (unsigned long long) C->prev, (unsigned long long) C->prev);
			return;
		}
	}
	C->have_prev = true;
	C->prev      = id;
	d_set(&C->d, id, v);
	if (nng_id_get(C->m, id) != (void *) v) {
		mv(C, "get/after-alloc", "id %llu does not map to the value stored by alloc", (unsigned long long) id);
	}
}

static void
op_set(mctx *C, uint64_t k)
{
	uintptr_t v  = newval(C);
	int       rv = nng_id_set(C->m, k, (void *) v);
	if (mdead(C)) {
		return;
	}
	if (rv != 0) {
		mv(C, "set/failed", "nng_id_set(%llu) returned %d", (unsigned long long) k, rv);
		return;
	}
	d_set(&C->d, k, v);
}

static void
op_get(mctx *C, uint64_t k)
{
	void *got = nng_id_get(C->m, k);
	int   i   = d_find(&C->d, k);
	if (mdead(C)) {
		return;
	}
	if (i < 0 && got != NULL) {
		mv(C, "get/phantom", "key %llu is not in the map but get returns a value", (unsigned long long) k);
	} else if (i >= 0 && got != (void *) C->d.val[i]) {
		mv(C, got == NULL ? "get/missing" : "get/wrong-value", "key %llu: got %p want %p", (unsigned long long) k, got, (void *) C->d.val[i]);
	}
}

static void
op_remove(mctx *C, uint64_t k)
{
	int rv = nng_id_remove(C->m, k);
	int i  = d_find(&C->d, k);
	if (mdead(C)) {
		return;
	}
	if (i < 0) {
		if (rv != NNG_ENOENT) {
			mv(C, "remove/phantom", "remove of absent key %llu returned %d", (unsigned long long) k, rv);
		}
		return;
	}
	if (rv != 0) {
		mv(C, "remove/missing", "remove of present key %llu returned %d", (unsigned long long) k, rv);
		return;
	}
	d_del(&C->d, i);
	if (nng_id_get(C->m, k) != NULL) {
		mv(C, "get/phantom", "key %llu still readable after remove", (unsigned long long) k);
	}
}

// full iteration; with remove_some, entries are removed while iterating
// (documented as safe): everything that stays must be visited exactly once,
// nothing removed may be yielded afterwards.
static void
op_visit(mctx *C, vf_rng *r, bool remove_some)
{
	static uint8_t visited[DMAX];
	static uint8_t removed[DMAX];
	static dict    snap; // indices refer to the snapshot
	uint32_t       cur = 0;
	uint64_t       k;
	void          *v;
	int            steps = 0;
	snap = C->d;
	memset(visited, 0, (size_t) snap.n);
	memset(removed, 0, (size_t) snap.n);
	while (nng_id_visit(C->m, &k, &v, &cur)) {
		if (mdead(C)) {
			return;
		}
		if (++steps > 2 * DMAX) {
			mv(C, "visit/endless", "iteration does not terminate");
			return;
		}
		int i = d_find(&snap, k);
		if (i < 0 || removed[i]) {
			mv(C, i < 0 ? "visit/phantom" : "visit/phantom-after-remove", "iteration yields key %llu which is not in the map", (unsigned long long) k);
			return;
		}
		if ((uintptr_t) v != snap.val[i]) {
			mv(C, "visit/wrong-value", "iteration yields a wrong value for key %llu", (unsigned long long) k);
			return;
		}
		if (visited[i]) {
			mv(C, remove_some ? "visit/repeated-after-remove" : "visit/repeated", "iteration yields key %llu twice", (unsigned long long) k);
			return;
		}
		visited[i] = 1;
		if (remove_some) {
			// remove the current one and/or some other entry
			if (vf_chance(r, 1, 2)) {
				op_remove(C, k);
				removed[i] = 1;
			}
			if (vf_chance(r, 1, 3)) {
				int j = (int) vf_below(r, (uint32_t) snap.n);
				if (!removed[j]) {
					op_remove(C, snap.key[j]);
					removed[j] = 1;
				}
			}
			if (mdead(C)) {
				return;
			}
		}
	}
	for (int i = 0; i < snap.n; i++) {
		if (!visited[i] && !removed[i]) {
			mv(C, remove_some ? "visit/missed-after-remove" : "visit/missed", "iteration never yields key %llu (%d entries%s)", (unsigned long long) snap.key[i], snap.n, remove_some ? ", some removed while iterating" : "");
			return;
		}
	}
}

static uint64_t
pick_key(mctx *C, vf_rng *r, uint64_t kbase, uint64_t stride, int nk)
{
	switch (vf_below(r, 4)) {
	case 0: // inside the allocation range
		return C->lo + vf_rand(r) % (C->hi - C->lo + 1);
	case 1: // an existing key
		if (C->d.n > 0) {
			return C->d.key[vf_below(r, (uint32_t) C->d.n)];
		}
		// fallthrough
	default: return kbase + stride * vf_below(r, (uint32_t) nk);
	}
}

static void
run_map(void)
{
	vf_rng r;
	long   total_steps = 0;
	static mctx C;
	for (long c = 0; c < vf_cases; c++) {
		if (!vf_want_case(c)) {
			continue;
		}
		vf_rng_seed(&r, vf_seed, (uint64_t) c);
		memset(&C, 0, sizeof(C));
		uint64_t lo, hi, w;
		int      shape = (int) vf_below(&r, 10);
		if (shape < 6) {
			w = vf_range(&r, 1, 16);
		} else if (shape < 8) {
			w = vf_range(&r, 17, 300);
		} else if (shape == 8) {
			w = vf_range(&r, 1, 40);
		} else {
			w = 0; // default range
		}
		switch (vf_below(&r, 8)) {
		case 0: lo = 0; break; // means 1
		case 1: lo = 1; break;
		case 2: lo = 0x7ffffff0u; break;
		case 3: lo = 0xfffffff8u; break;             // straddles 2^32
		case 4: lo = UINT64_MAX - w; break;          // hi == UINT64_MAX
		case 5: lo = 0x8000000000000000ULL - 3; break; // straddles 2^63
		case 6: lo = 1 + vf_rand(&r) % 1000; break;
		default: lo = (vf_rand(&r) >> 24) | 1; break;
		}
		if (w == 0) {
			lo = hi = 0;
		} else {
			hi = lo + w;
			if (lo == 0) {
				hi = 1 + w;
			}
		}
		// A random start value cannot be seeded from here.  On narrow
		// ranges the case first walks the cursor to the top of the range
		// (allocating and removing), after which it is deterministic
		// again; elsewhere only 1 case in 16 uses the flag unprimed.
		bool primable = w != 0 && w <= 300 && hi != UINT64_MAX;
		bool unprimed = vf_chance(&r, 1, 16);
		int  flags    = unprimed || (primable && vf_chance(&r, 1, 2)) ? NNG_MAP_RANDOM : 0;
		if (nng_id_map_alloc(&C.m, lo, hi, flags) != 0) {
			vf_harness_fail("nng_id_map_alloc");
		}
		C.lo     = lo == 0 ? 1 : lo;
		C.hi     = hi == 0 ? 0xffffffffu : hi;
		C.random = flags != 0;
		C.vctr   = 0x100000;
		C.v0     = vf_violations();
		// explicit keys collide modulo the table size
		static const uint64_t strides[] = { 1, 8, 16, 32, 64, 1024 };
		uint64_t stride = strides[vf_below(&r, 6)];
		int      nk     = (int) vf_range(&r, 4, 48);
		uint64_t kbase  = vf_chance(&r, 1, 2) ? C.lo : (vf_chance(&r, 1, 2) ? 0 : C.hi + 1 + vf_below(&r, 64));
		bool explicit_keys = vf_chance(&r, 2, 3);
		int  nsteps        = (int) vf_range(&r, 200, 3000);
		int  bias          = (int) vf_below(&r, 3); // 0 balanced, 1 growing, 2 churn at full
		snprintf(C.desc, sizeof(C.desc), "lo=%llu hi=%llu%s stride=%llu kbase=%llu nk=%d explicit=%d bias=%d", (unsigned long long) lo, (unsigned long long) hi, flags ? " random" : "", (unsigned long long) stride, (unsigned long long) kbase, nk, explicit_keys, bias);
		vf_case_begin(c, "idmap %s%s steps=%d", C.desc, flags && unprimed ? " (unprimed: start value not replayable)" : "", nsteps);
		if (flags && !unprimed) {
			for (uint64_t j = 0; j <= w + 1 && !mdead(&C); j++) {
				op_alloc(&C);
				if (C.d.n != 1) {
					break;
				}
				uint64_t id = C.d.key[0];
				op_remove(&C, id);
				if (id == C.hi) {
					break;
				}
			}
			vf_stat("idmap_primed", 1);
		}
		int  visits = 0, rvisits = 0;
		bool mid_rvisit = vf_chance(&r, 1, 4), end_rvisit = vf_chance(&r, 1, 2);
		for (int i = 0; i < nsteps && !mdead(&C); i++) {
			uint32_t x = vf_below(&r, 100);
			if (C.d.n > DMAX - 8) {
				x = 50; // remove
			}
			uint32_t p_alloc = bias == 1 ? 45 : bias == 2 ? 38 : 32;
			if (x < p_alloc) {
				op_alloc(&C);
			} else if (x < p_alloc + 28) {
				if (C.d.n > 0 && !vf_chance(&r, 1, 12)) {
					// ids issued by alloc are removed most often
					op_remove(&C, C.d.key[vf_below(&r, (uint32_t) C.d.n)]);
				} else {
					op_remove(&C, pick_key(&C, &r, kbase, stride, nk));
				}
			} else if (x < p_alloc + 40) {
				if (explicit_keys) {
					op_set(&C, pick_key(&C, &r, kbase, stride, nk));
				} else if (C.d.n > 0) {
					op_set(&C, C.d.key[vf_below(&r, (uint32_t) C.d.n)]); // replace
				}
			} else if (x < 96) {
				op_get(&C, pick_key(&C, &r, kbase, stride, nk));
			} else if (x < 98) {
				op_visit(&C, &r, false);
				visits++;
			} else if (x < 99) {
				if (mid_rvisit) {
					op_visit(&C, &r, true);
					rvisits++;
				}
			} else {
				// drain or fill bursts
				if (vf_chance(&r, 1, 2)) {
					while (C.d.n > 0 && !mdead(&C)) {
						op_remove(&C, C.d.key[C.d.n - 1]);
					}
				} else {
					for (int j = 0; j < 40 && !mdead(&C); j++) {
						op_alloc(&C);
					}
				}
			}
			total_steps++;
		}
		if (!mdead(&C)) {
			// final agreement: every key, and a full iteration
			for (int i = 0; i < C.d.n && !mdead(&C); i++) {
				op_get(&C, C.d.key[i]);
			}
			op_visit(&C, &r, false);
			if (end_rvisit && !mdead(&C)) {
				// the canonical drain loop: remove while iterating
				op_visit(&C, &r, true);
				rvisits++;
			}
		}
		if (!mdead(&C)) {
			vf_class("idmap/w%s/%s/stride%llu/%s%s%s", w == 0 ? "full" : w <= 16 ? "tiny" : "mid", flags ? "random" : "seq", (unsigned long long) (explicit_keys ? stride : 0), C.wraps ? "wrapped" : "nowrap", C.full_refusals ? "/filled" : "", rvisits ? "/rvisit" : "");
			// the share of histories in which a refusal was excused (more keys
			// stored than the range is wide, some of them outside it) and of those
			// in which every refusal was judged, per shape
			if (C.full_refusals + C.spurious_refusals > 0) {
				vf_class("idmap/refusals/w%s/stride%llu/%s", w == 0 ? "full" : w <= 16 ? "tiny" : "mid", (unsigned long long) (explicit_keys ? stride : 0),
				    C.spurious_refusals == 0 ? "all-judged" : C.full_refusals == 0 ? "all-excused" : "judged-and-excused");
				vf_stat(C.spurious_refusals == 0 ? "idmap_cases_refusals_all_judged" : "idmap_cases_with_excused_refusals", 1);
			}
		}
		vf_stat("idmap_allocs", C.allocs);
		vf_stat("idmap_wraps", C.wraps);
		vf_stat("idmap_full_refusals", C.full_refusals);
		vf_stat("idmap_refused_with_free_ids_outside_keys", C.spurious_refusals);
		vf_stat("idmap_visits", visits + rvisits);
		if ((c % 53) == 0) {
			vf_sample("{\"idmap\":\"%s\",\"steps\":%d,\"allocs\":%ld,\"wraps\":%ld,\"live_at_end\":%d}", C.desc, nsteps, C.allocs, C.wraps, C.d.n);
		}
		if (!C.dead) {
			nng_id_map_free(C.m);
		} else {
			abandoned++;
		}
		vf_stat("cases", 1);
		if ((c & 0x3f) == 0) {
			vf_watchdog(120);
		}
	}
	vf_stat("idmap_steps", total_steps);
}

// ==================================================================
// object id storms
// ==================================================================
#define HBITS 20
typedef struct {
	uint32_t        slot[1u << HBITS];
	long            n;
	pthread_mutex_t mtx;
	const char     *what;
} idset;

static idset ids_sock = { .mtx = PTHREAD_MUTEX_INITIALIZER, .what = "socket" };
static idset ids_ctx  = { .mtx = PTHREAD_MUTEX_INITIALIZER, .what = "context" };
static idset ids_dial = { .mtx = PTHREAD_MUTEX_INITIALIZER, .what = "dialer" };
static idset ids_lstn = { .mtx = PTHREAD_MUTEX_INITIALIZER, .what = "listener" };
static idset ids_pipe = { .mtx = PTHREAD_MUTEX_INITIALIZER, .what = "pipe" };
static idset ids_req  = { .mtx = PTHREAD_MUTEX_INITIALIZER, .what = "request" };
static idset ids_surv = { .mtx = PTHREAD_MUTEX_INITIALIZER, .what = "survey" };

// record an id issued by the library; judges range and re-issue
static void
id_issue(idset *s, int64_t id, int64_t lo, int64_t hi)
{
	char key[96];
	if (id < lo || id > hi) {
		snprintf(key, sizeof(key), "C18/ids/out-of-range/%s", s->what);
		vf_violation(key, "%s id %lld outside [%lld,%lld]", s->what, (long long) id, (long long) lo, (long long) hi);
		return;
	}
	uint32_t v = (uint32_t) id; // all object ids are 32-bit, non-zero
	uint32_t h = (uint32_t) (vf_mix64(v) >> (64 - HBITS));
	pthread_mutex_lock(&s->mtx);
	for (;;) {
		if (s->slot[h] == 0) {
			s->slot[h] = v;
			s->n++;
			break;
		}
		if (s->slot[h] == v) {
			pthread_mutex_unlock(&s->mtx);
			snprintf(key, sizeof(key), "C18/ids/reissued/%s", s->what);
			vf_violation(key, "%s id %lld issued a second time (%ld ids issued so far, far from wrapping)", s->what, (long long) id, s->n);
			return;
		}
		h = (h + 1) & ((1u << HBITS) - 1);
	}
	pthread_mutex_unlock(&s->mtx);
	if (s->n > (1 << (HBITS - 1))) {
		vf_harness_fail("id set too small");
	}
}

// live pipes (ADD_POST .. REM_POST)
#define LIVEP 4096
static uint32_t        live_pipes[LIVEP];
static int             n_live_pipes;
static pthread_mutex_t live_mtx = PTHREAD_MUTEX_INITIALIZER;
static _Atomic long    pipe_adds, pipe_rems;

static void
storm_pipe_cb(nng_pipe p, nng_pipe_ev ev, void *arg)
{
	int id = nng_pipe_id(p);
	(void) arg;
	if (ev == NNG_PIPE_EV_ADD_POST) {
		atomic_fetch_add(&pipe_adds, 1);
		id_issue(&ids_pipe, id, 1, 0x7fffffff);
		pthread_mutex_lock(&live_mtx);
		for (int i = 0; i < n_live_pipes; i++) {
			if (live_pipes[i] == (uint32_t) id) {
				pthread_mutex_unlock(&live_mtx);
				vf_violation("C18/ids/duplicate-live/pipe", "pipe id %d attached while a pipe with the same id is attached", id);
				return;
			}
		}
		if (n_live_pipes < LIVEP) {
			live_pipes[n_live_pipes++] = (uint32_t) id;
		}
		pthread_mutex_unlock(&live_mtx);
	} else if (ev == NNG_PIPE_EV_REM_POST) {
		atomic_fetch_add(&pipe_rems, 1);
		pthread_mutex_lock(&live_mtx);
		for (int i = 0; i < n_live_pipes; i++) {
			if (live_pipes[i] == (uint32_t) id) {
				live_pipes[i] = live_pipes[--n_live_pipes];
				break;
			}
		}
		pthread_mutex_unlock(&live_mtx);
	}
}

#define MAXS 12
#define MAXE 24
typedef struct {
	nng_socket s;
	int        proto;
	bool       raw;
	bool       live;
} ssock;
typedef struct {
	bool live;
	int  owner; // socket slot
	union {
		nng_ctx      c;
		nng_dialer   d;
		nng_listener l;
	} u;
	char url[64];
	int  proto;
} sent;

static ssock socks[MAXS];
static sent  ctxs[MAXE], dials[MAXE], lstns[MAXE];

static int
live_ids_unique(void)
{
	// all live objects of one class carry distinct ids
	int bad = 0;
	for (int i = 0; i < MAXS; i++) {
		for (int j = i + 1; j < MAXS; j++) {
			if (socks[i].live && socks[j].live && nng_socket_id(socks[i].s) == nng_socket_id(socks[j].s)) {
				vf_violation("C18/ids/duplicate-live/socket", "two open sockets share id %d", nng_socket_id(socks[i].s));
				bad++;
			}
		}
	}
	for (int i = 0; i < MAXE; i++) {
		for (int j = i + 1; j < MAXE; j++) {
			if (ctxs[i].live && ctxs[j].live && nng_ctx_id(ctxs[i].u.c) == nng_ctx_id(ctxs[j].u.c)) {
				vf_violation("C18/ids/duplicate-live/context", "two open contexts share id %d", nng_ctx_id(ctxs[i].u.c));
				bad++;
			}
			if (dials[i].live && dials[j].live && nng_dialer_id(dials[i].u.d) == nng_dialer_id(dials[j].u.d)) {
				vf_violation("C18/ids/duplicate-live/dialer", "two dialers share id %d", nng_dialer_id(dials[i].u.d));
				bad++;
			}
			if (lstns[i].live && lstns[j].live && nng_listener_id(lstns[i].u.l) == nng_listener_id(lstns[j].u.l)) {
				vf_violation("C18/ids/duplicate-live/listener", "two listeners share id %d", nng_listener_id(lstns[i].u.l));
				bad++;
			}
		}
	}
	return bad;
}

static void
storm_close_sock(int i)
{
	nng_socket_close(socks[i].s);
	socks[i].live = false;
	for (int j = 0; j < MAXE; j++) {
		if (ctxs[j].live && ctxs[j].owner == i) {
			ctxs[j].live = false;
		}
		if (dials[j].live && dials[j].owner == i) {
			dials[j].live = false;
		}
		if (lstns[j].live && lstns[j].owner == i) {
			lstns[j].live = false;
		}
	}
	vf_stat("storm_socket_closes", 1);
}

static int
free_slot(sent *a)
{
	for (int i = 0; i < MAXE; i++) {
		if (!a[i].live) {
			return i;
		}
	}
	return -1;
}

// a second thread opens and closes sockets and contexts while the storm
// runs: ids come from the same maps under the library's own locking
static _Atomic int  side_stop;
static _Atomic long side_ids;

static void *
side_thread(void *arg)
{
	(void) arg;
	int rounds = 0;
	while (!atomic_load(&side_stop)) {
		nng_socket s;
		if (++rounds > 150) {
			vf_usleep(200); // enough ids for one case
			continue;
		}
		nng_ctx    c[3];
		if (nng_req0_open(&s) != 0) {
			continue;
		}
		id_issue(&ids_sock, nng_socket_id(s), 1, 0x7fffffff);
		atomic_fetch_add(&side_ids, 1);
		for (int i = 0; i < 3; i++) {
			if (nng_ctx_open(&c[i], s) == 0) {
				id_issue(&ids_ctx, nng_ctx_id(c[i]), 1, 0x7fffffff);
				atomic_fetch_add(&side_ids, 1);
			}
		}
		if (nng_ctx_id(c[0]) == nng_ctx_id(c[1]) || nng_ctx_id(c[1]) == nng_ctx_id(c[2]) || nng_ctx_id(c[0]) == nng_ctx_id(c[2])) {
			vf_violation("C18/ids/duplicate-live/context", "two open contexts share an id (concurrent opens)");
		}
		nng_socket_close(s);
	}
	return NULL;
}

static void
storm_case(long idx, vf_rng *r)
{
	int       nops = (int) vf_range(r, 150, 400);
	pthread_t side;
	bool      have_side = (idx & 1) == 0;
	vf_case_begin(idx, "id storm ops=%d%s", nops, have_side ? " + concurrent opener" : "");
	atomic_store(&side_stop, 0);
	if (have_side && pthread_create(&side, NULL, side_thread, NULL) != 0) {
		vf_harness_fail("pthread_create");
	}
	for (int op = 0; op < nops; op++) {
		uint32_t x = vf_below(r, 100);
		int      si = (int) vf_below(r, MAXS);
		if (x < 22) {
			if (socks[si].live) {
				storm_close_sock(si);
			}
			const vf_proto *p   = &vf_protos[vf_below(r, (uint32_t) vf_nprotos)];
			bool            raw = vf_chance(r, 1, 4);
			int             rv  = raw ? p->open_raw(&socks[si].s) : p->open(&socks[si].s);
			if (rv != 0) {
				vf_harness_fail("open %s: %s", p->name, nng_strerror(rv));
			}
			socks[si].live  = true;
			socks[si].raw   = raw;
			socks[si].proto = (int) (p - vf_protos);
			id_issue(&ids_sock, nng_socket_id(socks[si].s), 1, 0x7fffffff);
			nng_pipe_notify(socks[si].s, NNG_PIPE_EV_ADD_POST, storm_pipe_cb, NULL);
			nng_pipe_notify(socks[si].s, NNG_PIPE_EV_REM_POST, storm_pipe_cb, NULL);
			nng_socket_set_ms(socks[si].s, NNG_OPT_RECONNMINT, 1);
			nng_socket_set_ms(socks[si].s, NNG_OPT_RECONNMAXT, 5);
			vf_stat("storm_socket_opens", 1);
			vf_class("ids/socket/%s%s", p->name, raw ? "-raw" : "");
		} else if (x < 30) {
			if (socks[si].live) {
				storm_close_sock(si);
			}
		} else if (x < 48) {
			int j = free_slot(ctxs);
			if (socks[si].live && j >= 0) {
				int rv = nng_ctx_open(&ctxs[j].u.c, socks[si].s);
				if (rv == 0) {
					ctxs[j].live  = true;
					ctxs[j].owner = si;
					id_issue(&ids_ctx, nng_ctx_id(ctxs[j].u.c), 1, 0x7fffffff);
					vf_stat("storm_ctx_opens", 1);
					vf_class("ids/ctx/%s", vf_protos[socks[si].proto].name);
				} else if (rv != NNG_ENOTSUP) {
					vf_harness_fail("ctx open: %s", nng_strerror(rv));
				}
			}
		} else if (x < 58) {
			int j = (int) vf_below(r, MAXE);
			if (ctxs[j].live) {
				nng_ctx_close(ctxs[j].u.c);
				ctxs[j].live = false;
			}
		} else if (x < 70) {
			int j = free_slot(lstns);
			if (socks[si].live && j >= 0) {
				vf_url(VF_T_INPROC, lstns[j].url, sizeof(lstns[j].url));
				int rv = nng_listener_create(&lstns[j].u.l, socks[si].s, lstns[j].url);
				if (rv != 0) {
					vf_harness_fail("listener create: %s", nng_strerror(rv));
				}
				id_issue(&ids_lstn, nng_listener_id(lstns[j].u.l), 1, 0x7fffffff);
				if ((rv = nng_listener_start(lstns[j].u.l, 0)) != 0) {
					vf_harness_fail("listener start: %s", nng_strerror(rv));
				}
				lstns[j].live  = true;
				lstns[j].owner = si;
				lstns[j].proto = socks[si].proto;
				vf_stat("storm_listeners", 1);
			}
		} else if (x < 86) {
			int j = free_slot(dials);
			if (socks[si].live && j >= 0) {
				// a listener whose socket speaks the peer protocol
				const vf_proto *me = &vf_protos[socks[si].proto];
				int             l  = -1;
				int             st = (int) vf_below(r, MAXE);
				for (int k = 0; k < MAXE; k++) {
					int q = (st + k) % MAXE;
					if (lstns[q].live && vf_protos[lstns[q].proto].self == me->peer && lstns[q].owner != si) {
						l = q;
						break;
					}
				}
				const char *url = l >= 0 ? lstns[l].url : "inproc://vf-c18-nobody";
				int         rv  = nng_dialer_create(&dials[j].u.d, socks[si].s, url);
				if (rv != 0) {
					vf_harness_fail("dialer create: %s", nng_strerror(rv));
				}
				id_issue(&ids_dial, nng_dialer_id(dials[j].u.d), 1, 0x7fffffff);
				(void) nng_dialer_start(dials[j].u.d, NNG_FLAG_NONBLOCK);
				dials[j].live  = true;
				dials[j].owner = si;
				vf_stat("storm_dialers", 1);
			}
		} else if (x < 93) {
			int j = (int) vf_below(r, MAXE);
			if (vf_chance(r, 1, 2)) {
				if (dials[j].live) {
					nng_dialer_close(dials[j].u.d);
					dials[j].live = false;
				}
			} else if (lstns[j].live) {
				nng_listener_close(lstns[j].u.l);
				lstns[j].live = false;
			}
		} else {
			live_ids_unique();
			vf_usleep(200); // let dialers connect
		}
	}
	live_ids_unique();
	if (have_side) {
		atomic_store(&side_stop, 1);
		pthread_join(side, NULL);
	}
	for (int i = 0; i < MAXS; i++) {
		if (socks[i].live) {
			storm_close_sock(i);
		}
	}
	if (!vf_quiesce(1, 20000)) {
		vf_harness_fail("no quiescence after storm");
	}
	vf_stat("cases", 1);
}

// ---- request / survey ids as a raw peer sees them
static uint32_t
be32(const uint8_t *p)
{
	return ((uint32_t) p[0] << 24) | ((uint32_t) p[1] << 16) | ((uint32_t) p[2] << 8) | p[3];
}

#define NCTX 12
static void
wire_case(long idx, vf_rng *r, bool survey)
{
	nng_socket a, b; // a: req / surveyor (cooked, contexts), b: raw rep / respondent
	nng_ctx    ctx[NCTX];
	uint32_t   out_id[NCTX];   // outstanding id per context (0 none)
	uint32_t   out_pipe[NCTX]; // pipe word to route the answer
	idset     *seen = survey ? &ids_surv : &ids_req;
	const char *what = survey ? "survey" : "request";
	int        rounds = (int) vf_range(r, 30, 80);
	int        rv;
	vf_case_begin(idx, "%s ids on the wire, %d rounds", what, rounds);
	if ((rv = survey ? nng_surveyor0_open(&a) : nng_req0_open(&a)) != 0 ||
	    (rv = survey ? nng_respondent0_open_raw(&b) : nng_rep0_open_raw(&b)) != 0) {
		vf_harness_fail("open: %s", nng_strerror(rv));
	}
	nng_socket_set_ms(b, NNG_OPT_RECVTIMEO, 10000);
	nng_socket_set_ms(b, NNG_OPT_SENDTIMEO, 10000);
	nng_socket_set_int(b, NNG_OPT_RECVBUF, 64);
	if ((rv = vf_connect(b, a, VF_T_INPROC)) != 0) {
		vf_harness_fail("connect: %s", nng_strerror(rv));
	}
	for (int i = 0; i < NCTX; i++) {
		if ((rv = nng_ctx_open(&ctx[i], a)) != 0) {
			vf_harness_fail("ctx open: %s", nng_strerror(rv));
		}
		id_issue(&ids_ctx, nng_ctx_id(ctx[i]), 1, 0x7fffffff);
		nng_ctx_set_ms(ctx[i], NNG_OPT_RECVTIMEO, 10000);
		nng_ctx_set_ms(ctx[i], NNG_OPT_SENDTIMEO, 10000);
		if (survey) {
			nng_ctx_set_ms(ctx[i], NNG_OPT_SURVEYOR_SURVEYTIME, 60000);
		}
		out_id[i] = 0;
	}
	for (int round = 0; round < rounds; round++) {
		int      i = (int) vf_below(r, NCTX);
		uint32_t x = vf_below(r, 100);
		if (x < 60) {
			// a new request on context i (abandons its previous one)
			nng_msg *m;
			nng_msg_alloc(&m, 0);
			nng_msg_append_u32(m, (uint32_t) i);
			if ((rv = nng_ctx_sendmsg(ctx[i], m, 0)) != 0) {
				nng_msg_free(m);
				vf_harness_fail("ctx send: %s", nng_strerror(rv));
			}
			out_id[i] = 0;
			nng_msg *q = NULL;
			if ((rv = nng_recvmsg(b, &q, 0)) != 0) {
				vf_harness_fail("raw peer did not receive the %s: %s", what, nng_strerror(rv));
			}
			size_t hl = nng_msg_header_len(q);
			if (hl != 8 || nng_msg_len(q) != 4) {
				vf_harness_fail("unexpected raw header length %zu body %zu", hl, nng_msg_len(q));
			}
			const uint8_t *h   = nng_msg_header(q);
			uint32_t       pw  = be32(h), id = be32(h + 4);
			int            who = (int) be32(nng_msg_body(q));
			nng_msg_free(q);
			vf_stat("wire_ids", 1);
			if (!(id & 0x80000000u)) {
				char key[64];
				snprintf(key, sizeof(key), "C18/ids/out-of-range/%s", what);
				vf_violation(key, "%s id %08x on the wire has the high bit clear", what, id);
			}
			for (int k = 0; k < NCTX; k++) {
				if (out_id[k] == id) {
					char key[64];
					snprintf(key, sizeof(key), "C18/ids/duplicate-live/%s", what);
					vf_violation(key, "%s id %08x issued while still outstanding on another context", what, id);
				}
			}
			id_issue(seen, (int64_t) id, 0x80000000LL, 0xffffffffLL);
			if (who != i) {
				vf_harness_fail("raw peer received the request of context %d, expected %d", who, i);
			}
			out_id[i]   = id;
			out_pipe[i] = pw;
		} else if (x < 90) {
			// answer an outstanding one: it completes and frees its id
			if (out_id[i] != 0) {
				nng_msg *m;
				nng_msg_alloc(&m, 0);
				nng_msg_header_append_u32(m, out_pipe[i]);
				nng_msg_header_append_u32(m, out_id[i]);
				nng_msg_append_u32(m, out_id[i]);
				if ((rv = nng_sendmsg(b, m, 0)) != 0) {
					nng_msg_free(m);
					vf_harness_fail("raw reply send: %s", nng_strerror(rv));
				}
				nng_msg *q = NULL;
				if ((rv = nng_ctx_recvmsg(ctx[i], &q, 0)) != 0) {
					char key[64];
					snprintf(key, sizeof(key), "C18/ids/lookup/%s", what);
					vf_violation(key, "reply carrying %s id %08x was not delivered to its context: %s", what, out_id[i], nng_strerror(rv));
				} else {
					if (nng_msg_len(q) != 4 || be32(nng_msg_body(q)) != out_id[i]) {
						char key[64];
						snprintf(key, sizeof(key), "C18/ids/lookup/%s", what);
						vf_violation(key, "context received the reply of another %s", what);
					}
					nng_msg_free(q);
					vf_stat("wire_replies", 1);
				}
				if (!survey) {
					out_id[i] = 0;
				}
			}
		} else {
			// close and reopen the context
			nng_ctx_close(ctx[i]);
			out_id[i] = 0;
			if ((rv = nng_ctx_open(&ctx[i], a)) != 0) {
				vf_harness_fail("ctx open: %s", nng_strerror(rv));
			}
			id_issue(&ids_ctx, nng_ctx_id(ctx[i]), 1, 0x7fffffff);
			nng_ctx_set_ms(ctx[i], NNG_OPT_RECVTIMEO, 10000);
			nng_ctx_set_ms(ctx[i], NNG_OPT_SENDTIMEO, 10000);
			if (survey) {
				nng_ctx_set_ms(ctx[i], NNG_OPT_SURVEYOR_SURVEYTIME, 60000);
			}
		}
	}
	vf_class("ids/wire/%s", what);
	nng_socket_close(a);
	nng_socket_close(b);
	vf_stat("cases", 1);
}

static void
run_storm(void)
{
	vf_rng r;
	for (long c = 0; c < vf_cases; c++) {
		if (!vf_want_case(c)) {
			continue;
		}
		vf_rng_seed(&r, vf_seed, (uint64_t) c);
		switch (c % 4) {
		case 0:
		case 1: storm_case(c, &r); break;
		case 2: wire_case(c, &r, false); break;
		default: wire_case(c, &r, true); break;
		}
		vf_watchdog(120);
	}
	vf_stat("ids_sockets", ids_sock.n);
	vf_stat("ids_contexts", ids_ctx.n);
	vf_stat("ids_dialers", ids_dial.n);
	vf_stat("ids_listeners", ids_lstn.n);
	vf_stat("ids_pipes", ids_pipe.n);
	vf_stat("ids_requests", ids_req.n);
	vf_stat("ids_surveys", ids_surv.n);
	vf_stat("pipe_events", atomic_load(&pipe_adds) + atomic_load(&pipe_rems));
	vf_stat("ids_concurrent", atomic_load(&side_ids));
}


// ==================================================================
// wrap mode: the real object-id maps at the end of their range
// ==================================================================
static int
wrap_phdr_cb(struct dl_phdr_info *info, size_t sz, void *data)
{
	(void) sz;
	*(uintptr_t *) data = (uintptr_t) info->dlpi_addr; // first entry: the executable itself
	return 1;
}

// address of the file-local nni_id_map called 'name' in libnng (statically
// linked into this executable), or NULL if the symbol table does not name
// exactly one such object
static nni_id_map *
wrap_find_map(const char *name)
{
	static const uint8_t *img;
	static size_t         imgsz;
	static uintptr_t      bias;
	if (img == NULL) {
		struct stat st;
		int         fd = open("/proc/self/exe", O_RDONLY);
		if (fd < 0 || fstat(fd, &st) != 0) {
			return NULL;
		}
		void *p = mmap(NULL, (size_t) st.st_size, PROT_READ, MAP_PRIVATE, fd, 0);
		close(fd);
		if (p == MAP_FAILED) {
			return NULL;
		}
		img   = p;
		imgsz = (size_t) st.st_size;
		dl_iterate_phdr(wrap_phdr_cb, &bias);
	}
	const Elf64_Ehdr *eh = (const Elf64_Ehdr *) img;
	if (imgsz < sizeof(*eh) || memcmp(eh->e_ident, ELFMAG, SELFMAG) != 0 || eh->e_ident[EI_CLASS] != ELFCLASS64 ||
	    eh->e_shoff == 0 || eh->e_shoff + (uint64_t) eh->e_shnum * sizeof(Elf64_Shdr) > imgsz) {
		return NULL;
	}
	const Elf64_Shdr *sh    = (const Elf64_Shdr *) (img + eh->e_shoff);
	nni_id_map       *found = NULL;
	int               n     = 0;
	for (int i = 0; i < eh->e_shnum; i++) {
		if (sh[i].sh_type != SHT_SYMTAB || sh[i].sh_link >= eh->e_shnum) {
			continue;
		}
		const Elf64_Shdr *str = &sh[sh[i].sh_link];
		if (sh[i].sh_offset + sh[i].sh_size > imgsz || str->sh_offset + str->sh_size > imgsz) {
			continue;
		}
		const Elf64_Sym *sym  = (const Elf64_Sym *) (img + sh[i].sh_offset);
		size_t           nsym = sh[i].sh_size / sizeof(Elf64_Sym);
		const char      *strs = (const char *) (img + str->sh_offset);
		for (size_t j = 0; j < nsym; j++) {
			if (ELF64_ST_TYPE(sym[j].st_info) != STT_OBJECT || ELF64_ST_BIND(sym[j].st_info) != STB_LOCAL ||
			    sym[j].st_size != sizeof(nni_id_map) || sym[j].st_name >= str->sh_size) {
				continue;
			}
			if (strcmp(strs + sym[j].st_name, name) == 0) {
				found = (nni_id_map *) (bias + sym[j].st_value);
				n++;
			}
		}
	}
	return n == 1 ? found : NULL;
}

enum { WK_SOCK = 0, WK_CTX, WK_DIALER, WK_LISTENER, WK_PIPE, WK_N };
static const struct {
	const char *what, *sym;
} wkinds[WK_N] = { { "socket", "sock_ids" }, { "context", "ctx_ids" }, { "dialer", "dialers" }, { "listener", "listeners" }, { "pipe", "pipes" } };

#define WLONG 10
#define WMAXLIVE 64
#define WID_MAX 0x7fffffffLL
typedef struct {
	int       kind;
	int64_t   live[WMAXLIVE];
	int       nlive;
	bool      have_prev;
	int64_t   prev;
	long      wraps, issued;
	bool      dead;
	nng_socket base, base2; // owner of contexts / dialers / listeners; pub side for pipes
	char       url[64];
	// pipe ids as they are attached (ADD_POST on either side)
	pthread_mutex_t mtx;
	int64_t         pend[8];
	int             npend;
	_Atomic int     adds, rems;
} wctx;

static void wviol(wctx *W, const char *clause, const char *fmt, ...) __attribute__((format(printf, 3, 4)));
static void
wviol(wctx *W, const char *clause, const char *fmt, ...)
{
	char    key[96], b[300];
	va_list ap;
	va_start(ap, fmt);
	vsnprintf(b, sizeof(b), fmt, ap);
	va_end(ap);
	snprintf(key, sizeof(key), "C18/ids/%s/%s", clause, wkinds[W->kind].what);
	vf_violation(key, "%s (real map, cursor placed below the end of the range)", b);
	W->dead = true;
}

static bool
wrap_step_ok(wctx *W, int64_t prev, bool have_prev, int64_t id)
{
	if (!have_prev || id > prev) {
		return true;
	}
	// not increasing: only if every id above the previous one is in use
	int64_t above = 0;
	for (int i = 0; i < W->nlive; i++) {
		above += W->live[i] > prev ? 1 : 0;
	}
	return above >= WID_MAX - prev;
}

// ids issued together (the two pipes of one connection get theirs on two
// threads: either order may have been the allocation order)
static void
wrap_issue(wctx *W, const int64_t *ids, int n)
{
	for (int i = 0; i < n && !W->dead; i++) {
		if (ids[i] < 1 || ids[i] > WID_MAX) {
			wviol(W, "out-of-range", "%s id %lld outside [1,%lld]", wkinds[W->kind].what, (long long) ids[i], (long long) WID_MAX);
			return;
		}
		for (int j = 0; j < W->nlive; j++) {
			if (W->live[j] == ids[i]) {
				wviol(W, "duplicate-live", "%s id %lld issued while an open %s has it", wkinds[W->kind].what, (long long) ids[i], wkinds[W->kind].what);
				return;
			}
		}
		if (n == 2 && i == 1 && ids[0] == ids[1]) {
			wviol(W, "duplicate-live", "both pipes of one connection carry id %lld", (long long) ids[0]);
			return;
		}
	}
	bool ok = false;
	int64_t last = ids[n - 1];
	if (n == 1) {
		ok = wrap_step_ok(W, W->prev, W->have_prev, ids[0]);
	} else {
		for (int o = 0; o < 2 && !ok; o++) {
			int64_t a = ids[o], b = ids[1 - o];
			// (b is judged with a counted as in use)
			if (wrap_step_ok(W, W->prev, W->have_prev, a)) {
				W->live[W->nlive++] = a;
				ok = wrap_step_ok(W, a, true, b);
				W->nlive--;
				last = b;
			}
		}
	}
	if (!ok) {
		wviol(W, "reissued-before-wrap", "%s id %lld issued after %lld although ids above %lld were free", wkinds[W->kind].what, (long long) ids[0], (long long) W->prev, (long long) W->prev);
		return;
	}
	if (W->have_prev && last <= W->prev) {
		W->wraps++;
	}
	W->have_prev = true;
	W->prev      = last;
	W->issued += n;
	for (int i = 0; i < n && W->nlive < WMAXLIVE; i++) {
		W->live[W->nlive++] = ids[i];
	}
}

static void
wrap_retire(wctx *W, int64_t id)
{
	for (int i = 0; i < W->nlive; i++) {
		if (W->live[i] == id) {
			W->live[i] = W->live[--W->nlive];
			return;
		}
	}
}

static void
wrap_pipe_cb(nng_pipe p, nng_pipe_ev ev, void *arg)
{
	wctx *W = arg;
	if (ev == NNG_PIPE_EV_ADD_POST) {
		pthread_mutex_lock(&W->mtx);
		if (W->npend < 8) {
			W->pend[W->npend++] = nng_pipe_id(p);
		}
		pthread_mutex_unlock(&W->mtx);
		atomic_fetch_add(&W->adds, 1);
	} else {
		atomic_fetch_add(&W->rems, 1);
	}
}

static void
wrap_wait(_Atomic int *v, int want, const char *what)
{
	uint64_t end = vf_now_ns() + 20000000000ULL;
	while (atomic_load(v) < want) {
		if (vf_now_ns() > end) {
			vf_harness_fail("timeout waiting for %s", what);
		}
		vf_usleep(50);
	}
}

typedef struct {
	bool open;
	union {
		nng_socket   s;
		nng_ctx      c;
		nng_dialer   d;
		nng_listener l;
	} u;
	int64_t id[2];
	int     nid;
} wobj;

static void
wrap_open(wctx *W, wobj *o)
{
	int rv = 0;
	o->nid = 1;
	switch (W->kind) {
	case WK_SOCK:
		rv       = nng_pair0_open(&o->u.s);
		o->id[0] = rv == 0 ? nng_socket_id(o->u.s) : 0;
		break;
	case WK_CTX:
		rv       = nng_ctx_open(&o->u.c, W->base);
		o->id[0] = rv == 0 ? nng_ctx_id(o->u.c) : 0;
		break;
	case WK_DIALER:
		rv       = nng_dialer_create(&o->u.d, W->base, "inproc://vf-c18-wrap-nobody");
		o->id[0] = rv == 0 ? nng_dialer_id(o->u.d) : 0;
		break;
	case WK_LISTENER: {
		char url[64];
		vf_url(VF_T_INPROC, url, sizeof(url));
		rv       = nng_listener_create(&o->u.l, W->base, url);
		o->id[0] = rv == 0 ? nng_listener_id(o->u.l) : 0;
		break;
	}
	default: {
		// one more subscriber: a pipe on either side
		int adds = atomic_load(&W->adds);
		if ((rv = nng_sub0_open(&o->u.s)) != 0) {
			break;
		}
		nng_pipe_notify(o->u.s, NNG_PIPE_EV_ADD_POST, wrap_pipe_cb, W);
		nng_pipe_notify(o->u.s, NNG_PIPE_EV_REM_POST, wrap_pipe_cb, W);
		if ((rv = nng_dial(o->u.s, W->url, NULL, 0)) != 0) {
			break;
		}
		wrap_wait(&W->adds, adds + 2, "both pipes of a connection");
		pthread_mutex_lock(&W->mtx);
		if (W->npend != 2) {
			vf_harness_fail("%d pipes attached for one connection", W->npend);
		}
		o->id[0] = W->pend[0];
		o->id[1] = W->pend[1];
		o->nid   = 2;
		W->npend = 0;
		pthread_mutex_unlock(&W->mtx);
		break;
	}
	}
	if (rv != 0) {
		vf_harness_fail("wrap: cannot open a %s: %s", wkinds[W->kind].what, nng_strerror(rv));
	}
	o->open = true;
	wrap_issue(W, o->id, o->nid);
}

static void
wrap_close(wctx *W, wobj *o)
{
	if (!o->open) {
		return;
	}
	switch (W->kind) {
	case WK_SOCK: nng_socket_close(o->u.s); break;
	case WK_CTX: nng_ctx_close(o->u.c); break;
	case WK_DIALER: nng_dialer_close(o->u.d); break;
	case WK_LISTENER: nng_listener_close(o->u.l); break;
	default: {
		int rems = atomic_load(&W->rems);
		nng_socket_close(o->u.s);
		wrap_wait(&W->rems, rems + 2, "removal of both pipes");
		break;
	}
	}
	o->open = false;
	for (int i = 0; i < o->nid; i++) {
		wrap_retire(W, o->id[i]);
	}
}

static void
wrap_case(long idx, int kind, vf_rng *r)
{
	static wctx Ws;
	wctx       *W = &Ws;
	wobj        keep[WLONG], ring[3];
	int         rv;
	memset(W, 0, sizeof(*W));
	memset(keep, 0, sizeof(keep));
	memset(ring, 0, sizeof(ring));
	pthread_mutex_init(&W->mtx, NULL);
	W->kind = kind;
	vf_case_begin(idx, "real %s id map across the end of its range", wkinds[kind].what);
	nni_id_map *m = wrap_find_map(wkinds[kind].sym);
	if (m == NULL) {
		vf_stat("ids_real_map_not_found", 1);
		vf_stat("cases", 1);
		return;
	}
	if (kind == WK_CTX || kind == WK_DIALER || kind == WK_LISTENER) {
		if ((rv = nng_req0_open(&W->base)) != 0) {
			vf_harness_fail("open: %s", nng_strerror(rv));
		}
	} else if (kind == WK_PIPE) {
		if ((rv = nng_pub0_open(&W->base)) != 0) {
			vf_harness_fail("open: %s", nng_strerror(rv));
		}
		nng_pipe_notify(W->base, NNG_PIPE_EV_ADD_POST, wrap_pipe_cb, W);
		nng_pipe_notify(W->base, NNG_PIPE_EV_REM_POST, wrap_pipe_cb, W);
		vf_url(VF_T_INPROC, W->url, sizeof(W->url));
		if ((rv = nng_listen(W->base, W->url, NULL, 0)) != 0) {
			vf_harness_fail("listen: %s", nng_strerror(rv));
		}
	}
	// is it really the map the ids come from?  (a probe object must be in it)
	wobj probe;
	memset(&probe, 0, sizeof(probe));
	wrap_open(W, &probe);
	if (!vf_quiesce(0, 20000)) {
		vf_harness_fail("no quiescence");
	}
	bool mine = nni_id_get(m, (uint64_t) probe.id[0]) != NULL && nni_id_count(m) >= 1;
	wrap_close(W, &probe);
	if (!vf_quiesce(0, 20000)) {
		vf_harness_fail("no quiescence");
	}
	if (!mine || W->dead) {
		vf_stat("ids_real_map_not_found", 1);
		vf_stat("cases", 1);
		return;
	}
	// long-lived objects take the lowest ids
	m->id_dyn_val = 1;
	W->have_prev  = false;
	for (int i = 0; i < WLONG && !W->dead; i++) {
		wrap_open(W, &keep[i]);
	}
	if (!vf_quiesce(0, 20000)) {
		vf_harness_fail("no quiescence");
	}
	// the cursor goes to just below the end of the range
	int64_t start = WID_MAX - 6 - (int64_t) vf_below(r, 20);
	m->id_dyn_val = (uint64_t) start;
	W->have_prev  = false;
	W->wraps      = 0;
	int rounds    = kind == WK_PIPE ? 60 : 200;
	for (int i = 0; i < rounds && !W->dead; i++) {
		wobj *o = &ring[i % 3];
		wrap_close(W, o);
		wrap_open(W, o);
		if (i == 0 && !W->dead && o->id[0] != start && (o->nid < 2 || o->id[1] != start)) {
			// the cursor did not take: not the map, or it is not a cursor
			vf_stat("ids_real_map_not_found", 1);
			W->dead = true;
			break;
		}
	}
	if (!W->dead) {
		char key[64];
		if (W->wraps != 1) {
			vf_harness_fail("wrap: %ld wraps of the %s ids", W->wraps, wkinds[kind].what);
		}
		snprintf(key, sizeof(key), "ids_real_wraps_%s", wkinds[kind].what);
		vf_stat(key, W->wraps);
		vf_stat("ids_real_issued", W->issued);
		vf_class("ids/real-wrap/%s", wkinds[kind].what);
		vf_sample("{\"real_map\":\"%s\",\"cursor_placed_at\":%lld,\"issued\":%ld,\"last\":%lld,\"long_lived\":%d}", wkinds[kind].sym, (long long) start, W->issued, (long long) W->prev, WLONG);
	}
	for (int i = 0; i < 3; i++) {
		wrap_close(W, &ring[i]);
	}
	for (int i = 0; i < WLONG; i++) {
		wrap_close(W, &keep[i]);
	}
	if (kind != WK_SOCK) {
		nng_socket_close(W->base);
	}
	if (!vf_quiesce(1, 20000)) {
		vf_harness_fail("no quiescence");
	}
	vf_stat("cases", 1);
}

static void
run_wrap(void)
{
	vf_rng r;
	for (long c = 0; c < vf_cases; c++) {
		if (!vf_want_case(c)) {
			continue;
		}
		vf_rng_seed(&r, vf_seed, (uint64_t) c);
		wrap_case(c, (int) (c % WK_N), &r);
		vf_watchdog(120);
	}
}

int
main(int argc, char **argv)
{
	vf_init(argc, argv);
	vf_nng_init(4, 1, 1);
	if (!strcmp(vf_mode, "map")) {
		run_map();
	} else if (!strcmp(vf_mode, "storm")) {
		run_storm();
	} else if (!strcmp(vf_mode, "wrap")) {
		run_wrap();
	} else {
		vf_harness_fail("unknown mode '%s'", vf_mode);
	}
	vf_stat("abandoned_after_violation", abandoned);
	if (abandoned) {
		// maps abandoned after a violation are leaked on purpose
		int rc = vf_finish();
		fflush(NULL);
		_exit(rc);
	}
	vf_nng_fini("C18");
	return vf_finish();
}
