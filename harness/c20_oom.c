// C20 - a failed allocation yields a clean error, never a crash, hang or leak.
//
// Fault enumeration over the public allocator seam (nng_init_params
// malloc_fn/calloc_fn/free_fn).  Every case runs in its own forked child
// (fork happens BEFORE nng_init; the worker process itself never initialises
// nng): the child arms exactly one allocation failure, runs one API program,
// closes everything, calls nng_fini, checks the allocator balance and then a
// plain follow-up scenario.  The parent classifies the outcome from the
// child's exit status, a shared result record and the captured stderr.
//
// The enumeration is over ALLOCATION SITES (6 return addresses above the
// allocator entry): a profiling pass runs each program a few times and
// collects sites + counts, then every site is failed at its j-th occurrence,
// j in {1, 2, last, one random}.  Single-threaded programs are also
// enumerated by plain k-th allocation.
//
// The allocator here is local to this harness (not vfh's) because the key of
// a violation must name the allocation site function, including static
// functions: sites are recorded as raw return addresses and symbolised in
// the parent from the executable's own .symtab.
//
// Violation keys: C20/<alloc-site function>/<failure kind>[@<where>], never an
// address, counter or seed.  <where> (innermost library function) is part of
// the key only when it is deterministic: a crash in the thread that runs the
// program, the site of a leaked block.  For crashes in library threads and
// for hangs it depends on the schedule and is given in the detail text and
// in the evidence classes instead.
//
// Second audit (r2) additions: nng_init in a second shape (several threads
// per array), the k-th thread creation failed in the programs that create
// threads while armed (mode M_THR, a pthread_create defined here), the set
// of open descriptors compared before nng_init / after nng_fini (fd-leak@..,
// fd-closed-foreign), NNG_ENOMEM from any call of pass 2 (enomem-again:
// pass2:..), a "wedged" verdict re-run with doubled bounds before it is
// believed, programs whose failure fires past the first round (opts-live-*,
// burst-*, tran-ws-frames, http-server-*keepalive; stat
// fired_after_first_round, classes late|<program>), bodies / Location of
// the HTTP answers.
//
// Manual reproduction of one finding (prints VIOL lines):
//   C20_PROG=<program> C20_SITE=<substring of the site chain> [C20_J=<j>] \
//       .build/asan/h/c20_oom -v
// e.g. C20_PROG=tran-inproc C20_SITE=nni_dialer_init; or `./vf replay <json>`.
// `--mode profile` lists every program's sites without failing anything.
#include "vfh.h"

#include <nng/http.h>

#include <dirent.h>
#include <dlfcn.h>
#include <elf.h>
#include <errno.h>
#include <execinfo.h>
#include <fcntl.h>
#include <link.h>
#include <poll.h>
#include <pthread.h>
#include <signal.h>
#include <stdatomic.h>
#include <arpa/inet.h>
#include <sys/mman.h>
#include <sys/prctl.h>
#include <sys/socket.h>
#include <sys/stat.h>
#include <sys/wait.h>
#include <unistd.h>

// The sanitizer options do not depend on the environment of the caller.
const char *
__asan_default_options(void)
{
	return "abort_on_error=1:handle_abort=0:detect_leaks=0:"
	       "allocator_may_return_null=1:detect_stack_use_after_return=0";
}
const char *
__ubsan_default_options(void)
{
	return "print_stacktrace=1:halt_on_error=1:abort_on_error=1";
}

// ======================================================================
// symbols of this executable (.symtab, so static functions have names)
// ======================================================================
typedef struct {
	uint64_t    addr, size;
	const char *name;
	bool        lib; // belongs to libnng (not harness / crt)
} c20_sym;
static c20_sym  *g_syms;
static int       g_nsyms;
static uintptr_t g_bias;

static int
bias_cb(struct dl_phdr_info *i, size_t sz, void *d)
{
	(void) sz;
	*(uintptr_t *) d = (uintptr_t) i->dlpi_addr;
	return 1; // first entry is the main program
}

static int
sym_cmp(const void *a, const void *b)
{
	const c20_sym *x = a, *y = b;
	return x->addr < y->addr ? -1 : x->addr > y->addr ? 1 : 0;
}

static void
sym_load(void)
{
	struct stat st;
	dl_iterate_phdr(bias_cb, &g_bias);
	int fd = open("/proc/self/exe", O_RDONLY);
	if (fd < 0 || fstat(fd, &st) != 0) {
		vf_harness_fail("cannot open /proc/self/exe");
	}
	uint8_t *base = mmap(NULL, (size_t) st.st_size, PROT_READ, MAP_PRIVATE, fd, 0);
	close(fd);
	if (base == MAP_FAILED) {
		vf_harness_fail("cannot map /proc/self/exe");
	}
	Elf64_Ehdr *eh = (Elf64_Ehdr *) base;
	Elf64_Shdr *sh = (Elf64_Shdr *) (base + eh->e_shoff);
	for (int i = 0; i < eh->e_shnum; i++) {
		if (sh[i].sh_type != SHT_SYMTAB) {
			continue;
		}
		Elf64_Sym  *s   = (Elf64_Sym *) (base + sh[i].sh_offset);
		size_t      n   = sh[i].sh_size / sizeof(Elf64_Sym);
		const char *str = (const char *) (base + sh[sh[i].sh_link].sh_offset);
		g_syms          = calloc(n + 1, sizeof(c20_sym));
		// local symbols follow the STT_FILE entry of their translation unit
		bool file_is_lib = false;
		for (size_t k = 0; k < n; k++) {
			const char *nm = str + s[k].st_name;
			if (ELF64_ST_TYPE(s[k].st_info) == STT_FILE) {
				file_is_lib = strcmp(nm, "c20_oom.c") != 0 && strcmp(nm, "vfh.c") != 0 &&
				    strncmp(nm, "crt", 3) != 0 && nm[0] != 0;
				continue;
			}
			if (ELF64_ST_TYPE(s[k].st_info) != STT_FUNC || s[k].st_shndx == 0) {
				continue;
			}
			g_syms[g_nsyms].addr = s[k].st_value;
			g_syms[g_nsyms].size = s[k].st_size;
			g_syms[g_nsyms].name = nm;
			if (ELF64_ST_BIND(s[k].st_info) == STB_LOCAL) {
				g_syms[g_nsyms].lib = file_is_lib;
			} else {
				g_syms[g_nsyms].lib = !strncmp(nm, "nni_", 4) || !strncmp(nm, "nng_", 4);
			}
			g_nsyms++;
		}
	}
	if (g_nsyms < 100) {
		vf_harness_fail("executable has no usable .symtab (%d functions)", g_nsyms);
	}
	qsort(g_syms, (size_t) g_nsyms, sizeof(c20_sym), sym_cmp);
}

// off = address - load bias (an ELF vaddr)
static bool g_last_lib;
static bool
sym_name(uint64_t off, char *out, size_t sz)
{
	g_last_lib = false;
	int lo = 0, hi = g_nsyms - 1, best = -1;
	while (lo <= hi) {
		int mid = (lo + hi) / 2;
		if (g_syms[mid].addr <= off) {
			best = mid;
			lo   = mid + 1;
		} else {
			hi = mid - 1;
		}
	}
	if (best < 0 || (g_syms[best].size != 0 && off >= g_syms[best].addr + g_syms[best].size)) {
		snprintf(out, sz, "?");
		return false;
	}
	snprintf(out, sz, "%s", g_syms[best].name);
	g_last_lib = g_syms[best].lib;
	char *dot = strchr(out, '.'); // foo.part.0, foo.isra.0, foo.cold
	if (dot != NULL) {
		*dot = 0;
	}
	return true;
}

static bool
sym_is_lib(uint64_t off)
{
	int lo = 0, hi = g_nsyms - 1, best = -1;
	while (lo <= hi) {
		int mid = (lo + hi) / 2;
		if (g_syms[mid].addr <= off) {
			best = mid;
			lo   = mid + 1;
		} else {
			hi = mid - 1;
		}
	}
	return best >= 0 && (g_syms[best].size == 0 || off < g_syms[best].addr + g_syms[best].size) &&
	    g_syms[best].lib;
}

// ======================================================================
// shared result record (MAP_SHARED, written by the child)
// ======================================================================
#define C20_NF 8 // frames kept per site
#define C20_HF 6 // frames that identify a site
#define C20_MAXSITES 3072

typedef struct {
	uint64_t hash;
	uint64_t fr[C20_NF]; // return addresses - load bias
	int      nf;
	long     count;
} c20_site;

enum { PH_START = 0, PH_INIT, PH_PROG, PH_FINI, PH_LEAK, PH_FOLLOW, PH_DONE };

typedef struct {
	volatile int phase;
	volatile int fired;
	uint64_t     fired_fr[C20_NF];
	int          fired_nf;
	long         fired_seq; // armed allocation count when it fired
	char         cur_call[64];
	int          n_calls;
	int          n_enomem;
	char         enomem_call[64];
	int          n_bad;
	struct {
		char call[64];
		int  rv;
	} bad[8];
	int  n_loss;
	char loss[6][64];
	int  n_note; // free-form violations found by the program (bad data ...)
	char note[4][96];
	int  pass2;      // the program ran its second pass (same objects, no failure armed)
	int  n_wedged;   // steps of the second pass that did not succeed
	char wedged[4][96];
	int  pass1_enomem_calls; // API calls of the first pass that returned NNG_ENOMEM
	char enomem_call2[64];   // the second one: one failed allocation fails one call
	long leak_blocks, leak_bytes;
	long hook_viol; // invariant hooks of the library (nni_verif_fail) that fired in the child
	char hook_key[96];
	int  n_leaks;
	struct {
		size_t   size;
		uint64_t fr[C20_NF];
		int      nf;
	} leaks[8];
	int n_aerr; // allocator protocol errors (size mismatch, bad pointer)
	struct {
		char     what[48];
		uint64_t fr[C20_NF];
		int      nf;
	} aerr[4];
	int      follow_rv;
	char     follow_step[64];
	int      env_skip;         // the machine ran out of ephemeral ports: do not judge
	volatile int stage;        // set by the program: 1 = past its first round / on the timer path
	int      fired_stage;      // value of 'stage' when the failure fired
	int      fired_thr;        // what failed was a thread creation, not an allocation
	long     thr_total;        // thread creations while armed
	int      fd_checked;       // descriptor balance was taken
	int      fd_leaked;        // descriptors open after nng_fini that were not open before nng_init
	int      fd_lost;          // descriptors of the harness that were closed under it
	char     fd_what[64];      // what the first leaked descriptor refers to
	int      p2_enomem;        // API calls of the second pass that returned NNG_ENOMEM (nothing armed)
	char     p2_enomem_call[64];
	int      p2_soft_failures; // attempts of the second pass that had to be repeated
	_Atomic int handler_enomem; // HTTP handler steps that returned NNG_ENOMEM
	int      fired_in_set;     // the failure fired inside an armed option setter (opts-live-*)
	int      same_obj_retry;   // the refused step was repeated on the same object (not a new one)
	char     harness_msg[200]; // non-empty: the child could not do its job
	long     armed_total;
	int      nsites;
	c20_site sites[C20_MAXSITES];
} c20_shrec;

static c20_shrec *sh;

// ======================================================================
// accounting + failpoint allocator (lives in the child)
// ======================================================================
#define BLK_MAGIC 0x4332304c49564521ULL
#define BLK_DEAD 0x4332304445414421ULL
typedef struct c20_blk {
	uint64_t        magic;
	size_t          size;
	struct c20_blk *prev, *next;
	int             site;
	int             pad;
	uint64_t        seq;
} c20_blk; // 48 bytes, keeps 16-byte alignment

enum { M_OFF = 0, M_PROFILE, M_SITE, M_NTH, M_THR };

static pthread_mutex_t al_mtx = PTHREAD_MUTEX_INITIALIZER;
static c20_blk         al_head = { 0, 0, &al_head, &al_head, 0, 0, 0 };
static long            al_live_blocks, al_live_bytes, al_total;
static c20_site        al_sites[C20_MAXSITES];
static int             al_nsites;
static int             al_index[8192];
static int             al_mode;
static volatile int    al_armed;
static uint64_t        al_target;
static long            al_j;
static long            al_armed_total;

static int
site_intern(uint64_t hash, const uint64_t *fr, int nf)
{
	unsigned b = (unsigned) (hash % 8192);
	for (int probe = 0; probe < 8192; probe++) {
		int v = al_index[b];
		if (v == 0) {
			if (al_nsites >= C20_MAXSITES) {
				return 0; // table full: lump together
			}
			c20_site *s = &al_sites[al_nsites];
			s->hash     = hash;
			s->nf       = nf;
			s->count    = 0;
			memcpy(s->fr, fr, sizeof(uint64_t) * (size_t) nf);
			al_index[b] = ++al_nsites;
			return al_nsites - 1;
		}
		if (al_sites[v - 1].hash == hash) {
			return v - 1;
		}
		b = (b + 1) % 8192;
	}
	return 0;
}

// set by a program around calls after which it demands more than "pass 2
// works": only a failure that fired inside such a call, in the thread that
// made it, is judged that way
static volatile int g_in_set;
static pthread_t    g_in_set_thr;

static uintptr_t g_ent_lo[3], g_ent_hi[3]; // c20_malloc, c20_calloc, pthread_create (below)

static void *
c20_alloc(size_t sz, bool zero, void **bt, int n)
{
	uint64_t fr[C20_NF];
	int      nf = 0;
	int      first = 0;
	// skip backtrace()'s own frames (ASan intercepts it) and the entry point
	for (int i = 0; i < n && i < 3; i++) {
		uintptr_t a = (uintptr_t) bt[i];
		if ((a >= g_ent_lo[0] && a < g_ent_hi[0]) || (a >= g_ent_lo[1] && a < g_ent_hi[1])) {
			first = i + 1;
			break;
		}
	}
	for (int i = first; i < n && nf < C20_NF; i++) {
		fr[nf++] = (uint64_t) ((uintptr_t) bt[i] - g_bias);
	}
	// A site is identified by the library frames above the allocator (at
	// most C20_HF) and the first frame outside the library (the program's
	// call site); who called the program does not matter.
	uint64_t h = 1469598103934665603ULL;
	for (int i = 0; i < nf && i < C20_HF; i++) {
		h = (h ^ fr[i]) * 1099511628211ULL;
		h ^= h >> 29;
		if (!sym_is_lib(fr[i] - 1)) {
			nf = i + 1;
			break;
		}
	}
	if (h == 0) {
		h = 1;
	}
	bool fail = false;
	pthread_mutex_lock(&al_mtx);
	int si = site_intern(h, fr, nf);
	if (al_armed) {
		al_sites[si].count++;
		al_armed_total++;
		if (!sh->fired) {
			if (al_mode == M_SITE && h == al_target && al_sites[si].count == al_j) {
				fail = true;
			} else if (al_mode == M_NTH && al_armed_total == al_j) {
				fail = true;
			}
		}
		if (fail) {
			memcpy(sh->fired_fr, fr, sizeof(fr));
			sh->fired_nf  = nf;
			sh->fired_seq = al_armed_total;
			sh->fired_stage = sh->stage;
			sh->fired_in_set = g_in_set && pthread_equal(pthread_self(), g_in_set_thr);
			sh->fired     = 1;
		}
	}
	pthread_mutex_unlock(&al_mtx);
	if (fail) {
		return NULL;
	}
	c20_blk *b = zero ? calloc(1, sizeof(c20_blk) + sz) : malloc(sizeof(c20_blk) + sz);
	if (b == NULL) {
		return NULL;
	}
	b->magic = BLK_MAGIC;
	b->size  = sz;
	b->site  = si;
	pthread_mutex_lock(&al_mtx);
	b->seq             = (uint64_t) ++al_total;
	b->next            = &al_head;
	b->prev            = al_head.prev;
	al_head.prev->next = b;
	al_head.prev       = b;
	al_live_blocks++;
	al_live_bytes += (long) sz;
	pthread_mutex_unlock(&al_mtx);
	return b + 1;
}

static __attribute__((noinline)) void *
c20_malloc(size_t sz)
{
	void *bt[C20_NF + 3];
	int   n = backtrace(bt, C20_NF + 3);
	return c20_alloc(sz, false, bt, n);
}

static __attribute__((noinline)) void *
c20_calloc(size_t n, size_t sz)
{
	void *bt[C20_NF + 3];
	int   nb = backtrace(bt, C20_NF + 3);
	if (sz != 0 && n > SIZE_MAX / sz) {
		return NULL;
	}
	return c20_alloc(n * sz, true, bt, nb);
}

static void
al_error(const char *what, int site)
{
	pthread_mutex_lock(&al_mtx);
	if (sh->n_aerr < 4) {
		int i = sh->n_aerr++;
		snprintf(sh->aerr[i].what, sizeof(sh->aerr[i].what), "%s", what);
		if (site >= 0) {
			sh->aerr[i].nf = al_sites[site].nf;
			memcpy(sh->aerr[i].fr, al_sites[site].fr, sizeof(sh->aerr[i].fr));
		}
	}
	pthread_mutex_unlock(&al_mtx);
}

static void
c20_free(void *p, size_t sz)
{
	if (p == NULL) {
		return;
	}
	c20_blk *b = ((c20_blk *) p) - 1;
	if (b->magic != BLK_MAGIC) {
		// BLK_DEAD is never seen (the block is gone): let ASan describe a
		// double free; anything else is a foreign pointer.
		al_error("free-of-unknown-pointer", -1);
		free(b); // ASan reports use-after-free / bad-free with stacks
		return;
	}
	if (b->size != sz) {
		al_error("free-size-mismatch", b->site);
	}
	pthread_mutex_lock(&al_mtx);
	b->prev->next = b->next;
	b->next->prev = b->prev;
	al_live_blocks--;
	al_live_bytes -= (long) b->size;
	pthread_mutex_unlock(&al_mtx);
	b->magic = BLK_DEAD;
	free(b);
}

static void
arm(void)
{
	pthread_mutex_lock(&al_mtx);
	al_armed = 1;
	pthread_mutex_unlock(&al_mtx);
}

static void
disarm(void)
{
	pthread_mutex_lock(&al_mtx);
	al_armed = 0;
	pthread_mutex_unlock(&al_mtx);
}

// ---------------------------------------------------------------- threads
// Creating a thread is an allocation of the operating system that nng
// reports as NNG_ENOMEM (nni_plat_thr_init).  This definition takes
// precedence over the one in libasan / libc for calls made by the
// executable (libnng.a is linked statically); the k-th creation made while
// armed fails with EAGAIN in mode M_THR.
static long al_thr_count;

int
pthread_create(pthread_t *t, const pthread_attr_t *attr, void *(*fn)(void *), void *arg)
{
	static int (*real)(pthread_t *, const pthread_attr_t *, void *(*) (void *), void *);
	if (real == NULL) {
		real = (int (*)(pthread_t *, const pthread_attr_t *, void *(*) (void *), void *)) dlsym(
		    RTLD_NEXT, "pthread_create");
		if (real == NULL) {
			abort();
		}
	}
	if (al_armed) {
		bool  fail = false;
		void *bt[C20_NF + 3];
		int   n = al_mode == M_THR ? backtrace(bt, C20_NF + 3) : 0;
		pthread_mutex_lock(&al_mtx);
		al_thr_count++;
		if (al_mode == M_THR && al_thr_count == al_j && !sh->fired) {
			int first = 0, nf = 0;
			for (int i = 0; i < n && i < 3; i++) {
				uintptr_t a = (uintptr_t) bt[i];
				if (a >= g_ent_lo[2] && a < g_ent_hi[2]) {
					first = i + 1;
					break;
				}
			}
			for (int i = first; i < n && nf < C20_NF; i++) {
				sh->fired_fr[nf++] = (uint64_t) ((uintptr_t) bt[i] - g_bias);
			}
			sh->fired_nf    = nf;
			sh->fired_seq   = al_thr_count;
			sh->fired_stage = sh->stage;
			sh->fired_thr   = 1;
			sh->fired       = 1;
			fail            = true;
		}
		pthread_mutex_unlock(&al_mtx);
		if (fail) {
			return EAGAIN;
		}
	}
	return real(t, attr, fn, arg);
}

// ---------------------------------------------------------------- descriptors
// "No leak" includes descriptors: the set of open descriptors after nng_fini
// must be the one from before nng_init (the programs close their own on
// every path; those of the harness itself are constant).
#define FD_MAX 1024
static uint8_t g_fd_before[FD_MAX / 8];

static void
fd_snapshot(uint8_t *bits)
{
	memset(bits, 0, FD_MAX / 8);
	DIR *d = opendir("/proc/self/fd");
	if (d == NULL) {
		return;
	}
	int            dfd = dirfd(d);
	struct dirent *e;
	while ((e = readdir(d)) != NULL) {
		if (e->d_name[0] < '0' || e->d_name[0] > '9') {
			continue;
		}
		int fd = atoi(e->d_name);
		if (fd != dfd && fd < FD_MAX) {
			bits[fd / 8] |= (uint8_t) (1u << (fd % 8));
		}
	}
	closedir(d);
}

static void
fd_balance(void)
{
	uint8_t now[FD_MAX / 8];
	fd_snapshot(now);
	for (int fd = 0; fd < FD_MAX; fd++) {
		bool was = (g_fd_before[fd / 8] >> (fd % 8)) & 1, is = (now[fd / 8] >> (fd % 8)) & 1;
		if (is && !was) {
			if (sh->fd_leaked++ == 0) {
				char    path[40];
				ssize_t n;
				snprintf(path, sizeof(path), "/proc/self/fd/%d", fd);
				n = readlink(path, sh->fd_what, sizeof(sh->fd_what) - 1);
				sh->fd_what[n > 0 ? n : 0] = 0;
			}
		} else if (was && !is) {
			sh->fd_lost++;
		}
	}
	sh->fd_checked = 1;
}

static int g_task_threads = 2;
// shape of the other per-thread arrays of nng_init (the init-E-P-R programs
// drive the unwinding of a partly filled array)
static int g_expire_threads = 1, g_poller_threads = 1, g_resolver_threads = 1;

static int
c20_nng_init(void)
{
	nng_init_params p;
	memset(&p, 0, sizeof(p));
	p.num_task_threads     = (int16_t) g_task_threads;
	p.max_task_threads     = (int16_t) g_task_threads;
	p.num_expire_threads   = (int16_t) g_expire_threads;
	p.max_expire_threads   = (int16_t) g_expire_threads;
	p.num_poller_threads   = (int16_t) g_poller_threads;
	p.max_poller_threads   = (int16_t) g_poller_threads;
	p.num_resolver_threads = (int16_t) g_resolver_threads;
	p.malloc_fn            = c20_malloc;
	p.calloc_fn            = c20_calloc;
	p.free_fn              = c20_free;
	return (int) nng_init(&p);
}

// ======================================================================
// call bookkeeping used by the programs (child side)
// ======================================================================
#define A_TMO 1u    // NNG_ETIMEDOUT: the one message was dropped
#define A_CONN 2u   // connection lost / refused / closed
#define A_CANCEL 4u // NNG_ECANCELED / NNG_ESTOPPED (we stopped it ourselves)
#define A_AGAIN 8u  // NNG_EAGAIN on a non-blocking call
#define A_PEER 16u  // NNG_EPROTO: the peer refused the connection at protocol level
#define A_PORT0 32u // the call binds TCP port 0: NNG_EADDRINUSE means no ephemeral port is left

static int g_tmo_io   = 500;  // ms: one message exchange
static int g_tmo_conn = 1500; // ms: connection establishment

static const char *
errname(int rv)
{
	static char buf[32];
	switch (rv) {
	case 0: return "OK";
	case NNG_EINTR: return "EINTR";
	case NNG_ENOMEM: return "ENOMEM";
	case NNG_EINVAL: return "EINVAL";
	case NNG_EBUSY: return "EBUSY";
	case NNG_ETIMEDOUT: return "ETIMEDOUT";
	case NNG_ECONNREFUSED: return "ECONNREFUSED";
	case NNG_ECLOSED: return "ECLOSED";
	case NNG_EAGAIN: return "EAGAIN";
	case NNG_ENOTSUP: return "ENOTSUP";
	case NNG_EADDRINUSE: return "EADDRINUSE";
	case NNG_ESTATE: return "ESTATE";
	case NNG_ENOENT: return "ENOENT";
	case NNG_EPROTO: return "EPROTO";
	case NNG_EUNREACHABLE: return "EUNREACHABLE";
	case NNG_EADDRINVAL: return "EADDRINVAL";
	case NNG_EPERM: return "EPERM";
	case NNG_EMSGSIZE: return "EMSGSIZE";
	case NNG_ECONNABORTED: return "ECONNABORTED";
	case NNG_ECONNRESET: return "ECONNRESET";
	case NNG_ECANCELED: return "ECANCELED";
	case NNG_ENOFILES: return "ENOFILES";
	case NNG_ENOSPC: return "ENOSPC";
	case NNG_EEXIST: return "EEXIST";
	case NNG_EREADONLY: return "EREADONLY";
	case NNG_EWRITEONLY: return "EWRITEONLY";
	case NNG_ECRYPTO: return "ECRYPTO";
	case NNG_EPEERAUTH: return "EPEERAUTH";
	case NNG_EBADTYPE: return "EBADTYPE";
	case NNG_ECONNSHUT: return "ECONNSHUT";
	case NNG_ESTOPPED: return "ESTOPPED";
	case NNG_EINTERNAL: return "EINTERNAL";
	default:
		if (rv & NNG_ESYSERR) {
			snprintf(buf, sizeof(buf), "ESYSERR");
		} else if (rv & NNG_ETRANERR) {
			snprintf(buf, sizeof(buf), "ETRANERR");
		} else {
			snprintf(buf, sizeof(buf), "E%d", rv);
		}
		return buf;
	}
}

static void
note_call(const char *fn)
{
	snprintf(sh->cur_call, sizeof(sh->cur_call), "%s", fn);
	sh->n_calls++;
}

static void
note_loss(const char *what)
{
	if (sh->n_loss < 6) {
		snprintf(sh->loss[sh->n_loss], 64, "%s", what);
	}
	sh->n_loss++;
}

static void
note_violation(const char *fmt, ...)
{
	va_list ap;
	va_start(ap, fmt);
	if (sh->n_note < 4) {
		vsnprintf(sh->note[sh->n_note], 96, fmt, ap);
	}
	sh->n_note++;
	va_end(ap);
}

static void
child_harness_fail(const char *fmt, ...)
{
	va_list ap;
	va_start(ap, fmt);
	vsnprintf(sh->harness_msg, sizeof(sh->harness_msg), fmt, ap);
	va_end(ap);
	_exit(3);
}

static int  g_pass = 1;   // 2: second pass on the same objects, nothing armed
static bool g_soft;       // an attempt that may be repeated: record nothing
static char g_last_fail[96];

static void
note_wedged(const char *fmt, ...)
{
	va_list ap;
	va_start(ap, fmt);
	if (sh->n_wedged < 4) {
		vsnprintf(sh->wedged[sh->n_wedged], 96, fmt, ap);
	}
	sh->n_wedged++;
	va_end(ap);
}

// classify the result of one API call
static int
ck_(const char *fn, unsigned allow, int rv)
{
	if (rv == 0) {
		return 0;
	}
	if (rv == NNG_EADDRINUSE && (allow & A_PORT0)) {
		// a bind to port 0 / an accept that cannot get a port: the
		// machine is out of ephemeral ports (TIME_WAIT), not nng
		sh->env_skip = 1;
		return rv;
	}
	if (g_pass == 2 && rv == NNG_ENOMEM) {
		// nothing is armed any more: there is no source of NNG_ENOMEM
		// left, this one is a stale error latched in some object
		if (sh->p2_enomem++ == 0) {
			snprintf(sh->p2_enomem_call, sizeof(sh->p2_enomem_call), "%s", fn);
		}
	}
	if (g_soft) {
		snprintf(g_last_fail, sizeof(g_last_fail), "%s=%s", fn, errname(rv));
		return rv;
	}
	if (g_pass == 2) {
		// Nothing is armed any more and the objects are the ones that
		// saw the failure: every step has to work now.
		if (((allow & A_CANCEL) && (rv == NNG_ECANCELED || rv == NNG_ESTOPPED || rv == NNG_ECLOSED)) ||
		    ((allow & A_AGAIN) && rv == NNG_EAGAIN)) {
			return rv;
		}
		note_wedged("%s=%s", fn, errname(rv));
		return rv;
	}
	if (rv == NNG_ENOMEM) {
		if (++sh->pass1_enomem_calls == 2) {
			snprintf(sh->enomem_call2, sizeof(sh->enomem_call2), "%s", fn);
		}
		if (sh->n_enomem++ == 0) {
			snprintf(sh->enomem_call, sizeof(sh->enomem_call), "%s", fn);
		}
		return rv;
	}
	bool ok = false;
	if ((allow & A_TMO) && rv == NNG_ETIMEDOUT) {
		ok = true;
	}
	if ((allow & A_CONN) &&
	    (rv == NNG_ECLOSED || rv == NNG_ECONNRESET || rv == NNG_ECONNSHUT ||
	        rv == NNG_ECONNREFUSED || rv == NNG_ECONNABORTED)) {
		ok = true;
	}
	if (((allow & A_CANCEL) && (rv == NNG_ECANCELED || rv == NNG_ESTOPPED || rv == NNG_ECLOSED)) ||
	    ((allow & A_AGAIN) && rv == NNG_EAGAIN)) {
		return rv; // the expected answer, not a loss
	}
	if ((allow & A_PEER) && rv == NNG_EPROTO) {
		ok = true;
	}
	if (ok) {
		char b[64];
		snprintf(b, sizeof(b), "%s=%s", fn, errname(rv));
		note_loss(b);
		return rv;
	}
	if (sh->n_bad < 8) {
		snprintf(sh->bad[sh->n_bad].call, 64, "%s", fn);
		sh->bad[sh->n_bad].rv = rv;
	}
	sh->n_bad++;
	return rv;
}

#define CK(allow, fn, ...) (note_call(#fn), ck_(#fn, allow, (int) (fn)(__VA_ARGS__)))
// unarmed setup step: must succeed
#define SETUP(fn, ...)                                                         \
	do {                                                                   \
		int rv_ = (int) (fn)(__VA_ARGS__);                             \
		if (rv_ == NNG_EADDRINUSE) {                                   \
			sh->env_skip = 1;                                      \
			sh->phase    = PH_DONE;                                \
			_exit(0);                                              \
		}                                                              \
		if (rv_ != 0) {                                                \
			child_harness_fail("setup %s: %s", #fn, nng_strerror(rv_)); \
		}                                                              \
	} while (0)


// ======================================================================
// program helpers
// ======================================================================
typedef struct {
	int         a, b;
	const char *s;
} parg;

static _Atomic int pc_a, pc_b, pc_c; // attached pipes per socket (net)

// the set of attached pipes per socket, by pipe id (a pipe that is removed
// without ever having been added must not be counted)
static pthread_mutex_t pset_mtx = PTHREAD_MUTEX_INITIALIZER;
static int             pset_ids[3][32];

static void
pipe_cb(nng_pipe p, nng_pipe_ev ev, void *arg)
{
	_Atomic int *c   = arg;
	int         *ids = pset_ids[c == &pc_a ? 0 : c == &pc_b ? 1 : 2];
	int          id  = nng_pipe_id(p), n = 0;
	if (ev != NNG_PIPE_EV_ADD_POST && ev != NNG_PIPE_EV_REM_POST) {
		return;
	}
	pthread_mutex_lock(&pset_mtx);
	for (int i = 0; i < 32; i++) {
		if (ev == NNG_PIPE_EV_REM_POST && ids[i] == id) {
			ids[i] = 0;
		}
	}
	if (ev == NNG_PIPE_EV_ADD_POST) {
		for (int i = 0; i < 32; i++) {
			if (ids[i] == 0) {
				ids[i] = id;
				break;
			}
		}
	}
	for (int i = 0; i < 32; i++) {
		n += ids[i] != 0;
	}
	atomic_store(c, n);
	pthread_mutex_unlock(&pset_mtx);
}

// unarmed
static void
watch_pipes(nng_socket s, _Atomic int *ctr)
{
	atomic_store(ctr, 0);
	memset(pset_ids[ctr == &pc_a ? 0 : ctr == &pc_b ? 1 : 2], 0, sizeof(pset_ids[0]));
	SETUP(nng_pipe_notify, s, NNG_PIPE_EV_ADD_POST, pipe_cb, ctr);
	SETUP(nng_pipe_notify, s, NNG_PIPE_EV_REM_POST, pipe_cb, ctr);
}

static bool
wait_counts(_Atomic int *c1, int n1, _Atomic int *c2, int n2, int ms)
{
	uint64_t end = vf_now_ns() + (uint64_t) ms * 1000000ULL;
	for (;;) {
		if (atomic_load(c1) >= n1 && atomic_load(c2) >= n2) {
			return true;
		}
		if (vf_now_ns() > end) {
			return false;
		}
		vf_usleep(500);
	}
}

static bool
wait_pipes(int ms)
{
	return wait_counts(&pc_a, 1, &pc_b, 1, ms);
}

// unarmed
static void
set_timeouts(nng_socket s)
{
	SETUP(nng_socket_set_ms, s, NNG_OPT_SENDTIMEO, g_tmo_io);
	SETUP(nng_socket_set_ms, s, NNG_OPT_RECVTIMEO, g_tmo_io);
	(void) nng_socket_set_ms(s, NNG_OPT_RECONNMINT, 10);
	(void) nng_socket_set_ms(s, NNG_OPT_RECONNMAXT, 20);
}

// ---------------------------------------------------------------- passes
// Pass 1 runs with the failpoint armed.  When the failure has fired, the
// program disarms and runs pass 2 on the SAME objects: whatever could not be
// done is done again and one more exchange is made.  Pass 2 must succeed
// completely; a path that stays dead is thereby told apart from the loss of
// one message or one connection.  The bounds are generous and are only
// reached by a wedged object.
// (a case that ends "wedged" is run again with these bounds doubled before
// it is believed: g_p2_scale)
static int g_p2_scale = 1;
#define P2_TMO_IO (2000 * g_p2_scale)
#define P2_TMO_CONN (5000 * g_p2_scale)
#define P2_BUDGET_MS (20000 * g_p2_scale)
static uint64_t g_p2_deadline;

static bool
want_pass2(void)
{
	return sh->fired && !sh->env_skip && g_pass == 1;
}

static void
begin_pass2(void)
{
	disarm();
	g_pass        = 2;
	sh->pass2     = 1;
	g_tmo_io      = P2_TMO_IO;
	g_tmo_conn    = P2_TMO_CONN;
	g_p2_deadline = vf_now_ns() + (uint64_t) P2_BUDGET_MS * 1000000ULL;
}

// attempts of a step that may need more than one go in pass 2 (the first
// message after a lost connection may legitimately be lost again)
static bool
p2_more(int attempt)
{
	sh->p2_soft_failures++;
	return attempt < 2 || (attempt < 6 && vf_now_ns() < g_p2_deadline);
}

static void
p2_timeouts(nng_socket s)
{
	(void) nng_socket_set_ms(s, NNG_OPT_SENDTIMEO, g_tmo_io);
	(void) nng_socket_set_ms(s, NNG_OPT_RECVTIMEO, g_tmo_io);
}

// Let in-flight completions run before tearing down: closing a pipe while a
// send completion is still queued is a scenario of its own, it is not what
// this check enumerates.
static bool g_settled;
static void
settle(void)
{
	if (!g_settled) {
		g_settled = true;
		(void) vf_quiesce(2, 300);
	}
}

static void
close_sock(nng_socket s)
{
	settle();
	if (nng_socket_id(s) > 0) {
		(void) CK(0, nng_socket_close, s);
	}
}

// Messages of given-up attempts (REQ resends, late deliveries) may sit in a
// receiver; protocols with back-pressure (inproc has no buffer, REP reads
// one request at a time) then block the next send.  Before an attempt of
// pass 2 the application side is emptied, as an application would do.
static void
drain(nng_socket s)
{
	for (int i = 0; i < 16; i++) {
		nng_msg *m = NULL;
		if (nng_recvmsg(s, &m, NNG_FLAG_NONBLOCK) != 0) {
			return;
		}
		nng_msg_free(m);
	}
}

static void
drain_ctx(nng_ctx c)
{
	for (int i = 0; i < 16; i++) {
		nng_msg *m = NULL;
		if (nng_ctx_recvmsg(c, &m, NNG_FLAG_NONBLOCK) != 0) {
			return;
		}
		nng_msg_free(m);
	}
}

// ---------------------------------------------------------------- messages
// body: [u32 tag][fill(tag)]; tags only grow, so a message of an earlier,
// given-up attempt that arrives late is recognised and skipped.
static uint32_t g_tag;

static int
msg_make(nng_msg **mp, size_t len, uint32_t tag)
{
	nng_msg *m = NULL;
	int      rv;
	if (len < 8) {
		len = 8;
	}
	if ((rv = CK(0, nng_msg_alloc, &m, 0)) != 0) {
		return rv;
	}
	uint8_t *buf = malloc(len);
	vf_fill(buf, len, tag);
	memcpy(buf, &tag, 4);
	rv = CK(0, nng_msg_append, m, buf, len);
	free(buf);
	if (rv != 0) {
		nng_msg_free(m);
		return rv;
	}
	*mp = m;
	return 0;
}

// 0 intact, 1 stale (older tag), -1 damaged
static int
msg_check(nng_msg *m, size_t len, uint32_t tag)
{
	uint32_t got = 0;
	if (len < 8) {
		len = 8;
	}
	if (nng_msg_len(m) >= 4) {
		memcpy(&got, nng_msg_body(m), 4);
	}
	if (got != tag && got != 0 && got < tag && got + 64 > tag) {
		return 1;
	}
	if (nng_msg_len(m) != len || got != tag) {
		note_violation("bad-data:message len %zu want %zu", nng_msg_len(m), len);
		return -1;
	}
	uint8_t *buf = malloc(len);
	vf_fill(buf, len, tag);
	memcpy(buf, &tag, 4);
	int bad = memcmp(buf, nng_msg_body(m), len) != 0;
	free(buf);
	if (bad) {
		note_violation("bad-data:message body differs");
		return -1;
	}
	return 0;
}

typedef int (*recv_fn)(void *who, nng_msg **mp);
static int
recv_sock(void *who, nng_msg **mp)
{
	return CK(A_TMO | A_CONN, nng_recvmsg, *(nng_socket *) who, mp, 0);
}
static int
recv_ctx(void *who, nng_msg **mp)
{
	return CK(A_TMO | A_CONN, nng_ctx_recvmsg, *(nng_ctx *) who, mp, 0);
}

// receive the message with this tag (skipping late ones of earlier attempts)
static int
recv_tagged(recv_fn fn, void *who, size_t len, uint32_t tag, nng_msg **keep)
{
	// (a REQ that lost its reply resends on every tick: the backlog of
	// late copies can be long, it is bounded by time, not by count)
	uint64_t end = vf_now_ns() + 2ULL * (uint64_t) g_tmo_io * 1000000ULL;
	for (int i = 0; i < 100000; i++) {
		nng_msg *r = NULL;
		int      rv;
		if (i >= 8 && vf_now_ns() > end) {
			break;
		}
		if ((rv = fn(who, &r)) != 0) {
			return rv;
		}
		int c = msg_check(r, len, tag);
		if (getenv("C20_TRACE") != NULL) {
			uint32_t got = 0;
			memcpy(&got, nng_msg_body(r), nng_msg_len(r) >= 4 ? 4 : 0);
			fprintf(stderr, "[%llu ms recv_tagged want %u got %u len %zu -> %d]\n", (unsigned long long) (vf_now_ns() / 1000000) % 100000, tag, got, nng_msg_len(r), c);
		}
		if (c == 1) {
			nng_msg_free(r);
			continue;
		}
		if (keep != NULL && c == 0) {
			*keep = r;
		} else {
			nng_msg_free(r);
		}
		return c;
	}
	if (g_soft) {
		snprintf(g_last_fail, sizeof(g_last_fail), "only-stale-messages");
	} else {
		note_loss("only-stale-messages");
	}
	return NNG_ETIMEDOUT;
}

// send one message of 'len' bytes from -> to and check what arrives.
// returns 0 when it arrived intact; otherwise the exchange was given up.
static int
xchg(nng_socket from, nng_socket to, size_t len)
{
	nng_msg *m   = NULL;
	uint32_t tag = ++g_tag;
	int      rv;
	if ((rv = msg_make(&m, len, tag)) != 0) {
		return rv;
	}
	if ((rv = CK(A_TMO | A_CONN, nng_sendmsg, from, m, 0)) != 0) {
		nng_msg_free(m);
		return rv;
	}
	return recv_tagged(recv_sock, &to, len, tag, NULL);
}

enum { X_PAIR0 = 0, X_PAIR1, X_PUBSUB, X_REQREP, X_PIPELINE, X_SURVEY, X_BUS, X_POLY, X_N };
static const char *x_names[X_N] = { "pair0", "pair1", "pubsub", "reqrep", "pipeline", "survey", "bus", "pair1poly" };

static bool
two_way(int kind)
{
	return kind == X_PAIR0 || kind == X_PAIR1 || kind == X_REQREP ||
	    kind == X_SURVEY || kind == X_BUS || kind == X_POLY;
}

// one exchange in the protocol's natural pattern
static int
round_trip(int kind, nng_socket a, nng_socket b, size_t len_ab, size_t len_ba)
{
	int rv;
	if ((rv = xchg(a, b, len_ab)) != 0) {
		return rv;
	}
	if (two_way(kind)) {
		rv = xchg(b, a, len_ba);
	}
	return rv;
}

// unarmed: a = the side that sends first
static void
open_pair_of(int kind, nng_socket *a, nng_socket *b, bool raw_a, bool raw_b)
{
	switch (kind) {
	case X_PAIR0:
		SETUP(raw_a ? nng_pair0_open_raw : nng_pair0_open, a);
		SETUP(raw_b ? nng_pair0_open_raw : nng_pair0_open, b);
		break;
	case X_PAIR1:
		SETUP(raw_a ? nng_pair1_open_raw : nng_pair1_open, a);
		SETUP(raw_b ? nng_pair1_open_raw : nng_pair1_open, b);
		break;
	case X_POLY:
		SETUP(nng_pair1_open_poly, a);
		SETUP(nng_pair1_open_poly, b);
		break;
	case X_PUBSUB:
		SETUP(raw_a ? nng_pub0_open_raw : nng_pub0_open, a);
		SETUP(raw_b ? nng_sub0_open_raw : nng_sub0_open, b);
		if (!raw_b) {
			SETUP(nng_sub0_socket_subscribe, *b, "", 0);
		}
		break;
	case X_REQREP:
		SETUP(raw_a ? nng_req0_open_raw : nng_req0_open, a);
		SETUP(raw_b ? nng_rep0_open_raw : nng_rep0_open, b);
		break;
	case X_PIPELINE:
		SETUP(raw_a ? nng_push0_open_raw : nng_push0_open, a);
		SETUP(raw_b ? nng_pull0_open_raw : nng_pull0_open, b);
		break;
	case X_SURVEY:
		SETUP(raw_a ? nng_surveyor0_open_raw : nng_surveyor0_open, a);
		SETUP(raw_b ? nng_respondent0_open_raw : nng_respondent0_open, b);
		break;
	default:
		SETUP(raw_a ? nng_bus0_open_raw : nng_bus0_open, a);
		SETUP(raw_b ? nng_bus0_open_raw : nng_bus0_open, b);
		break;
	}
	set_timeouts(*a);
	set_timeouts(*b);
	watch_pipes(*a, &pc_a);
	watch_pipes(*b, &pc_b);
}

// ---------------------------------------------------------------- links
// Two sockets and the endpoints between them; every step remembers whether
// it has been done, so that pass 2 does exactly what is still missing.
typedef struct {
	nng_socket   a, b; // a dials and sends first, b listens
	int          kind;
	int          t; // VF_T_*, VF_T_N = udp
	bool         raw_b;
	const char  *byname;
	char         lurl[128], durl[160];
	nng_listener l, l2;
	nng_dialer   d;
	bool         listening, dialed, have_l, have_l2;
	bool         frag; // ws: the dialer sends frames of at most 4096 bytes
	size_t       len_ab, len_ba;
} c20_link;

static void
link_open(c20_link *L, int kind, int t, bool raw_b)
{
	memset(L, 0, sizeof(*L));
	L->kind   = kind;
	L->t      = t;
	L->raw_b  = raw_b;
	L->len_ab = 64;
	L->len_ba = 300;
	open_pair_of(kind, &L->a, &L->b, false, raw_b);
	switch (t) {
	case VF_T_INPROC:
		snprintf(L->lurl, sizeof(L->lurl), "inproc://c20");
		break;
	case VF_T_IPC:
		snprintf(L->lurl, sizeof(L->lurl), "ipc:///tmp/c20-%d.sock", (int) getpid());
		break;
	case VF_T_TCP:
		snprintf(L->lurl, sizeof(L->lurl), "tcp://127.0.0.1:0");
		break;
	case VF_T_WS:
		snprintf(L->lurl, sizeof(L->lurl), "ws://127.0.0.1:0/c20");
		break;
	case VF_T_N:
		snprintf(L->lurl, sizeof(L->lurl), "udp://127.0.0.1:0");
		break;
	default:
		snprintf(L->lurl, sizeof(L->lurl), "socket://");
		break;
	}
}

static bool
link_ip(const c20_link *L)
{
	return L->t == VF_T_TCP || L->t == VF_T_WS || L->t == VF_T_N;
}

static int
link_listen(c20_link *L)
{
	int rv;
	if (L->listening) {
		return 0;
	}
	if (L->t == VF_T_SOCKFD) {
		if (!L->have_l) {
			if ((rv = CK(0, nng_listener_create, &L->l, L->b, L->lurl)) != 0 ||
			    (rv = CK(0, nng_listener_start, L->l, 0)) != 0) {
				if (nng_listener_id(L->l) > 0) {
					(void) nng_listener_close(L->l);
				}
				return rv;
			}
			L->have_l = true;
		}
		if (!L->have_l2) {
			if ((rv = CK(0, nng_listener_create, &L->l2, L->a, L->lurl)) != 0 ||
			    (rv = CK(0, nng_listener_start, L->l2, 0)) != 0) {
				if (nng_listener_id(L->l2) > 0) {
					(void) nng_listener_close(L->l2);
				}
				return rv;
			}
			L->have_l2 = true;
		}
		L->listening = true;
		return 0;
	}
	if ((rv = CK(link_ip(L) ? A_PORT0 : 0, nng_listen, L->b, L->lurl, &L->l, 0)) != 0) {
		return rv;
	}
	L->have_l    = true;
	L->listening = true;
	snprintf(L->durl, sizeof(L->durl), "%s", L->lurl);
	return 0;
}

static int
link_durl(c20_link *L)
{
	int rv, port = 0;
	if (!link_ip(L)) {
		return 0;
	}
	if ((rv = CK(0, nng_listener_get_int, L->l, NNG_OPT_BOUND_PORT, &port)) != 0) {
		return rv;
	}
	if (L->t == VF_T_N) {
		snprintf(L->durl, sizeof(L->durl), "udp://127.0.0.1:%d", port);
	} else if (L->byname != NULL) { // goes through the resolver
		snprintf(L->durl, sizeof(L->durl), "tcp://%s:%d", L->byname, port);
	} else if (L->t == VF_T_TCP) {
		snprintf(L->durl, sizeof(L->durl), "tcp://127.0.0.1:%d", port);
	} else {
		snprintf(L->durl, sizeof(L->durl), "ws://127.0.0.1:%d/c20", port);
	}
	// remember it as the listen URL too: a listener that has to be
	// re-created in pass 2 must be found by the existing dialer
	if (L->t == VF_T_TCP && L->byname == NULL) {
		snprintf(L->lurl, sizeof(L->lurl), "%s", L->durl);
	}
	return 0;
}

static int
link_dial(c20_link *L)
{
	int rv;
	if (L->t == VF_T_SOCKFD) {
		// a fresh socketpair whenever there is no connection
		int fds[2] = { -1, -1 };
		if ((rv = CK(0, nng_socket_pair, fds)) != 0) {
			return rv;
		}
		if ((rv = CK(0, nng_listener_set_int, L->l, NNG_OPT_SOCKET_FD, fds[0])) != 0) {
			close(fds[0]);
			close(fds[1]);
			return rv;
		}
		if ((rv = CK(0, nng_listener_set_int, L->l2, NNG_OPT_SOCKET_FD, fds[1])) != 0) {
			close(fds[1]);
			return rv;
		}
		return 0;
	}
	if (L->dialed) {
		return 0; // the dialer exists and reconnects by itself
	}
	if ((rv = link_durl(L)) != 0) {
		return rv;
	}
	if (L->frag) {
		// (dialer made in steps, so that the frame size can be set)
		if ((rv = CK(0, nng_dialer_create, &L->d, L->a, L->durl)) != 0) {
			return rv;
		}
		if ((rv = CK(0, nng_dialer_set_size, L->d, NNG_OPT_WS_SENDMAXFRAME, 4096)) != 0 ||
		    (rv = CK(A_CONN | A_TMO | A_PEER, nng_dialer_start, L->d, 0)) != 0) {
			(void) nng_dialer_close(L->d);
			return rv;
		}
		L->dialed = true;
		return 0;
	}
	if ((rv = CK(A_CONN | A_TMO | A_PEER, nng_dial, L->a, L->durl, &L->d, 0)) != 0) {
		return rv; // a failed synchronous dial leaves no dialer behind
	}
	L->dialed = true;
	return 0;
}

// pass 1: listen, dial, wait for the pipes
static int
link_connect(c20_link *L)
{
	int rv;
	if ((rv = link_listen(L)) != 0 || (rv = link_dial(L)) != 0) {
		return rv;
	}
	if (!wait_pipes(g_tmo_conn)) {
		note_loss("no-connection");
		return NNG_ETIMEDOUT;
	}
	return 0;
}

static int
link_round(c20_link *L)
{
	if (L->raw_b) {
		return 0; // a raw peer: the connection is what is exercised
	}
	return round_trip(L->kind, L->a, L->b, L->len_ab, L->len_ba);
}

// pass 2: whatever is missing is done again, then one round must work
static void
link_pass2(c20_link *L)
{
	p2_timeouts(L->a);
	p2_timeouts(L->b);
	if (link_listen(L) != 0) {
		return; // recorded by ck_
	}
	for (int attempt = 0;; attempt++) {
		g_soft         = true;
		g_last_fail[0] = 0;
		int rv         = 0;
		if (!(atomic_load(&pc_a) >= 1 && atomic_load(&pc_b) >= 1)) {
			rv = link_dial(L);
		}
		if (rv == 0 && !wait_pipes(g_tmo_conn)) {
			snprintf(g_last_fail, sizeof(g_last_fail), "no-connection");
			rv = NNG_ETIMEDOUT;
		}
		if (rv == 0) {
			drain(L->b);
			drain(L->a);
			rv = link_round(L);
		}
		g_soft = false;
		if (getenv("C20_TRACE") != NULL) {
			fprintf(stderr, "[link pass2 attempt %d] rv=%d last=%s pipes=%d/%d\n", attempt, rv, g_last_fail,
			    atomic_load(&pc_a), atomic_load(&pc_b));
		}
		if (rv == 0) {
			return;
		}
		if (rv < 0 || !p2_more(attempt)) {
			if (rv > 0) {
				note_wedged("%s", g_last_fail[0] ? g_last_fail : "round");
			}
			return;
		}
	}
}

static void
link_close(c20_link *L)
{
	close_sock(L->a);
	close_sock(L->b);
	if (L->t == VF_T_IPC) {
		unlink(L->lurl + 6);
	}
}

// unarmed inproc connection; b listens, a dials
static void
connect_inproc(nng_socket a, nng_socket b, const char *url)
{
	SETUP(nng_listen, b, url, NULL, 0);
	SETUP(nng_dial, a, url, NULL, 0);
	if (!wait_pipes(5000)) {
		child_harness_fail("setup: no inproc connection on %s", url);
	}
}

// unarmed: a link that is already connected
static void
link_open_connected(c20_link *L, int kind, int t)
{
	int port = 0;
	link_open(L, kind, t, false);
	SETUP(nng_listen, L->b, L->lurl, &L->l, 0);
	L->have_l = L->listening = true;
	snprintf(L->durl, sizeof(L->durl), "%s", L->lurl);
	if (link_ip(L)) {
		SETUP(nng_listener_get_int, L->l, NNG_OPT_BOUND_PORT, &port);
		if (t == VF_T_WS) {
			snprintf(L->durl, sizeof(L->durl), "ws://127.0.0.1:%d/c20", port);
		} else {
			snprintf(L->durl, sizeof(L->durl), "tcp://127.0.0.1:%d", port);
			snprintf(L->lurl, sizeof(L->lurl), "%s", L->durl);
		}
	}
	SETUP(nng_dial, L->a, L->durl, &L->d, 0);
	L->dialed = true;
	if (!wait_pipes(5000)) {
		child_harness_fail("setup: no connection on %s", L->durl);
	}
}

// pass 2 for programs that keep no link: the same two sockets must still be
// able to talk (over their old connection, or a new inproc one)
static void
pair_pass2(nng_socket a, nng_socket b, int kind)
{
	p2_timeouts(a);
	p2_timeouts(b);
	bool extra = false;
	for (int attempt = 0;; attempt++) {
		g_soft         = true;
		g_last_fail[0] = 0;
		int rv         = 0;
		if (!wait_pipes(attempt == 0 ? 300 : g_tmo_conn) && !extra) {
			g_soft = false;
			if (CK(0, nng_listen, b, "inproc://c20-p2", NULL, 0) != 0 ||
			    CK(0, nng_dial, a, "inproc://c20-p2", NULL, 0) != 0) {
				return;
			}
			extra  = true;
			g_soft = true;
		}
		if (!wait_pipes(g_tmo_conn)) {
			snprintf(g_last_fail, sizeof(g_last_fail), "no-connection");
			rv = NNG_ETIMEDOUT;
		}
		if (rv == 0) {
			drain(b);
			drain(a);
			rv = round_trip(kind, a, b, 40, 40);
		}
		g_soft = false;
		if (rv == 0) {
			return;
		}
		if (rv < 0 || !p2_more(attempt)) {
			if (rv > 0) {
				note_wedged("%s", g_last_fail[0] ? g_last_fail : "round");
			}
			return;
		}
	}
}

// ======================================================================
// programs.  Each runs after nng_init; it arms the failpoint itself (so
// that the unarmed setup is not enumerated again and again), runs pass 2
// when the failure fired, closes every object it created on every path,
// and returns.  nng_fini follows.
// ======================================================================
static void
prog_init(const parg *pa)
{
	(void) pa; // nng_init / nng_fini happen in child_main, armed
}

static void
prog_open(const parg *pa)
{
	const vf_proto *p = &vf_protos[pa->a];
	nng_socket      s = NNG_SOCKET_INITIALIZER;
	char            name[64];
	bool digit = p->name[strlen(p->name) - 1] >= '0' && p->name[strlen(p->name) - 1] <= '9';
	snprintf(name, sizeof(name), "nng_%s%s_open%s", p->name, digit ? "" : "0", pa->b ? "_raw" : "");
	arm();
	for (;;) {
		note_call(name);
		if (ck_(name, 0, (pa->b ? p->open_raw : p->open)(&s)) == 0) {
			int          id;
			nng_duration d;
			(void) CK(0, nng_socket_set_ms, s, NNG_OPT_RECVTIMEO, 100);
			(void) CK(0, nng_socket_get_ms, s, NNG_OPT_RECVTIMEO, &d);
			id = nng_socket_id(s);
			close_sock(s);
			(void) id;
		}
		if (!want_pass2()) {
			break;
		}
		begin_pass2(); // opening the same protocol again must work
	}
}

static void
prog_open_poly(const parg *pa)
{
	nng_socket s = NNG_SOCKET_INITIALIZER;
	(void) pa;
	arm();
	for (;;) {
		if (CK(0, nng_pair1_open_poly, &s) == 0) {
			close_sock(s);
		}
		if (!want_pass2()) {
			break;
		}
		begin_pass2();
	}
}

// contexts: open / options / subscribe / close on every protocol that has them
static void
prog_ctx(const parg *pa)
{
	const vf_proto *p = &vf_protos[pa->a];
	nng_socket      s;
	nng_duration    d;
	SETUP(p->open, &s);
	arm();
	for (;;) {
		nng_ctx c = NNG_CTX_INITIALIZER, c2 = NNG_CTX_INITIALIZER;
		if (CK(0, nng_ctx_open, &c, s) == 0) {
			(void) CK(0, nng_ctx_open, &c2, s);
			(void) CK(0, nng_ctx_set_ms, c, NNG_OPT_RECVTIMEO, 100);
			(void) CK(0, nng_ctx_get_ms, c, NNG_OPT_RECVTIMEO, &d);
			if (!strcmp(p->name, "sub")) {
				int r1 = CK(0, nng_sub0_ctx_subscribe, c, "ab", 2);
				(void) CK(0, nng_sub0_ctx_subscribe, c, "abc", 3);
				(void) CK(0, nng_sub0_ctx_subscribe, c, "b", 1);
				if (r1 == 0) {
					(void) CK(0, nng_sub0_ctx_unsubscribe, c, "ab", 2);
				}
			}
			if (!strcmp(p->name, "req")) {
				(void) CK(0, nng_ctx_set_ms, c, NNG_OPT_REQ_RESENDTIME, 1000);
			}
			if (!strcmp(p->name, "surveyor")) {
				(void) CK(0, nng_ctx_set_ms, c, NNG_OPT_SURVEYOR_SURVEYTIME, 500);
			}
		}
		if (nng_ctx_id(c) > 0) {
			(void) CK(0, nng_ctx_close, c);
		}
		if (nng_ctx_id(c2) > 0) {
			(void) CK(0, nng_ctx_close, c2);
		}
		if (!want_pass2()) {
			break;
		}
		begin_pass2(); // the same socket must give working contexts now
	}
	close_sock(s);
}

// listen + dial + one message each way over one transport
static void
prog_tran(const parg *pa)
{
	c20_link L;
	link_open(&L, pa->b == 1 ? X_REQREP : X_PAIR0, pa->a, false);
	L.byname = pa->s;
	L.len_ba = pa->a == VF_T_INPROC ? 300 : 20000;
	if (pa->b == 2) { // a message of several websocket frames
		L.frag   = true;
		L.len_ab = 20000;
	}
	arm();
	if (link_connect(&L) == 0) {
		(void) link_round(&L);
	}
	if (want_pass2()) {
		begin_pass2();
		link_pass2(&L);
	}
	link_close(&L);
}

// connection set-up (protocol pipe start on both sides), armed; pa->b: the
// listening side is a raw socket
static void
prog_conn(const parg *pa)
{
	c20_link L;
	link_open(&L, pa->a, VF_T_INPROC, pa->b != 0);
	L.len_ab = L.len_ba = 48;
	arm();
	if (link_connect(&L) == 0) {
		(void) link_round(&L);
	}
	if (want_pass2()) {
		begin_pass2();
		link_pass2(&L);
	}
	link_close(&L);
}

// one exchange per protocol pair over an established inproc connection
static void
prog_xchg(const parg *pa)
{
	c20_link L;
	link_open_connected(&L, pa->a, VF_T_INPROC);
	L.len_ab = L.len_ba = 100;
	arm();
	(void) link_round(&L);
	if (want_pass2()) {
		begin_pass2();
		link_pass2(&L);
	}
	link_close(&L);
}

// req/rep and survey through contexts
static int
ctx_round(nng_ctx ca, nng_ctx cb)
{
	nng_msg *m = NULL, *r = NULL;
	uint32_t tag = ++g_tag;
	int      rv;
	if ((rv = msg_make(&m, 16, tag)) != 0) {
		return rv;
	}
	if ((rv = CK(A_TMO | A_CONN, nng_ctx_sendmsg, ca, m, 0)) != 0) {
		nng_msg_free(m);
		return rv;
	}
	if ((rv = recv_tagged(recv_ctx, &cb, 16, tag, &r)) != 0) {
		return rv;
	}
	if ((rv = CK(A_TMO | A_CONN, nng_ctx_sendmsg, cb, r, 0)) != 0) {
		nng_msg_free(r);
		return rv;
	}
	return recv_tagged(recv_ctx, &ca, 16, tag, NULL);
}

static void
prog_ctx_xchg(const parg *pa)
{
	c20_link L;
	nng_ctx  ca = NNG_CTX_INITIALIZER, cb = NNG_CTX_INITIALIZER;
	link_open_connected(&L, pa->a, VF_T_INPROC);
	arm();
	for (;;) {
		int rv = 0;
		if (nng_ctx_id(ca) <= 0) {
			rv = CK(0, nng_ctx_open, &ca, L.a);
		}
		if (rv == 0 && nng_ctx_id(cb) <= 0) {
			rv = CK(0, nng_ctx_open, &cb, L.b);
		}
		if (rv == 0) {
			(void) CK(0, nng_ctx_set_ms, ca, NNG_OPT_RECVTIMEO, g_tmo_io);
			(void) CK(0, nng_ctx_set_ms, cb, NNG_OPT_RECVTIMEO, g_tmo_io);
			(void) CK(0, nng_ctx_set_ms, ca, NNG_OPT_SENDTIMEO, g_tmo_io);
			(void) CK(0, nng_ctx_set_ms, cb, NNG_OPT_SENDTIMEO, g_tmo_io);
			if (g_pass == 1) {
				(void) ctx_round(ca, cb);
			} else {
				for (int attempt = 0;; attempt++) {
					g_soft = true;
					drain_ctx(cb);
					rv     = wait_pipes(g_tmo_conn) ? ctx_round(ca, cb) : NNG_ETIMEDOUT;
					g_soft = false;
					if (rv <= 0 || !p2_more(attempt)) {
						if (rv > 0) {
							note_wedged("%s", g_last_fail[0] ? g_last_fail : "no-connection");
						}
						break;
					}
				}
			}
		}
		if (!want_pass2()) {
			break;
		}
		begin_pass2();
	}
	if (nng_ctx_id(ca) > 0) {
		(void) CK(0, nng_ctx_close, ca);
	}
	if (nng_ctx_id(cb) > 0) {
		(void) CK(0, nng_ctx_close, cb);
	}
	link_close(&L);
}

// socket options
static void
prog_opts(const parg *pa)
{
	const vf_proto *p = &vf_protos[pa->a];
	nng_socket      s;
	int             iv;
	size_t          zv;
	nng_duration    dv;
	bool            bv;
	const char     *nm;
	SETUP(pa->b ? p->open_raw : p->open, &s);
	arm();
	// not every protocol has every option: ENOTSUP is a clean answer
	int rv;
#define OPT(fn, ...)                                                    \
	do {                                                            \
		note_call(#fn);                                         \
		rv = (int) (fn)(__VA_ARGS__);                           \
		if (rv != NNG_ENOTSUP && rv != NNG_EREADONLY && rv != NNG_EWRITEONLY) { \
			(void) ck_(#fn, 0, rv);                         \
		}                                                       \
	} while (0)
	for (;;) {
		OPT(nng_socket_set_int, s, NNG_OPT_SENDBUF, 4);
		OPT(nng_socket_set_int, s, NNG_OPT_RECVBUF, 4);
		OPT(nng_socket_set_int, s, NNG_OPT_SENDBUF, 64);
		OPT(nng_socket_set_int, s, NNG_OPT_RECVBUF, 64);
		OPT(nng_socket_set_int, s, NNG_OPT_SENDBUF, 1);
		OPT(nng_socket_set_int, s, NNG_OPT_RECVBUF, 3);
		iv = -1;
		OPT(nng_socket_get_int, s, NNG_OPT_RECVBUF, &iv);
		if (g_pass == 2 && rv == 0 && iv != 3) {
			note_wedged("recv-buffer reads back %d after it was set to 3", iv);
		}
		OPT(nng_socket_get_int, s, NNG_OPT_SENDBUF, &iv);
		OPT(nng_socket_set_int, s, NNG_OPT_MAXTTL, 4);
		OPT(nng_socket_get_int, s, NNG_OPT_MAXTTL, &iv);
		OPT(nng_socket_set_ms, s, NNG_OPT_SENDTIMEO, 100);
		OPT(nng_socket_set_ms, s, NNG_OPT_RECVTIMEO, 100);
		OPT(nng_socket_get_ms, s, NNG_OPT_RECVTIMEO, &dv);
		OPT(nng_socket_set_ms, s, NNG_OPT_RECONNMINT, 10);
		OPT(nng_socket_set_ms, s, NNG_OPT_RECONNMAXT, 100);
		OPT(nng_socket_set_size, s, NNG_OPT_RECVMAXSZ, 4096);
		OPT(nng_socket_get_size, s, NNG_OPT_RECVMAXSZ, &zv);
		OPT(nng_socket_raw, s, &bv);
		OPT(nng_socket_proto_name, s, &nm);
		OPT(nng_socket_peer_name, s, &nm);
		OPT(nng_socket_get_recv_poll_fd, s, &iv);
		OPT(nng_socket_get_send_poll_fd, s, &iv);
		if (!strcmp(p->name, "sub") && !pa->b) {
			OPT(nng_sub0_socket_subscribe, s, "abc", 3);
			int r1 = rv;
			OPT(nng_sub0_socket_subscribe, s, "abd", 3);
			OPT(nng_sub0_socket_subscribe, s, "", 0);
			if (r1 == 0) {
				OPT(nng_sub0_socket_unsubscribe, s, "abc", 3);
			}
			OPT(nng_socket_set_bool, s, NNG_OPT_SUB_PREFNEW, false);
		}
		if (!strcmp(p->name, "req") && !pa->b) {
			OPT(nng_socket_set_ms, s, NNG_OPT_REQ_RESENDTIME, 500);
			OPT(nng_socket_set_ms, s, NNG_OPT_REQ_RESENDTICK, 50);
		}
		if (!strcmp(p->name, "surveyor") && !pa->b) {
			OPT(nng_socket_set_ms, s, NNG_OPT_SURVEYOR_SURVEYTIME, 300);
		}
		if (!want_pass2()) {
			break;
		}
		begin_pass2(); // every option can be set on the same socket now
	}
	close_sock(s);
}

// resize buffers of a live socket that has messages queued
static void
prog_resize(const parg *pa)
{
	c20_link L;
	nng_msg *m;
	(void) pa;
	link_open(&L, X_PAIR0, VF_T_INPROC, false);
	SETUP(nng_socket_set_int, L.a, NNG_OPT_SENDBUF, 2);
	SETUP(nng_socket_set_int, L.b, NNG_OPT_RECVBUF, 2);
	SETUP(nng_listen, L.b, L.lurl, &L.l, 0);
	SETUP(nng_dial, L.a, L.lurl, &L.d, 0);
	snprintf(L.durl, sizeof(L.durl), "%s", L.lurl);
	L.have_l = L.listening = L.dialed = true;
	if (!wait_pipes(5000)) {
		child_harness_fail("setup: no inproc connection");
	}
	for (int i = 0; i < 3; i++) {
		SETUP(nng_msg_alloc, &m, 4);
		memcpy(nng_msg_body(m), &i, 4);
		SETUP(nng_sendmsg, L.a, m, 0);
	}
	arm();
	(void) CK(0, nng_socket_set_int, L.b, NNG_OPT_RECVBUF, 8);
	(void) CK(0, nng_socket_set_int, L.a, NNG_OPT_SENDBUF, 8);
	(void) CK(0, nng_socket_set_int, L.b, NNG_OPT_RECVBUF, 16);
	// a failed resize must leave the queued messages alone
	for (int i = 0; i < 3; i++) {
		m = NULL;
		if (CK(A_TMO, nng_recvmsg, L.b, &m, 0) != 0) {
			break;
		}
		int got = -1;
		if (nng_msg_len(m) == 4) {
			memcpy(&got, nng_msg_body(m), 4);
		}
		if (got != i) {
			note_violation("bad-data:after resize message %d is %d", i, got);
		}
		nng_msg_free(m);
	}
	if (want_pass2()) {
		begin_pass2();
		(void) CK(0, nng_socket_set_int, L.b, NNG_OPT_RECVBUF, 16);
		(void) CK(0, nng_socket_set_int, L.a, NNG_OPT_SENDBUF, 8);
		link_pass2(&L);
	}
	link_close(&L);
}

// device: e1 <-> [d1 | d2] <-> e2
static void
prog_device(const parg *pa)
{
	nng_socket e1, d1, d2, e2;
	nng_aio   *aio = NULL;
	int        kind = pa->a; // X_PAIR0 or X_REQREP
	bool       running = false;
	if (kind == X_REQREP) {
		SETUP(nng_req0_open, &e1);
		SETUP(nng_rep0_open_raw, &d1);
		SETUP(nng_req0_open_raw, &d2);
		SETUP(nng_rep0_open, &e2);
	} else {
		SETUP(nng_pair0_open, &e1);
		SETUP(nng_pair0_open_raw, &d1);
		SETUP(nng_pair0_open_raw, &d2);
		SETUP(nng_pair0_open, &e2);
	}
	set_timeouts(e1);
	set_timeouts(e2);
	watch_pipes(e1, &pc_a);
	watch_pipes(d1, &pc_b);
	connect_inproc(e1, d1, "inproc://c20-dev1");
	watch_pipes(e2, &pc_a);
	watch_pipes(d2, &pc_b);
	connect_inproc(d2, e2, "inproc://c20-dev2");
	arm();
	for (;;) {
		if (aio == NULL && CK(0, nng_aio_alloc, &aio, NULL, NULL) != 0) {
			aio = NULL;
		}
		if (aio != NULL && !running) {
			note_call("nng_device_aio");
			nng_device_aio(aio, d1, d2);
			running = true;
		}
		if (running) {
			if (g_pass == 1) {
				(void) round_trip(kind == X_REQREP ? X_REQREP : X_PIPELINE, e1, e2, 80, 80);
			} else {
				p2_timeouts(e1);
				p2_timeouts(e2);
				for (int attempt = 0;; attempt++) {
					g_soft = true;
					drain(e2);
					int rv = round_trip(kind == X_REQREP ? X_REQREP : X_PIPELINE, e1, e2, 80, 80);
					g_soft = false;
					if (rv <= 0 || !p2_more(attempt)) {
						if (rv > 0) {
							note_wedged("device:%s", g_last_fail);
						}
						break;
					}
				}
			}
		}
		if (!want_pass2()) {
			break;
		}
		if (running && !nng_aio_busy(aio)) {
			// the device could not start: it may be started again
			(void) ck_("nng_device_aio", 0, (int) nng_aio_result(aio));
			running = false;
		}
		begin_pass2();
	}
	if (aio != NULL) {
		settle();
		note_call("nng_aio_stop");
		nng_aio_stop(aio);
		if (running) {
			(void) ck_("nng_device_aio", A_CANCEL, (int) nng_aio_result(aio));
		}
		note_call("nng_aio_free");
		nng_aio_free(aio);
	}
	close_sock(e1);
	close_sock(e2);
	// the device closes its sockets when it stops: ECLOSED is expected
	note_call("nng_socket_close");
	(void) ck_("nng_socket_close", A_CANCEL, nng_socket_close(d1));
	(void) ck_("nng_socket_close", A_CANCEL, nng_socket_close(d2));
}

static void
prog_url(const parg *pa)
{
	static const char *urls[] = {
		"tcp://127.0.0.1:4567",
		"http://user:pw@www.example.com:8080/a/b/../c%41?x=1&y=2#frag",
		"ws://[::1]:80/path",
		"ipc:///tmp/some/where.sock",
		"inproc://name",
		"udp://127.0.0.1:99",
		"http://EXAMPLE.com/%7Euser/",
		"socket://",
		"http://www.example.com/0123456789012345678901234567890123456789012345678901234567890123456789"
		"0123456789012345678901234567890123456789012345678901234567890123456789/0123456789012345678901"
		"?q=0123456789012345678901234567890123456789012345678901234567890123456789#f",
	};
	(void) pa;
	arm();
	for (;;) {
		for (unsigned i = 0; i < sizeof(urls) / sizeof(urls[0]); i++) {
			nng_url *u = NULL, *c = NULL;
			char     buf[512];
			if (CK(0, nng_url_parse, &u, urls[i]) != 0) {
				continue;
			}
			note_call("nng_url_sprintf");
			(void) nng_url_sprintf(buf, sizeof(buf), u);
			(void) nng_url_hostname(u);
			(void) nng_url_path(u);
			if (CK(0, nng_url_clone, &c, u) == 0) {
				char buf2[512];
				(void) nng_url_sprintf(buf2, sizeof(buf2), c);
				if (strcmp(buf, buf2) != 0) {
					note_violation("bad-data:url clone differs");
				}
				nng_url_free(c);
			}
			nng_url_free(u);
		}
		if (!want_pass2()) {
			break;
		}
		begin_pass2();
	}
}

// A failed edit must leave the message as it was; later edits work.
static void
prog_msg(const parg *pa)
{
	nng_msg *m = NULL, *d = NULL;
	uint8_t  buf[300];
	(void) pa;
	vf_fill(buf, sizeof(buf), 9);
	arm();
	for (;;) {
		size_t len = 10, hlen = 0;
		if (CK(0, nng_msg_alloc, &m, 10) == 0) {
#define EDIT(grow, hgrow, fn, ...)                         \
	do {                                               \
		if (CK(0, fn, __VA_ARGS__) == 0) {         \
			len += (grow);                     \
			hlen += (hgrow);                   \
		}                                          \
		if (nng_msg_len(m) != len || nng_msg_header_len(m) != hlen) { \
			note_violation("bad-data:%s left len %zu/%zu, expected %zu/%zu", #fn, \
			    nng_msg_len(m), nng_msg_header_len(m), len, hlen); \
			len  = nng_msg_len(m);             \
			hlen = nng_msg_header_len(m);      \
		}                                          \
	} while (0)
			EDIT(100, 0, nng_msg_append, m, buf, 100);
			EDIT(50, 0, nng_msg_insert, m, buf, 50);
			EDIT(4, 0, nng_msg_append_u32, m, 7);
			EDIT(8, 0, nng_msg_insert_u64, m, 8);
			EDIT(0, 8, nng_msg_header_append, m, buf, 8);
			EDIT(0, 4, nng_msg_header_insert_u32, m, 3);
			if (CK(0, nng_msg_realloc, m, 4000) == 0) {
				len = 4000;
			}
			EDIT(0, 0, nng_msg_reserve, m, 9000);
			EDIT(300, 0, nng_msg_append, m, buf, 300);
			EDIT(300, 0, nng_msg_insert, m, buf, 300);
			if (CK(0, nng_msg_realloc, m, 20) == 0) {
				len = 20;
			}
			EDIT(0, 0, nng_msg_reserve, m, 64);
			if (CK(0, nng_msg_dup, &d, m) == 0) {
				if (nng_msg_len(d) != len || nng_msg_header_len(d) != hlen ||
				    memcmp(nng_msg_body(d), nng_msg_body(m), len) != 0) {
					note_violation("bad-data:msg dup differs");
				}
				(void) CK(0, nng_msg_append, d, buf, 10);
				nng_msg_free(d);
			}
			(void) CK(0, nng_msg_trim, m, 4);
			(void) CK(0, nng_msg_chop, m, 4);
			nng_msg_clear(m);
			(void) CK(0, nng_msg_append, m, buf, 64);
			nng_msg_free(m);
		}
		void *p = nng_alloc(100);
		if (p != NULL) {
			nng_free(p, 100);
		} else if (g_pass == 2) {
			note_wedged("nng_alloc=NULL");
		}
		char *s = nng_strdup("hello");
		if (s != NULL) {
			nng_strfree(s);
		} else if (g_pass == 2) {
			note_wedged("nng_strdup=NULL");
		}
		if (!want_pass2()) {
			break;
		}
		begin_pass2();
	}
}

// A map whose growth failed must keep working: what was stored stays, and
// more can be stored.
static void
prog_idmap(const parg *pa)
{
	nng_id_map *map = NULL;
	uint64_t    id, ids[200];
	int         vals[200], nset = 0, nalloc = 0;
	bool        set_ok[80];
	memset(set_ok, 0, sizeof(set_ok));
	// (ids are handed out from 1000 up - with NNG_MAP_RANDOM from a random
	// start -, the keys that are set explicitly stay below: a key set in
	// the second pass must not replace an id that was handed out before)
	arm();
	if (CK(0, nng_id_map_alloc, &map, 1000, 100000, pa->a ? NNG_MAP_RANDOM : 0) != 0) {
		if (!want_pass2()) {
			return;
		}
		begin_pass2();
		if (CK(0, nng_id_map_alloc, &map, 1000, 100000, pa->a ? NNG_MAP_RANDOM : 0) != 0) {
			return;
		}
	}
	for (;;) {
		int base = g_pass == 1 ? 0 : 40;
		for (int i = base; i < base + 40; i++) {
			vals[i] = i;
			if (CK(0, nng_id_set, map, (uint64_t) (i * 7 + 1), &vals[i]) == 0) {
				set_ok[i] = true;
				nset++;
			}
		}
		for (int i = 0; i < 40; i++) {
			vals[80 + nalloc] = 80 + nalloc;
			if (CK(0, nng_id_alloc, map, &id, &vals[80 + nalloc]) == 0) {
				ids[nalloc] = id;
				nalloc++;
			}
		}
		for (int i = 0; i < 80; i++) {
			if (set_ok[i] && nng_id_get(map, (uint64_t) (i * 7 + 1)) != &vals[i]) {
				note_violation("bad-data:id map lost entry %d", i);
				break;
			}
		}
		for (int i = 0; i < nalloc; i++) {
			if (nng_id_get(map, ids[i]) != &vals[80 + i]) {
				note_violation("bad-data:id map lost allocated id");
				break;
			}
		}
		if (!want_pass2()) {
			break;
		}
		begin_pass2();
	}
	for (int i = 0; i < 80; i++) {
		if (set_ok[i]) {
			(void) CK(0, nng_id_remove, map, (uint64_t) (i * 7 + 1));
		}
	}
	nng_id_map_free(map);
}

static void
noop_thread(void *arg)
{
	(void) arg;
}

// aio / synchronisation objects / threads
static void
prog_aio(const parg *pa)
{
	(void) pa;
	arm();
	for (;;) {
		nng_aio    *aio = NULL;
		nng_mtx    *mx  = NULL;
		nng_cv     *cv  = NULL;
		nng_thread *thr = NULL;
		if (CK(0, nng_aio_alloc, &aio, NULL, NULL) == 0) {
			note_call("nng_sleep_aio");
			nng_sleep_aio(5, aio);
			nng_aio_wait(aio);
			(void) ck_("nng_sleep_aio", 0, (int) nng_aio_result(aio));
			nng_aio_free(aio);
		}
		if (CK(0, nng_mtx_alloc, &mx) == 0) {
			if (CK(0, nng_cv_alloc, &cv, mx) == 0) {
				nng_mtx_lock(mx);
				nng_cv_wake(cv);
				nng_mtx_unlock(mx);
				nng_cv_free(cv);
			}
			nng_mtx_free(mx);
		}
		if (CK(0, nng_thread_create, &thr, noop_thread, NULL) == 0) {
			nng_thread_destroy(thr);
		}
		if (!want_pass2()) {
			break;
		}
		begin_pass2();
	}
}

// endpoints created / configured / started separately
static void
prog_ep(const parg *pa)
{
	nng_socket     a, b;
	nng_listener   l = NNG_LISTENER_INITIALIZER;
	nng_dialer     d = NNG_DIALER_INITIALIZER;
	const nng_url *u;
	int            port = 0;
	size_t         z;
	char           durl[64];
	(void) pa;
	open_pair_of(X_PAIR0, &a, &b, false, false);
	arm();
	if (CK(0, nng_listener_create, &l, b, "tcp://127.0.0.1:0") != 0) {
		goto p2;
	}
	(void) CK(0, nng_listener_set_size, l, NNG_OPT_RECVMAXSZ, 100000);
	(void) CK(0, nng_listener_set_bool, l, NNG_OPT_TCP_NODELAY, true);
	(void) CK(0, nng_listener_get_size, l, NNG_OPT_RECVMAXSZ, &z);
	if (CK(A_PORT0, nng_listener_start, l, 0) != 0) {
		goto p2;
	}
	(void) CK(0, nng_listener_get_url, l, &u);
	if (CK(0, nng_listener_get_int, l, NNG_OPT_BOUND_PORT, &port) != 0) {
		goto p2;
	}
	snprintf(durl, sizeof(durl), "tcp://127.0.0.1:%d", port);
	if (CK(0, nng_dialer_create, &d, a, durl) != 0) {
		goto p2;
	}
	(void) CK(0, nng_dialer_set_ms, d, NNG_OPT_RECONNMINT, 10);
	(void) CK(0, nng_dialer_set_size, d, NNG_OPT_RECVMAXSZ, 100000);
	(void) CK(0, nng_dialer_set_bool, d, NNG_OPT_TCP_KEEPALIVE, true);
	(void) CK(0, nng_dialer_get_url, d, &u);
	if (CK(A_CONN, nng_dialer_start, d, NNG_FLAG_NONBLOCK) != 0) {
		goto p2;
	}
	if (!wait_pipes(g_tmo_conn)) {
		note_loss("no-connection");
		goto p2;
	}
	(void) xchg(a, b, 32);
p2:
	if (want_pass2()) {
		begin_pass2();
		pair_pass2(a, b, X_PAIR0);
	}
	if (nng_dialer_id(d) > 0) {
		(void) CK(0, nng_dialer_close, d);
	}
	if (nng_listener_id(l) > 0) {
		(void) CK(0, nng_listener_close, l);
	}
	close_sock(a);
	close_sock(b);
}

// nng_send / nng_recv (buffer copies)
static int
sendrecv_round(c20_link *L)
{
	char   buf[64];
	size_t sz = sizeof(buf);
	int    rv;
	if ((rv = CK(A_TMO | A_CONN, nng_send, L->a, "hello world", 12, 0)) != 0 ||
	    (rv = CK(A_TMO | A_CONN, nng_recv, L->b, buf, &sz, 0)) != 0) {
		return rv;
	}
	if (sz != 12 || memcmp(buf, "hello world", 12) != 0) {
		note_violation("bad-data:nng_recv size %zu", sz);
		return -1;
	}
	sz = sizeof(buf);
	(void) CK(A_AGAIN, nng_recv, L->b, buf, &sz, NNG_FLAG_NONBLOCK);
	return 0;
}

static void
prog_sendrecv(const parg *pa)
{
	c20_link L;
	(void) pa;
	link_open_connected(&L, X_PAIR0, VF_T_INPROC);
	arm();
	(void) sendrecv_round(&L);
	if (want_pass2()) {
		begin_pass2();
		p2_timeouts(L.a);
		p2_timeouts(L.b);
		for (int attempt = 0;; attempt++) {
			g_soft = true;
			drain(L.b);
			int rv = wait_pipes(g_tmo_conn) ? sendrecv_round(&L) : NNG_ETIMEDOUT;
			g_soft = false;
			if (rv <= 0 || !p2_more(attempt)) {
				if (rv > 0) {
					note_wedged("%s", g_last_fail[0] ? g_last_fail : "no-connection");
				}
				break;
			}
		}
	}
	link_close(&L);
}

static void
walk_stats(const nng_stat *st, int depth, int *n)
{
	for (; st != NULL; st = nng_stat_next(st)) {
		(*n)++;
		(void) nng_stat_name(st);
		(void) nng_stat_desc(st);
		if (nng_stat_type(st) == NNG_STAT_STRING) {
			(void) nng_stat_string(st);
		} else {
			(void) nng_stat_value(st);
		}
		if (depth < 8) {
			walk_stats(nng_stat_child(st), depth + 1, n);
		}
	}
}

static void
prog_stats(const parg *pa)
{
	c20_link  L;
	nng_stat *st = NULL;
	link_open_connected(&L, X_PAIR0, pa->a ? VF_T_TCP : VF_T_INPROC);
	arm();
	for (;;) {
		if (CK(0, nng_stats_get, &st) == 0) {
			int n = 0;
			walk_stats(st, 0, &n);
			if (nng_stat_find_socket(st, L.a) == NULL || n < 10) {
				note_violation("bad-data:stats snapshot has %d nodes", n);
			}
			nng_stats_free(st);
		}
		if (!want_pass2()) {
			break;
		}
		begin_pass2();
	}
	link_close(&L);
}

static _Atomic int notify_n[NNG_PIPE_EV_NUM];
static void
notify_cb(nng_pipe p, nng_pipe_ev ev, void *arg)
{
	atomic_fetch_add(&notify_n[ev], 1);
	(void) nng_pipe_id(p);
	pipe_cb(p, ev, arg);
}

static void
prog_notify(const parg *pa)
{
	c20_link L;
	(void) pa;
	memset(&L, 0, sizeof(L));
	L.kind = X_PAIR0;
	L.t    = VF_T_INPROC;
	L.len_ab = L.len_ba = 40;
	snprintf(L.lurl, sizeof(L.lurl), "inproc://c20");
	SETUP(nng_pair0_open, &L.a);
	SETUP(nng_pair0_open, &L.b);
	set_timeouts(L.a);
	set_timeouts(L.b);
	atomic_store(&pc_a, 0);
	atomic_store(&pc_b, 0);
	arm();
	for (int ev = NNG_PIPE_EV_ADD_PRE; ev <= NNG_PIPE_EV_REM_POST; ev++) {
		(void) CK(0, nng_pipe_notify, L.a, (nng_pipe_ev) ev, notify_cb, &pc_a);
		(void) CK(0, nng_pipe_notify, L.b, (nng_pipe_ev) ev, notify_cb, &pc_b);
	}
	if (link_connect(&L) == 0) {
		(void) link_round(&L);
	}
	if (want_pass2()) {
		begin_pass2();
		link_pass2(&L);
	}
	link_close(&L);
}

// ---------------------------------------------------------------- HTTP
static void
http_dyn_handler(nng_http *conn, void *arg, nng_aio *aio)
{
	int    rv;
	void  *body;
	size_t len;
	(void) arg;
	nng_http_get_body(conn, &body, &len);
	// (runs in a library thread, possibly for a request the program has
	// given up already, so "which pass are we in" is not known here: one
	// failed allocation explains one NNG_ENOMEM of one step, not two)
	if ((rv = (int) nng_http_copy_body(conn, body, len)) != 0 ||
	    (rv = (int) nng_http_set_header(conn, "Content-Type", "text/plain")) != 0) {
		if (rv != NNG_ENOMEM) {
			note_violation("bad-rv:http handler step returned %s", errname(rv));
		} else if (atomic_fetch_add(&sh->handler_enomem, 1) >= 1 || !sh->fired) {
			note_violation("enomem-again:http handler step");
		}
		nng_aio_finish(aio, (nng_err) rv);
		return;
	}
	nng_http_set_status(conn, NNG_HTTP_STATUS_OK, "Fine By Me");
	nng_aio_finish(aio, 0);
}

// read an HTTP response from a raw socket until EOF / timeout / complete
// returns bytes read; *status gets the status code (0 = none / malformed)
static long
raw_http_read(int fd, char *buf, size_t cap, int timeout_ms, int *status, bool *complete)
{
	size_t   n   = 0;
	uint64_t end = vf_now_ns() + (uint64_t) timeout_ms * 1000000ULL;
	*status      = 0;
	*complete    = false;
	while (n + 1 < cap) {
		int64_t left = ((int64_t) end - (int64_t) vf_now_ns()) / 1000000;
		if (left <= 0) {
			break;
		}
		struct pollfd pfd = { fd, POLLIN, 0 };
		if (poll(&pfd, 1, (int) left) <= 0) {
			break;
		}
		ssize_t r = read(fd, buf + n, cap - 1 - n);
		if (r <= 0) {
			break;
		}
		n += (size_t) r;
		buf[n] = 0;
		char *hend = strstr(buf, "\r\n\r\n");
		if (hend != NULL) {
			char  *cl   = strcasestr(buf, "Content-Length:");
			size_t want = 0;
			if (cl != NULL && cl < hend) {
				want = (size_t) atol(cl + 15);
			}
			if (n >= (size_t) (hend + 4 - buf) + want) {
				*complete = true;
				break;
			}
		}
	}
	buf[n] = 0;
	if (n >= 12 && !strncmp(buf, "HTTP/1.", 7)) {
		*status = atoi(buf + 9);
	}
	return (long) n;
}

// one request from a raw peer.  pass 1: anything short of the expected
// answer is a tolerated loss; returns true when it was served as expected.
typedef struct {
	const char *path;
	const char *req;
	int         expect;
	bool        added;
	const char *want; // a 2xx/3xx answer must contain this (body or header)
} http_route;

// nr requests, one after the other, on ONE connection (keep-alive)
static bool
raw_http_requests(int port, const http_route *const *rs, int nr, const char *what)
{
	char buf[4096];
	int  status = 0;
	bool complete;
	char why[64];
	long n  = 0;
	bool after_5xx = false;
	int  fd = vf_tcp_connect((uint16_t) port, 1000);
	if (fd < 0) {
		if (errno == EADDRNOTAVAIL || errno == EADDRINUSE) {
			sh->env_skip = 1;
			return false;
		}
		snprintf(why, sizeof(why), "http:connect-refused");
		goto lost;
	}
	for (int i = 0; i < nr; i++) {
		if (i == 1) {
			sh->stage = 1; // the connection has served a request already
		}
		(void) vf_fd_write_all(fd, rs[i]->req, strlen(rs[i]->req), 1000);
		n = raw_http_read(fd, buf, sizeof(buf), g_tmo_io, &status, &complete);
		if (n == 0 || status == 0) {
			break;
		}
		if (after_5xx && complete && status != rs[i]->expect) {
			// The one failure has fired and was answered with a 5xx;
			// the server chose to keep the connection, so the next
			// request on it is served (or the connection is dropped).
			close(fd);
			note_violation("bad-data:http-kept-connection-after-5xx:status %d", status);
			return false;
		}
		if (complete && status >= 500 && status <= 599 && i < nr - 1 && sh->fired && !after_5xx) {
			after_5xx = true;
			continue;
		}
		if (status != rs[i]->expect || !complete) {
			break;
		}
		// A well-formed answer must be the answer: the body (or the
		// Location) of this route, not an empty or an earlier one.  (An
		// error answer without its page is the documented best effort.)
		if (status < 400 && rs[i]->want != NULL && strstr(buf, rs[i]->want) == NULL) {
			close(fd);
			if (getenv("C20_TRACE") != NULL) {
				fprintf(stderr, "[http request %d of %d on one connection: answer (%ld bytes) lacks '%s':\n%s]\n", i + 1,
				    nr, n, rs[i]->want, buf);
			}
			if (after_5xx) {
				note_violation("bad-data:http-kept-connection-after-5xx:wrong-page");
			} else {
				note_violation("bad-data:http answer of %s lacks its %s", rs[i]->path + 1,
				    status >= 300 ? "Location" : "body");
			}
			return false;
		}
		if (i == nr - 1) {
			close(fd);
			if (after_5xx) {
				snprintf(why, sizeof(why), "http:5xx");
				goto lost;
			}
			return true;
		}
	}
	close(fd);
	if (n == 0) {
		snprintf(why, sizeof(why), "http:connection-dropped");
	} else if (status == 0) {
		note_violation("bad-data:%s response is not HTTP", what);
		return false;
	} else if (status >= 500 && status <= 599) {
		snprintf(why, sizeof(why), "http:5xx"); // the server said it could not
	} else if (!complete) {
		snprintf(why, sizeof(why), "http:truncated-response");
	} else {
		note_violation("bad-data:%s status %d", what, status);
		return false;
	}
lost:
	if (g_soft) {
		snprintf(g_last_fail, sizeof(g_last_fail), "%s:%s", what, why);
	} else {
		note_loss(why);
	}
	return false;
}

// pass 2: the same request(s) must be served now
static void
raw_http_requests_p2(int port, const http_route *const *rs, int nr, const char *what)
{
	for (int attempt = 0;; attempt++) {
		g_soft  = true;
		bool ok = raw_http_requests(port, rs, nr, what);
		g_soft  = false;
		if (ok || sh->env_skip || sh->n_note != 0) {
			return;
		}
		if (!p2_more(attempt)) {
			note_wedged("%s", g_last_fail);
			return;
		}
		vf_msleep(20);
	}
}

static const char http_page[] = "<html>static page</html>";
static char       http_dir[64], http_f1[96], http_f2[96], http_longloc[300];

static int
http_add_route(nng_http_server *srv, http_route *r)
{
	nng_http_handler *h = NULL;
	int               rv;
	if (r->added) {
		return 0;
	}
	if (!strcmp(r->path, "/static")) {
		rv = CK(0, nng_http_handler_alloc_static, &h, r->path, http_page, sizeof(http_page) - 1, "text/html");
	} else if (!strcmp(r->path, "/dyn")) {
		rv = CK(0, nng_http_handler_alloc, &h, r->path, http_dyn_handler);
		if (rv == 0) {
			nng_http_handler_set_method(h, "POST");
			nng_http_handler_collect_body(h, true, 1024);
		}
	} else if (!strcmp(r->path, "/file")) {
		rv = CK(0, nng_http_handler_alloc_file, &h, r->path, http_f1);
	} else if (!strcmp(r->path, "/dir")) {
		rv = CK(0, nng_http_handler_alloc_directory, &h, r->path, http_dir);
	} else if (!strcmp(r->path, "/old")) {
		rv = CK(0, nng_http_handler_alloc_redirect, &h, r->path,
		    NNG_HTTP_STATUS_STATUS_MOVED_PERMANENTLY, "/file");
	} else if (!strcmp(r->path, "/old2")) {
		rv = CK(0, nng_http_handler_alloc_redirect, &h, r->path,
		    NNG_HTTP_STATUS_STATUS_MOVED_PERMANENTLY, http_longloc);
	} else {
		return 0; // no handler: served by the error page
	}
	if (rv != 0) {
		return rv;
	}
	if ((rv = CK(0, nng_http_server_add_handler, srv, h)) != 0) {
		nng_http_handler_free(h);
		return rv;
	}
	r->added = true;
	return 0;
}

// pa->a: 0 static/function handlers, 1 file/directory/redirect handlers
static void
prog_http_server(const parg *pa)
{
	nng_url         *url = NULL;
	nng_http_server *srv = NULL;
	int              port = 0;
	bool             started = false, errpage = false;
	http_route       routes0[] = {
                { "/static", "GET /static HTTP/1.1\r\nHost: c20\r\n\r\n", 200, false, http_page },
                { "/dyn", "POST /dyn HTTP/1.1\r\nHost: c20\r\nContent-Length: 5\r\n\r\nhello", 200, false, "\r\n\r\nhello" },
                { "/missing", "GET /missing HTTP/1.1\r\nHost: c20\r\n\r\n", 404, false, NULL },
                { NULL, NULL, 0, false, NULL },
	};
	http_route routes1[] = {
		{ "/file", "GET /file HTTP/1.1\r\nHost: c20\r\n\r\n", 200, false, "\r\n\r\nfile body\n" },
		{ "/dir", "GET /dir/f.txt HTTP/1.1\r\nHost: c20\r\n\r\n", 200, false, "\r\n\r\nfile body\n" },
		{ "/dir-index", "GET /dir/ HTTP/1.1\r\nHost: c20\r\n\r\n", 200, false, "<html>index</html>" },
		{ "/old", "GET /old HTTP/1.1\r\nHost: c20\r\n\r\n", 301, false, "Location: /file\r\n" },
		{ "/old2", "GET /old2 HTTP/1.1\r\nHost: c20\r\n\r\n", 301, false, http_longloc },
		{ NULL, NULL, 0, false, NULL },
	};
	http_route *routes = pa->a ? routes1 : routes0;
	// pa->b: every request is followed by a second one on the same
	// connection (a server connection that is used again after the failure)
	bool keepalive = pa->b != 0;
	if (pa->a) {
		snprintf(http_dir, sizeof(http_dir), "/tmp/c20h-%d", (int) getpid());
		snprintf(http_f1, sizeof(http_f1), "%s/f.txt", http_dir);
		snprintf(http_f2, sizeof(http_f2), "%s/index.html", http_dir);
		memset(http_longloc, 'l', sizeof(http_longloc) - 1);
		http_longloc[0] = '/';
		mkdir(http_dir, 0700);
		FILE *f = fopen(http_f1, "w");
		if (f == NULL) {
			child_harness_fail("cannot create %s", http_f1);
		}
		fputs("file body\n", f);
		fclose(f);
		if ((f = fopen(http_f2, "w")) != NULL) {
			fputs("<html>index</html>\n", f);
			fclose(f);
		}
	}
	SETUP(nng_url_parse, &url, "http://127.0.0.1:0");
	arm();
	for (;;) {
		int rv = 0;
		if (srv == NULL && (rv = CK(0, nng_http_server_hold, &srv, url)) != 0) {
			srv = NULL;
		}
		if (srv != NULL) {
			for (http_route *r = routes; r->path != NULL; r++) {
				if (http_add_route(srv, r) != 0) {
					rv = NNG_ENOMEM;
				}
			}
			if (!errpage) {
				if (CK(0, nng_http_server_set_error_page, srv, NNG_HTTP_STATUS_NOT_FOUND,
				        "<html>nope</html>") == 0) {
					errpage = true;
				} else {
					rv = NNG_ENOMEM;
				}
			}
			// set-up refused cleanly: nothing to serve in this pass
			if (rv == 0 && !started) {
				if ((rv = CK(A_PORT0, nng_http_server_start, srv)) == 0) {
					started = true;
				}
			}
			if (rv == 0 && started && port == 0) {
				rv = CK(0, nng_http_server_get_port, srv, &port);
			}
			if (rv == 0 && port != 0) {
				for (http_route *r = routes; r->path != NULL && !sh->env_skip; r++) {
					const http_route *seq[3] = { r, &routes[0], r };
					int               nr     = 1;
					if (keepalive) {
						// (not after a redirect or an error answer: whatever
						// follows one of those on the same connection is
						// answered with a generated page in place of the
						// handler's - without any failed allocation, so it
						// is not for this check to judge)
						if (r->expect >= 300) {
							continue;
						}
						nr = 3;
					}
					if (g_pass == 1) {
						(void) raw_http_requests(port, seq, nr, r->path + 1);
					} else {
						raw_http_requests_p2(port, seq, nr, r->path + 1);
					}
				}
			}
		}
		if (!want_pass2()) {
			break;
		}
		begin_pass2();
		g_tmo_io = 1500; // per request; they are repeated
	}
	if (srv != NULL) {
		settle();
		if (started) {
			note_call("nng_http_server_stop");
			nng_http_server_stop(srv);
		}
		note_call("nng_http_server_release");
		nng_http_server_release(srv);
	}
	nng_url_free(url);
	if (pa->a) {
		unlink(http_f1);
		unlink(http_f2);
		rmdir(http_dir);
	}
}

// one connect + transact against the raw server; variant: 0 content-length,
// 1 chunked, 2 long URI / long header
static int
http_client_round(nng_http_client *cli, nng_aio *aio, int lfd, int variant)
{
	static char req[32768], longpath[700], longval[9500];
	nng_http   *conn = NULL;
	int         cfd = -1, rv;
	int         cfds[8], ncfd = 0;
	nng_aio_set_timeout(aio, g_tmo_conn);
	note_call("nng_http_client_connect");
	nng_http_client_connect(cli, aio);
	nng_aio_wait(aio);
	if ((rv = ck_("nng_http_client_connect", A_CONN | A_TMO, (int) nng_aio_result(aio))) != 0) {
		goto out;
	}
	conn = nng_aio_get_output(aio, 0);
	if (conn == NULL) {
		note_violation("bad-data:http connect succeeded without a connection");
		rv = -1;
		goto out;
	}
	const char *path = "/thing";
	if (variant == 2) { // URI beyond the inline buffer, head beyond the 8 KB buffer
		memset(longpath, 'p', sizeof(longpath) - 1);
		longpath[0] = '/';
		memset(longval, 'v', sizeof(longval) - 1);
		path = longpath;
	}
	for (int again = 0;; again++) {
		rv = 0;
		if (variant == 2) {
			rv = CK(0, nng_http_set_header, conn, "X-Long", longval);
		}
		if (rv == 0 &&
		    ((rv = CK(0, nng_http_set_uri, conn, path, "a=b")) != 0 ||
		        (rv = CK(0, nng_http_set_header, conn, "X-C20", "yes")) != 0 ||
		        (rv = CK(0, nng_http_add_header, conn, "X-C20", "again")) != 0 ||
		        (rv = CK(0, nng_http_copy_body, conn, "ping", 4)) != 0)) {
		}
		if (rv == 0 || again > 0 || !want_pass2()) {
			break;
		}
		// A step that prepares the request was refused: the application
		// repeats the steps on the SAME connection object (nothing armed
		// any more) and the transaction over it has to work.
		begin_pass2();
		sh->same_obj_retry = 1;
	}
	if (rv != 0) {
		goto out;
	}
	nng_http_set_method(conn, "POST");
	nng_aio_set_timeout(aio, g_tmo_io);
	note_call("nng_http_transact");
	nng_http_transact(conn, aio);
	// raw side: the request arrives on one of the connections in the
	// backlog (those of earlier, given-up attempts may still be there):
	// read the request head + 4 body bytes from whichever carries it
	size_t   n   = 0;
	uint64_t end = vf_now_ns() + (uint64_t) g_tmo_io * 1000000ULL;
	bool     got = false;
	while (!got && vf_now_ns() < end) {
		struct pollfd pfds[9];
		pfds[0].fd     = lfd;
		pfds[0].events = ncfd < 8 ? POLLIN : 0;
		for (int i = 0; i < ncfd; i++) {
			pfds[i + 1].fd     = cfds[i];
			pfds[i + 1].events = POLLIN;
		}
		if (poll(pfds, (nfds_t) ncfd + 1, 20) <= 0) {
			continue;
		}
		if (pfds[0].revents & POLLIN) {
			int fd = vf_tcp_accept(lfd, 0);
			if (fd >= 0) {
				cfds[ncfd++] = fd;
			}
			continue;
		}
		for (int i = 0; i < ncfd; i++) {
			if (!(pfds[i + 1].revents & (POLLIN | POLLHUP | POLLERR))) {
				continue;
			}
			if (cfd != cfds[i]) {
				n = 0; // (only one connection ever carries data)
			}
			ssize_t r = read(cfds[i], req + n, sizeof(req) - 1 - n);
			if (r <= 0) { // a connection that was given up
				close(cfds[i]);
				cfds[i] = cfds[--ncfd];
				if (cfd == cfds[ncfd]) {
					cfd = -1;
				}
				break;
			}
			cfd = cfds[i];
			n += (size_t) r;
			req[n] = 0;
			char *he = strstr(req, "\r\n\r\n");
			if (he != NULL && n >= (size_t) (he + 4 - req) + 4) {
				got = true;
			}
			break;
		}
	}
	if (got) {
		if ((variant != 2 && strncmp(req, "POST /thing?a=b HTTP/1.1\r\n", 26) != 0) ||
		    strncmp(req, "POST /", 6) != 0 || strstr(req, "X-C20: yes") == NULL) {
			note_violation("bad-data:http request on the wire is wrong");
		}
		const char *resp = variant == 1
		    ? "HTTP/1.1 200 OK\r\nTransfer-Encoding: chunked\r\nX-R: 1\r\n\r\n"
		      "3\r\nabc\r\n4\r\ndefg\r\n0\r\n\r\n"
		    : "HTTP/1.1 200 OK\r\nContent-Length: 7\r\nX-R: 1\r\n\r\nabcdefg";
		(void) vf_fd_write_all(cfd, resp, strlen(resp), 1000);
	} else if (n > 0 && !g_soft) {
		note_loss("http:request-truncated");
	}
	nng_aio_wait(aio);
	if (getenv("C20_TRACE") != NULL) {
		fprintf(stderr, "[http round pass %d] got=%d n=%zu transact=%s\n", g_pass, (int) got, n,
		    errname((int) nng_aio_result(aio)));
	}
	if ((rv = ck_("nng_http_transact", A_CONN | A_TMO, (int) nng_aio_result(aio))) == 0) {
		void  *body;
		size_t len;
		nng_http_get_body(conn, &body, &len);
		if (nng_http_get_status(conn) != 200 || len != 7 || memcmp(body, "abcdefg", 7) != 0) {
			note_violation("bad-data:http response status %d len %zu",
			    (int) nng_http_get_status(conn), len);
			rv = -1;
		}
		const char *hv = nng_http_get_header(conn, "X-R");
		if (hv == NULL || strcmp(hv, "1") != 0) {
			note_violation("bad-data:http response header lost");
			rv = -1;
		}
	}
out:
	if (conn != NULL) {
		if (g_pass == 1) {
			settle();
		}
		note_call("nng_http_close");
		nng_http_close(conn);
	}
	for (int i = 0; i < ncfd; i++) {
		close(cfds[i]);
	}
	return rv;
}

// client against a raw server; pa->a: 0 content-length, 1 chunked, 2 long
static void
prog_http_client(const parg *pa)
{
	nng_url         *url = NULL;
	nng_http_client *cli = NULL;
	nng_aio         *aio = NULL;
	uint16_t         port = 0;
	char             ustr[64];
	int              lfd = vf_tcp_listen(&port);
	if (lfd < 0) {
		sh->env_skip = 1; // no ephemeral port left on this machine
		return;
	}
	snprintf(ustr, sizeof(ustr), "http://127.0.0.1:%d/", port);
	SETUP(nng_url_parse, &url, ustr);
	arm();
	for (;;) {
		if (cli == NULL && CK(0, nng_http_client_alloc, &cli, url) != 0) {
			cli = NULL;
		}
		if (aio == NULL && CK(0, nng_aio_alloc, &aio, NULL, NULL) != 0) {
			aio = NULL;
		}
		bool done = false;
		if (cli != NULL && aio != NULL) {
			if (g_pass == 1) {
				// (goes over to pass 2 by itself when a step that
				// prepares the request was refused)
				(void) http_client_round(cli, aio, lfd, pa->a);
			}
			if (g_pass == 2) {
				done = true;
				for (int attempt = 0;; attempt++) {
					g_soft = true;
					int rv = http_client_round(cli, aio, lfd, pa->a);
					g_soft = false;
					if (rv <= 0 || !p2_more(attempt)) {
						if (rv > 0) {
							note_wedged("%s", g_last_fail);
						}
						break;
					}
				}
			}
		}
		if (done || !want_pass2()) {
			break;
		}
		begin_pass2();
	}
	if (aio != NULL) {
		nng_aio_free(aio);
	}
	if (cli != NULL) {
		note_call("nng_http_client_free");
		nng_http_client_free(cli);
	}
	nng_url_free(url);
	close(lfd);
}

// ---------------------------------------------------------------- streams
typedef struct {
	nng_stream_dialer   *d;
	nng_stream_listener *l;
	nng_aio             *daio, *laio, *aio1, *aio2;
	bool                 listening, opts_done;
	char                 uri[96], luri[96];
	int                  kind; // 0 ws, 1 tcp, 2 ipc
	bool                 opts;
} c20_streams;

// connect (dial + accept on the same listener), one message each way, close
static int
stream_round(c20_streams *S)
{
	nng_stream *c1 = NULL, *c2 = NULL;
	nng_iov     iov;
	char        buf1[8], buf2[8];
	int         rv = 0;
	nng_aio_set_timeout(S->daio, g_tmo_conn);
	nng_aio_set_timeout(S->laio, g_tmo_conn);
	nng_aio_set_timeout(S->aio1, g_tmo_io);
	nng_aio_set_timeout(S->aio2, g_tmo_io);
	note_call("nng_stream_dialer_dial");
	nng_stream_dialer_dial(S->d, S->daio);
	note_call("nng_stream_listener_accept");
	nng_stream_listener_accept(S->l, S->laio);
	nng_aio_wait(S->laio);
	nng_aio_wait(S->daio);
	int r1 = ck_("nng_stream_listener_accept", A_CONN | A_TMO, (int) nng_aio_result(S->laio));
	int r2 = ck_("nng_stream_dialer_dial", A_CONN | A_TMO | A_PEER, (int) nng_aio_result(S->daio));
	if (r1 == 0) {
		c1 = nng_aio_get_output(S->laio, 0);
	}
	if (r2 == 0) {
		c2 = nng_aio_get_output(S->daio, 0);
	}
	if (c1 == NULL || c2 == NULL) {
		if ((r1 == 0 && c1 == NULL) || (r2 == 0 && c2 == NULL)) {
			note_violation("bad-data:stream connect succeeded without a stream");
			rv = -1;
		} else {
			rv = r1 ? r1 : r2;
		}
		goto out;
	}
	for (int dir = 0; dir < 2 && rv == 0; dir++) {
		nng_stream *from = dir ? c2 : c1, *to = dir ? c1 : c2;
		memcpy(buf1, dir ? "PONG" : "PING", 5);
		memset(buf2, 0, sizeof(buf2));
		// a byte stream: a send may be partial (ws frame size limit) and
		// the 5 bytes may arrive in pieces
		size_t sent = 0, got = 0;
		int    s1 = 0, s2 = 0;
		while (sent < 5) {
			iov.iov_buf = buf1 + sent;
			iov.iov_len = 5 - sent;
			(void) nng_aio_set_iov(S->aio1, 1, &iov);
			note_call("nng_stream_send");
			nng_stream_send(from, S->aio1);
			nng_aio_wait(S->aio1);
			s1 = ck_("nng_stream_send", A_CONN | A_TMO, (int) nng_aio_result(S->aio1));
			if (s1 != 0) {
				break;
			}
			if (nng_aio_count(S->aio1) == 0 || nng_aio_count(S->aio1) > 5 - sent) {
				note_violation("bad-data:stream send count %zu", nng_aio_count(S->aio1));
				s1 = -1;
				break;
			}
			sent += nng_aio_count(S->aio1);
		}
		if (s1 != 0) {
			rv = s1;
			break;
		}
		while (got < 5) {
			iov.iov_buf = buf2 + got;
			iov.iov_len = 5 - got;
			(void) nng_aio_set_iov(S->aio2, 1, &iov);
			note_call("nng_stream_recv");
			nng_stream_recv(to, S->aio2);
			nng_aio_wait(S->aio2);
			s2 = ck_("nng_stream_recv", A_CONN | A_TMO, (int) nng_aio_result(S->aio2));
			if (s2 != 0) {
				break;
			}
			if (nng_aio_count(S->aio2) == 0 || nng_aio_count(S->aio2) > 5 - got) {
				note_violation("bad-data:stream recv count %zu", nng_aio_count(S->aio2));
				s2 = -1;
				break;
			}
			got += nng_aio_count(S->aio2);
		}
		if (s2 != 0) {
			rv = s2;
		} else if (memcmp(buf1, buf2, 5) != 0) {
			note_violation("bad-data:stream payload differs");
			rv = -1;
		}
	}
out:
	if (g_pass == 1) {
		settle();
	}
	if (c1 != NULL) {
		note_call("nng_stream_close");
		nng_stream_close(c1);
		nng_stream_stop(c1);
		nng_stream_free(c1);
	}
	if (c2 != NULL) {
		note_call("nng_stream_close");
		nng_stream_close(c2);
		nng_stream_stop(c2);
		nng_stream_free(c2);
	}
	return rv;
}

// everything that is not there yet; 0 when a round can be made
static int
stream_setup(c20_streams *S)
{
	int rv, port = 0;
	const char *scheme = S->kind == 0 ? "ws" : "tcp";
	if (S->l == NULL && (rv = CK(0, nng_stream_listener_alloc, &S->l, S->luri)) != 0) {
		S->l = NULL;
		return rv;
	}
	if (!S->listening) {
		if ((rv = CK(S->kind == 2 ? 0 : A_PORT0, nng_stream_listener_listen, S->l)) != 0) {
			return rv;
		}
		S->listening = true;
	}
	if (S->uri[0] == 0) {
		if (S->kind == 2) {
			snprintf(S->uri, sizeof(S->uri), "%s", S->luri);
		} else {
			if ((rv = CK(0, nng_stream_listener_get_int, S->l, NNG_OPT_BOUND_PORT, &port)) != 0) {
				return rv;
			}
			snprintf(S->uri, sizeof(S->uri), "%s://127.0.0.1:%d%s", scheme, port, S->kind == 0 ? "/c20" : "");
		}
	}
	if (S->d == NULL && (rv = CK(0, nng_stream_dialer_alloc, &S->d, S->uri)) != 0) {
		S->d = NULL;
		return rv;
	}
	if (S->opts && !S->opts_done) {
		int e0 = sh->n_enomem + sh->n_wedged;
		(void) CK(0, nng_stream_listener_set_string, S->l, NNG_OPT_WS_PROTOCOL, "c20.proto");
		(void) CK(0, nng_stream_dialer_set_string, S->d, NNG_OPT_WS_PROTOCOL, "c20.proto");
		(void) CK(0, nng_stream_dialer_set_string, S->d, NNG_OPT_WS_HEADER "X-C20", "one");
		(void) CK(0, nng_stream_dialer_set_string, S->d, NNG_OPT_WS_HEADER "X-C20", "two");
		(void) CK(0, nng_stream_listener_set_string, S->l, NNG_OPT_WS_HEADER "X-Srv", "yes");
		(void) CK(0, nng_stream_dialer_set_bool, S->d, NNG_OPT_WS_SEND_TEXT, true);
		(void) CK(0, nng_stream_listener_set_bool, S->l, NNG_OPT_WS_RECV_TEXT, true);
		(void) CK(0, nng_stream_dialer_set_size, S->d, NNG_OPT_WS_SENDMAXFRAME, 3);
		if (sh->n_enomem + sh->n_wedged != e0) {
			return NNG_ENOMEM;
		}
		S->opts_done = true;
	}
	nng_aio **aios[4] = { &S->daio, &S->laio, &S->aio1, &S->aio2 };
	for (int i = 0; i < 4; i++) {
		if (*aios[i] == NULL && (rv = CK(0, nng_aio_alloc, aios[i], NULL, NULL)) != 0) {
			*aios[i] = NULL;
			return rv;
		}
	}
	return 0;
}

// pa->a: 0 = ws://, 1 = tcp://, 2 = ipc://; pa->b: ws options
static void
prog_stream(const parg *pa)
{
	c20_streams S;
	memset(&S, 0, sizeof(S));
	S.kind = pa->a;
	S.opts = pa->b != 0;
	if (pa->a == 2) {
		snprintf(S.luri, sizeof(S.luri), "ipc:///tmp/c20s-%d.sock", (int) getpid());
	} else {
		snprintf(S.luri, sizeof(S.luri), "%s://127.0.0.1:0%s", pa->a == 0 ? "ws" : "tcp", pa->a == 0 ? "/c20" : "");
	}
	arm();
	for (;;) {
		if (stream_setup(&S) == 0) {
			if (g_pass == 1) {
				(void) stream_round(&S);
			} else {
				for (int attempt = 0;; attempt++) {
					g_soft = true;
					int rv = stream_round(&S);
					g_soft = false;
					if (rv <= 0 || !p2_more(attempt)) {
						if (rv > 0) {
							note_wedged("%s", g_last_fail);
						}
						break;
					}
				}
			}
		}
		if (!want_pass2()) {
			break;
		}
		begin_pass2();
	}
	settle();
	if (S.l != NULL) {
		note_call("nng_stream_listener_stop");
		nng_stream_listener_stop(S.l);
	}
	if (S.d != NULL) {
		note_call("nng_stream_dialer_stop");
		nng_stream_dialer_stop(S.d);
	}
	nng_aio *aios[4] = { S.daio, S.laio, S.aio1, S.aio2 };
	for (int i = 0; i < 4; i++) {
		if (aios[i] != NULL) {
			nng_aio_free(aios[i]);
		}
	}
	if (S.l != NULL) {
		note_call("nng_stream_listener_free");
		nng_stream_listener_free(S.l);
	}
	if (S.d != NULL) {
		note_call("nng_stream_dialer_free");
		nng_stream_dialer_free(S.d);
	}
	if (pa->a == 2) {
		unlink(S.luri + 6);
	}
}

// ---------------------------------------------------------------- more programs
// calls whose answer may legitimately be "not supported here"
#define PROBE(fn, ...)                                                  \
	do {                                                            \
		note_call(#fn);                                         \
		int rv_ = (int) (fn)(__VA_ARGS__);                      \
		if (rv_ == NNG_ENOMEM) {                                \
			(void) ck_(#fn, 0, rv_);                        \
		}                                                       \
	} while (0)

// endpoints from parsed URLs
static void
prog_ep_url(const parg *pa)
{
	nng_socket   a, b;
	nng_url     *lu = NULL, *du = NULL;
	nng_listener l = NNG_LISTENER_INITIALIZER, l2 = NNG_LISTENER_INITIALIZER;
	nng_dialer   d = NNG_DIALER_INITIALIZER, d2 = NNG_DIALER_INITIALIZER;
	int          port = 0;
	char         durl[64];
	(void) pa;
	open_pair_of(X_PAIR0, &a, &b, false, false);
	SETUP(nng_url_parse, &lu, "tcp://127.0.0.1:0");
	arm();
	if (CK(A_PORT0, nng_listen_url, b, lu, &l, 0) != 0) {
		goto p2;
	}
	if (CK(0, nng_listener_get_int, l, NNG_OPT_BOUND_PORT, &port) != 0) {
		goto p2;
	}
	snprintf(durl, sizeof(durl), "tcp://127.0.0.1:%d", port);
	if (CK(0, nng_url_parse, &du, durl) != 0) {
		goto p2;
	}
	if (CK(0, nng_dialer_create_url, &d, a, du) == 0) {
		if (CK(A_CONN | A_TMO, nng_dialer_start, d, 0) == 0) {
			if (!wait_pipes(g_tmo_conn)) {
				note_loss("no-connection");
			} else {
				(void) xchg(a, b, 40);
			}
		}
		// the same connection once more, made by nng_dial_url
		(void) CK(0, nng_dialer_close, d);
		for (int i = 0; i < 2000 && (atomic_load(&pc_a) > 0 || atomic_load(&pc_b) > 0); i++) {
			vf_msleep(1);
		}
		if (CK(A_CONN | A_TMO, nng_dial_url, a, du, &d2, 0) == 0) {
			if (!wait_pipes(g_tmo_conn)) {
				note_loss("no-connection");
			} else {
				(void) xchg(b, a, 40);
			}
		}
	}
	// (a second, unused listener made from a URL)
	if (CK(0, nng_listener_create_url, &l2, a, lu) == 0) {
		(void) CK(A_PORT0, nng_listener_start, l2, 0);
	}
p2:
	if (want_pass2()) {
		begin_pass2();
		pair_pass2(a, b, X_PAIR0);
	}
	close_sock(a);
	close_sock(b);
	nng_url_free(lu);
	nng_url_free(du);
}

static void
prog_udp_raw(const parg *pa)
{
	nng_udp     *u1 = NULL, *u2 = NULL;
	nng_aio     *aio1 = NULL, *aio2 = NULL;
	nng_sockaddr sa1, sa2, to, from;
	nng_iov      iov;
	char         msg[] = "datagram", rbuf[64];
	(void) pa;
	memset(&sa1, 0, sizeof(sa1));
	sa1.s_in.sa_family = NNG_AF_INET;
	sa1.s_in.sa_addr   = htonl(0x7f000001);
	sa2                = sa1;
	arm();
	for (;;) {
		if ((u1 != NULL || CK(0, nng_udp_open, &u1, &sa1) == 0) &&
		    (u2 != NULL || CK(0, nng_udp_open, &u2, &sa2) == 0) &&
		    CK(0, nng_udp_sockname, u2, &sa2) == 0 &&
		    (aio1 != NULL || CK(0, nng_aio_alloc, &aio1, NULL, NULL) == 0) &&
		    (aio2 != NULL || CK(0, nng_aio_alloc, &aio2, NULL, NULL) == 0)) {
			for (int attempt = 0;; attempt++) {
				g_soft = g_pass == 2;
				nng_aio_set_timeout(aio1, g_tmo_io);
				nng_aio_set_timeout(aio2, g_tmo_io);
				to          = sa2;
				iov.iov_buf = msg;
				iov.iov_len = sizeof(msg);
				(void) nng_aio_set_iov(aio1, 1, &iov);
				(void) nng_aio_set_input(aio1, 0, &to);
				iov.iov_buf = rbuf;
				iov.iov_len = sizeof(rbuf);
				(void) nng_aio_set_iov(aio2, 1, &iov);
				(void) nng_aio_set_input(aio2, 0, &from);
				note_call("nng_udp_recv");
				nng_udp_recv(u2, aio2);
				note_call("nng_udp_send");
				nng_udp_send(u1, aio1);
				nng_aio_wait(aio1);
				nng_aio_wait(aio2);
				int r1 = ck_("nng_udp_send", A_TMO, (int) nng_aio_result(aio1));
				int r2 = ck_("nng_udp_recv", A_TMO, (int) nng_aio_result(aio2));
				g_soft = false;
				if (r1 == 0 && r2 == 0) {
					if (nng_aio_count(aio2) != sizeof(msg) || memcmp(rbuf, msg, sizeof(msg)) != 0) {
						note_violation("bad-data:udp datagram differs");
					}
					break;
				}
				if (g_pass == 1) {
					break;
				}
				if (!p2_more(attempt)) {
					note_wedged("%s", g_last_fail);
					break;
				}
			}
		}
		if (!want_pass2()) {
			break;
		}
		begin_pass2();
	}
	if (aio1 != NULL) {
		nng_aio_free(aio1);
	}
	if (aio2 != NULL) {
		nng_aio_free(aio2);
	}
	if (u1 != NULL) {
		note_call("nng_udp_close");
		nng_udp_close(u1);
	}
	if (u2 != NULL) {
		note_call("nng_udp_close");
		nng_udp_close(u2);
	}
}

// pub -> sub with two subscribed contexts (the message is duplicated)
static int
sub_ctx_round(nng_socket a, nng_ctx c1, nng_ctx c2)
{
	nng_msg *m   = NULL;
	uint32_t tag = ++g_tag;
	int      rv;
	if ((rv = msg_make(&m, 20, tag)) != 0) {
		return rv;
	}
	if ((rv = CK(A_TMO, nng_sendmsg, a, m, 0)) != 0) {
		nng_msg_free(m);
		return rv;
	}
	int r1 = recv_tagged(recv_ctx, &c1, 20, tag, NULL);
	int r2 = recv_tagged(recv_ctx, &c2, 20, tag, NULL);
	return r1 ? r1 : r2;
}

static void
prog_sub_ctx(const parg *pa)
{
	nng_socket a, b;
	nng_ctx    c1, c2;
	(void) pa;
	SETUP(nng_pub0_open, &a);
	SETUP(nng_sub0_open, &b);
	set_timeouts(a);
	set_timeouts(b);
	watch_pipes(a, &pc_a);
	watch_pipes(b, &pc_b);
	SETUP(nng_ctx_open, &c1, b);
	SETUP(nng_ctx_open, &c2, b);
	SETUP(nng_sub0_ctx_subscribe, c1, "", 0);
	SETUP(nng_sub0_ctx_subscribe, c2, "", 0);
	SETUP(nng_ctx_set_ms, c1, NNG_OPT_RECVTIMEO, g_tmo_io);
	SETUP(nng_ctx_set_ms, c2, NNG_OPT_RECVTIMEO, g_tmo_io);
	connect_inproc(a, b, "inproc://c20");
	arm();
	(void) sub_ctx_round(a, c1, c2);
	if (want_pass2()) {
		begin_pass2();
		p2_timeouts(a);
		(void) nng_ctx_set_ms(c1, NNG_OPT_RECVTIMEO, g_tmo_io);
		(void) nng_ctx_set_ms(c2, NNG_OPT_RECVTIMEO, g_tmo_io);
		for (int attempt = 0;; attempt++) {
			g_soft = true;
			int rv = wait_pipes(g_tmo_conn) ? sub_ctx_round(a, c1, c2) : NNG_ETIMEDOUT;
			g_soft = false;
			if (rv <= 0 || !p2_more(attempt)) {
				if (rv > 0) {
					note_wedged("%s", g_last_fail[0] ? g_last_fail : "no-connection");
				}
				break;
			}
		}
	}
	(void) CK(0, nng_ctx_close, c1);
	(void) CK(0, nng_ctx_close, c2);
	close_sock(a);
	close_sock(b);
}

// one sender, two receivers (shared message bodies): 0 bus, 1 pub/sub, 2 survey
static int
fanout_round(int kind, nng_socket a, nng_socket b, nng_socket c)
{
	nng_msg *m   = NULL;
	uint32_t tag = ++g_tag;
	int      rv, first = 0;
	if ((rv = msg_make(&m, 30, tag)) != 0) {
		return rv;
	}
	if ((rv = CK(A_TMO, nng_sendmsg, a, m, 0)) != 0) {
		nng_msg_free(m);
		return rv;
	}
	for (int i = 0; i < 2; i++) {
		nng_socket r = i ? c : b;
		m            = NULL;
		if ((rv = recv_tagged(recv_sock, &r, 30, tag, &m)) != 0) {
			first = first ? first : rv;
			continue;
		}
		if (kind == 2) {
			if ((rv = CK(A_TMO, nng_sendmsg, r, m, 0)) != 0) {
				nng_msg_free(m);
				first = first ? first : rv;
			}
		} else {
			nng_msg_free(m);
		}
	}
	if (kind == 2) {
		for (int i = 0; i < 2 && first == 0; i++) {
			if ((rv = recv_tagged(recv_sock, &a, 30, tag, NULL)) != 0) {
				first = rv;
			}
		}
	}
	return first;
}

static void
prog_fanout(const parg *pa)
{
	nng_socket a, b, c;
	int        kind = pa->a;
	switch (kind) {
	case 0:
		SETUP(nng_bus0_open, &a);
		SETUP(nng_bus0_open, &b);
		SETUP(nng_bus0_open, &c);
		break;
	case 1:
		SETUP(nng_pub0_open, &a);
		SETUP(nng_sub0_open, &b);
		SETUP(nng_sub0_open, &c);
		SETUP(nng_sub0_socket_subscribe, b, "", 0);
		SETUP(nng_sub0_socket_subscribe, c, "", 0);
		break;
	default:
		SETUP(nng_surveyor0_open, &a);
		SETUP(nng_respondent0_open, &b);
		SETUP(nng_respondent0_open, &c);
		SETUP(nng_socket_set_ms, a, NNG_OPT_SURVEYOR_SURVEYTIME, 2 * g_tmo_io);
		break;
	}
	set_timeouts(a);
	set_timeouts(b);
	set_timeouts(c);
	watch_pipes(a, &pc_a);
	watch_pipes(b, &pc_b);
	watch_pipes(c, &pc_c);
	SETUP(nng_listen, a, "inproc://c20", NULL, 0);
	SETUP(nng_dial, b, "inproc://c20", NULL, 0);
	SETUP(nng_dial, c, "inproc://c20", NULL, 0);
	if (!wait_counts(&pc_a, 2, &pc_b, 1, 5000) || !wait_counts(&pc_a, 2, &pc_c, 1, 5000)) {
		child_harness_fail("setup: fan-out connections missing");
	}
	arm();
	(void) fanout_round(kind, a, b, c);
	if (want_pass2()) {
		begin_pass2();
		p2_timeouts(a);
		p2_timeouts(b);
		p2_timeouts(c);
		if (kind == 2) {
			(void) nng_socket_set_ms(a, NNG_OPT_SURVEYOR_SURVEYTIME, 2 * g_tmo_io);
		}
		for (int attempt = 0;; attempt++) {
			g_soft = true;
			drain(b);
			drain(c);
			drain(a);
			int rv = (wait_counts(&pc_a, 2, &pc_b, 1, g_tmo_conn) && wait_counts(&pc_a, 2, &pc_c, 1, g_tmo_conn))
			    ? fanout_round(kind, a, b, c)
			    : NNG_ETIMEDOUT;
			g_soft = false;
			if (rv <= 0 || !p2_more(attempt)) {
				if (rv > 0) {
					note_wedged("%s", g_last_fail[0] ? g_last_fail : "no-connection");
				}
				break;
			}
		}
	}
	close_sock(a);
	close_sock(b);
	close_sock(c);
}

static nng_pipe last_pipe;

// pipe properties on a live connection
static void
prog_pipe_props(const parg *pa)
{
	c20_link     L;
	char        *s = NULL;
	const char  *cs;
	nng_sockaddr sa;
	bool         bv;
	link_open_connected(&L, X_PAIR0, pa->a);
	{ // find a's pipe: one exchange tells us
		nng_msg *m = NULL;
		SETUP(nng_msg_alloc, &m, 8);
		SETUP(nng_sendmsg, L.b, m, 0);
		m = NULL;
		SETUP(nng_recvmsg, L.a, &m, 0);
		last_pipe = nng_msg_get_pipe(m);
		nng_msg_free(m);
	}
	arm();
	for (;;) {
		PROBE(nng_pipe_get_strdup, last_pipe, NNG_OPT_WS_REQUEST_URI, &s);
		if (s != NULL) {
			nng_strfree(s);
			s = NULL;
		}
		PROBE(nng_pipe_get_strdup, last_pipe, NNG_OPT_WS_HEADER "Host", &s);
		if (s != NULL) {
			nng_strfree(s);
			s = NULL;
		}
		PROBE(nng_pipe_get_string, last_pipe, NNG_OPT_WS_HEADER "Upgrade", &cs);
		PROBE(nng_pipe_get_scheme, last_pipe, &cs);
		PROBE(nng_pipe_peer_addr, last_pipe, &sa);
		PROBE(nng_pipe_self_addr, last_pipe, &sa);
		PROBE(nng_pipe_get_bool, last_pipe, NNG_OPT_TCP_NODELAY, &bv);
		if (g_pass == 1) {
			(void) link_round(&L);
		}
		if (!want_pass2()) {
			break;
		}
		begin_pass2();
		link_pass2(&L);
	}
	settle();
	PROBE(nng_pipe_close, last_pipe); // ENOENT when the connection was the loss
	link_close(&L);
}

// ---------------------------------------------------------------- timers and background work
// REQ resends after RESENDTIME: the REP side drops the first copy and
// answers the second one.
static void
prog_req_resend(const parg *pa)
{
	c20_link L;
	nng_msg *m = NULL, *r = NULL;
	uint32_t tag;
	link_open_connected(&L, X_REQREP, pa->a);
	SETUP(nng_socket_set_ms, L.a, NNG_OPT_REQ_RESENDTIME, 60);
	(void) nng_socket_set_ms(L.a, NNG_OPT_REQ_RESENDTICK, 10);
	arm();
	tag = ++g_tag;
	if (msg_make(&m, 24, tag) != 0) {
		goto p2;
	}
	if (CK(A_TMO | A_CONN, nng_sendmsg, L.a, m, 0) != 0) {
		nng_msg_free(m);
		goto p2;
	}
	if (recv_tagged(recv_sock, &L.b, 24, tag, NULL) != 0) { // first copy: ignored
		goto p2;
	}
	sh->stage = 1; // what follows is driven by the resend timer
	if (recv_tagged(recv_sock, &L.b, 24, tag, &r) != 0) { // the resent copy
		goto p2;
	}
	if (CK(A_TMO | A_CONN, nng_sendmsg, L.b, r, 0) != 0) {
		nng_msg_free(r);
		goto p2;
	}
	(void) recv_tagged(recv_sock, &L.a, 24, tag, NULL);
p2:
	if (want_pass2()) {
		begin_pass2();
		(void) nng_socket_set_ms(L.a, NNG_OPT_REQ_RESENDTIME, 60000);
		link_pass2(&L);
	}
	link_close(&L);
}

// the listener goes away and comes back: the dialer reconnects by itself
static void
prog_redial(const parg *pa)
{
	c20_link L;
	link_open_connected(&L, X_PAIR0, pa->a);
	L.len_ab = L.len_ba = 40;
	arm();
	if (CK(0, nng_listener_close, L.l) == 0) {
		L.listening = L.have_l = false;
	}
	// the old pipes must go before the new ones can be told apart
	for (int i = 0; i < 2000 && (atomic_load(&pc_a) > 0 || atomic_load(&pc_b) > 0); i++) {
		vf_msleep(1);
	}
	sh->stage = 1; // what follows is driven by the dialer's reconnect timer
	if (link_listen(&L) == 0) {
		if (!wait_pipes(g_tmo_conn)) {
			note_loss("no-connection");
		} else {
			(void) link_round(&L);
		}
	}
	if (want_pass2()) {
		begin_pass2();
		link_pass2(&L);
	}
	link_close(&L);
}

// a second dialer arrives at a listener that already serves one
static void
prog_two_accept(const parg *pa)
{
	c20_link   L;
	nng_socket a2;
	nng_dialer d2 = NNG_DIALER_INITIALIZER;
	bool       dialed2 = false;
	link_open_connected(&L, X_REQREP, pa->a);
	SETUP(nng_req0_open, &a2);
	set_timeouts(a2);
	watch_pipes(a2, &pc_c);
	if (round_trip(X_REQREP, L.a, L.b, 32, 32) != 0) {
		child_harness_fail("setup: first client cannot talk");
	}
	sh->stage = 1; // the listener is past its first accept
	arm();
	for (;;) {
		for (int attempt = 0;; attempt++) {
			g_soft = g_pass == 2;
			int rv = 0;
			if (!dialed2) {
				if ((rv = CK(A_CONN | A_TMO | A_PEER, nng_dial, a2, L.durl, &d2, 0)) == 0) {
					dialed2 = true;
				}
			}
			if (rv == 0 && !wait_counts(&pc_c, 1, &pc_b, 2, g_tmo_conn)) {
				if (g_soft) {
					snprintf(g_last_fail, sizeof(g_last_fail), "no-connection");
				} else {
					note_loss("no-connection");
				}
				rv = NNG_ETIMEDOUT;
			}
			if (rv == 0) {
				if (g_pass == 2) {
					drain(L.b);
				}
				rv = round_trip(X_REQREP, a2, L.b, 32, 32);
			}
			if (rv == 0) {
				rv = round_trip(X_REQREP, L.a, L.b, 32, 32); // the first one still works
			}
			g_soft = false;
			if (g_pass == 1 || rv <= 0) {
				break;
			}
			if (!p2_more(attempt)) {
				note_wedged("%s", g_last_fail);
				break;
			}
		}
		if (!want_pass2()) {
			break;
		}
		begin_pass2();
		p2_timeouts(L.a);
		p2_timeouts(L.b);
		p2_timeouts(a2);
	}
	close_sock(a2);
	link_close(&L);
}

// a survey expires (timer), the next one is answered
static void
prog_survey_expiry(const parg *pa)
{
	c20_link L;
	nng_msg *m = NULL;
	uint32_t tag;
	(void) pa;
	link_open_connected(&L, X_SURVEY, VF_T_INPROC);
	SETUP(nng_socket_set_ms, L.a, NNG_OPT_SURVEYOR_SURVEYTIME, 60);
	arm();
	tag = ++g_tag;
	if (msg_make(&m, 16, tag) == 0) {
		if (CK(A_TMO | A_CONN, nng_sendmsg, L.a, m, 0) != 0) {
			nng_msg_free(m);
		} else {
			int rv;
			(void) recv_tagged(recv_sock, &L.b, 16, tag, NULL); // nobody answers
			sh->stage = 1; // expiry of the survey and what comes after it
			note_call("nng_recvmsg");
			m  = NULL;
			rv = nng_recvmsg(L.a, &m, 0);
			if (rv == 0) {
				nng_msg_free(m);
				note_violation("bad-data:a survey nobody answered got a response");
			} else if (rv != NNG_ETIMEDOUT && rv != NNG_ESTATE) {
				// (ESTATE: the survey had already expired)
				(void) ck_("nng_recvmsg", 0, rv);
			}
			(void) CK(0, nng_socket_set_ms, L.a, NNG_OPT_SURVEYOR_SURVEYTIME, g_tmo_io);
			(void) link_round(&L); // the next survey
		}
	}
	if (want_pass2()) {
		begin_pass2();
		(void) CK(0, nng_socket_set_ms, L.a, NNG_OPT_SURVEYOR_SURVEYTIME, g_tmo_io);
		link_pass2(&L);
	}
	link_close(&L);
}

// ---------------------------------------------------------------- second audit
// Buffer options of a socket that is connected (pub, bus: two pipes) and
// whose queues hold messages.  A refused resize must leave the socket usable
// (no lock kept, the other pipes served) and every queued message in place.
enum { OL_PUB = 0, OL_BUS, OL_SUB, OL_PUSH, OL_PAIR1, OL_POLY };

static void
prog_opts_live(const parg *pa)
{
	static const int xk[] = { X_PUBSUB, X_BUS, X_PUBSUB, X_PIPELINE, X_PAIR1, X_POLY };
	c20_link         L;
	nng_socket       c = NNG_SOCKET_INITIALIZER;
	int              kind = pa->a, nq = kind == OL_PUSH ? 4 : 3, nrecv = 0, nsets = 0;
	bool             three = kind == OL_PUB || kind == OL_BUS;
	uint32_t         tags[4];
	nng_socket       from, recvs[2];
	struct {
		nng_socket  s;
		const char *opt;
		int         v1, v2;
	} sets[3];
	link_open(&L, xk[kind], VF_T_INPROC, false);
	L.len_ab = L.len_ba = 40;
	SETUP(nng_listen, L.b, L.lurl, &L.l, 0);
	SETUP(nng_dial, L.a, L.lurl, &L.d, 0);
	snprintf(L.durl, sizeof(L.durl), "%s", L.lurl);
	L.have_l = L.listening = L.dialed = true;
	if (!wait_pipes(5000)) {
		child_harness_fail("setup: no inproc connection");
	}
	if (three) { // a second peer of a
		if (kind == OL_PUB) {
			SETUP(nng_sub0_open, &c);
			SETUP(nng_sub0_socket_subscribe, c, "", 0);
		} else {
			SETUP(nng_bus0_open, &c);
		}
		set_timeouts(c);
		watch_pipes(c, &pc_c);
		SETUP(nng_listen, c, "inproc://c20-c", NULL, 0);
		SETUP(nng_dial, L.a, "inproc://c20-c", NULL, 0);
		if (!wait_counts(&pc_a, 2, &pc_c, 1, 5000)) {
			child_harness_fail("setup: no second inproc connection");
		}
	}
	// who sends the messages that will sit in the queues, who holds them,
	// which options are set while they sit there
	from = L.a;
	switch (kind) {
	case OL_PUB:
		recvs[nrecv++] = L.b;
		recvs[nrecv++] = c;
		SETUP(nng_socket_set_int, L.a, NNG_OPT_SENDBUF, 4);
		sets[nsets].s = L.a, sets[nsets].opt = NNG_OPT_SENDBUF, sets[nsets].v1 = 8, sets[nsets++].v2 = 32;
		break;
	case OL_BUS:
		from           = L.b;
		recvs[nrecv++] = L.a;
		SETUP(nng_socket_set_int, L.b, NNG_OPT_SENDBUF, 8);
		sets[nsets].s = L.a, sets[nsets].opt = NNG_OPT_RECVBUF, sets[nsets].v1 = 8, sets[nsets++].v2 = 32;
		sets[nsets].s = L.a, sets[nsets].opt = NNG_OPT_SENDBUF, sets[nsets].v1 = 8, sets[nsets++].v2 = 32;
		break;
	case OL_SUB:
		recvs[nrecv++] = L.b;
		SETUP(nng_socket_set_int, L.a, NNG_OPT_SENDBUF, 8);
		sets[nsets].s = L.b, sets[nsets].opt = NNG_OPT_RECVBUF, sets[nsets].v1 = 8, sets[nsets++].v2 = 256;
		break;
	case OL_PUSH:
		recvs[nrecv++] = L.b;
		SETUP(nng_socket_set_int, L.a, NNG_OPT_SENDBUF, 4);
		sets[nsets].s = L.a, sets[nsets].opt = NNG_OPT_SENDBUF, sets[nsets].v1 = 8, sets[nsets++].v2 = 32;
		break;
	default: // pair1 (own queues), pair1 poly (the socket's message queues)
		recvs[nrecv++] = L.b;
		SETUP(nng_socket_set_int, L.a, NNG_OPT_SENDBUF, 2);
		SETUP(nng_socket_set_int, L.b, NNG_OPT_RECVBUF, 4);
		sets[nsets].s = L.b, sets[nsets].opt = NNG_OPT_RECVBUF, sets[nsets].v1 = 8, sets[nsets++].v2 = 32;
		sets[nsets].s = L.a, sets[nsets].opt = NNG_OPT_SENDBUF, sets[nsets].v1 = 8, sets[nsets++].v2 = 32;
		break;
	}
	for (int i = 0; i < nq; i++) {
		nng_msg *m = NULL;
		uint8_t  body[16];
		tags[i] = ++g_tag;
		vf_fill(body, sizeof(body), tags[i]);
		memcpy(body, &tags[i], 4);
		SETUP(nng_msg_alloc, &m, 0);
		SETUP(nng_msg_append, m, body, sizeof(body));
		SETUP(nng_sendmsg, from, m, 0);
		(void) vf_quiesce(1, 300); // as far as it goes before the next one
	}
	(void) vf_quiesce(2, 300);
	g_in_set_thr = pthread_self();
	arm();
	for (int i = 0; i < nsets; i++) {
		g_in_set = 1;
		(void) CK(0, nng_socket_set_int, sets[i].s, sets[i].opt, sets[i].v1);
		g_in_set = 0;
	}
	for (int i = 0; i < nsets; i++) {
		g_in_set = 1;
		(void) CK(0, nng_socket_set_int, sets[i].s, sets[i].opt, sets[i].v2);
		g_in_set = 0;
	}
	// When the failure fired inside a setter, nothing else was refused:
	// every message that was queued must still come out, in order.  (Not
	// armed any more: a receive that fails here is not the one loss that a
	// failed allocation may cost.  A failure that fired elsewhere - a
	// message still on its way on a busy machine - may have cost one.)
	bool strict = sh->fired_in_set != 0;
	if (want_pass2()) {
		begin_pass2();
		p2_timeouts(L.a);
		p2_timeouts(L.b);
		if (three) {
			p2_timeouts(c);
		}
	} else {
		disarm();
	}
	for (int r = 0; r < nrecv; r++) {
		for (int i = 0; i < nq; i++) {
			nng_msg *m = NULL;
			note_call("nng_recvmsg");
			int rv = (int) nng_recvmsg(recvs[r], &m, 0);
			if (rv != 0) {
				if (g_pass == 2 && strict) {
					note_wedged("queued-message-gone:%s (message %d of %d)", errname(rv), i + 1, nq);
				} else {
					note_loss("queued-message-not-delivered");
				}
				break;
			}
			int mc = strict ? msg_check(m, 16, tags[i]) : 0;
			if (mc == 1) {
				note_violation("bad-data:queue order changed by setting the buffer option");
			}
			nng_msg_free(m);
		}
	}
	if (g_pass == 2) {
		int iv;
		for (int i = 0; i < nsets; i++) {
			(void) CK(0, nng_socket_set_int, sets[i].s, sets[i].opt, sets[i].v2);
			iv = -1;
			if (CK(0, nng_socket_get_int, sets[i].s, sets[i].opt, &iv) == 0 && iv != sets[i].v2) {
				note_wedged("%s reads back %d after it was set to %d", sets[i].opt, iv, sets[i].v2);
			}
		}
		link_pass2(&L);
		if (three && sh->n_wedged == 0) { // the second pipe of a is served too
			for (int attempt = 0;; attempt++) {
				g_soft         = true;
				g_last_fail[0] = 0;
				int rv = wait_counts(&pc_a, 2, &pc_c, 1, g_tmo_conn) ? xchg(L.a, c, 40) : NNG_ETIMEDOUT;
				g_soft = false;
				if (rv <= 0 || !p2_more(attempt)) {
					if (rv > 0) {
						note_wedged("second-pipe:%s", g_last_fail[0] ? g_last_fail : "no-connection");
					}
					break;
				}
			}
		}
	}
	if (three) {
		close_sock(c);
	}
	link_close(&L);
}

// Several messages back to back: all but the first are sent (and the
// failure may fire) while earlier ones are still queued or in flight.
// 0: all n arrived intact and in order.
static int
burst_round(nng_socket from, nng_socket to, int n)
{
	uint32_t first = g_tag + 1, last = g_tag;
	int      sent = 0, got = 0, rv = 0, rv2 = 0;
	for (int i = 0; i < n; i++) {
		nng_msg *m = NULL;
		if ((rv = msg_make(&m, 48, ++g_tag)) != 0) {
			break;
		}
		if ((rv = CK(A_TMO | A_CONN, nng_sendmsg, from, m, 0)) != 0) {
			nng_msg_free(m);
			break;
		}
		sent++;
		sh->stage = 1;
	}
	for (int i = 0; got < sent && i < 200; i++) {
		nng_msg *m   = NULL;
		uint32_t tag = 0;
		if ((rv2 = recv_sock(&to, &m)) != 0) {
			break;
		}
		if (nng_msg_len(m) >= 4) {
			memcpy(&tag, nng_msg_body(m), 4);
		}
		if (tag != 0 && tag < first && tag + 64 > first) {
			nng_msg_free(m); // of an earlier, given-up round
			continue;
		}
		if (tag < first || tag > g_tag) {
			note_violation("bad-data:burst message with a tag that was never sent");
		} else if (tag <= last) {
			note_violation("bad-data:burst message duplicated or out of order");
		} else {
			(void) msg_check(m, 48, tag);
			last = tag;
		}
		nng_msg_free(m);
		got++;
	}
	if (rv == 0 && rv2 == 0 && sent == n && got == n && last == g_tag) {
		return 0;
	}
	if (rv == 0 && rv2 == 0) {
		if (g_soft) {
			snprintf(g_last_fail, sizeof(g_last_fail), "burst:%d-of-%d-arrived", got, n);
		} else {
			note_loss("burst:not-all-arrived");
		}
	}
	return rv ? rv : rv2 ? rv2 : NNG_ETIMEDOUT;
}

static void
prog_burst(const parg *pa)
{
	c20_link L;
	link_open_connected(&L, pa->a, VF_T_INPROC);
	(void) nng_socket_set_int(L.a, NNG_OPT_SENDBUF, 4);
	(void) nng_socket_set_int(L.b, NNG_OPT_RECVBUF, 4);
	arm();
	(void) burst_round(L.a, L.b, 3);
	if (want_pass2()) {
		begin_pass2();
		p2_timeouts(L.a);
		p2_timeouts(L.b);
		for (int attempt = 0;; attempt++) {
			g_soft         = true;
			g_last_fail[0] = 0;
			drain(L.b);
			int rv = wait_pipes(g_tmo_conn) ? burst_round(L.a, L.b, 3) : NNG_ETIMEDOUT;
			g_soft = false;
			if (rv <= 0 || !p2_more(attempt)) {
				if (rv > 0) {
					note_wedged("%s", g_last_fail[0] ? g_last_fail : "no-connection");
				}
				break;
			}
		}
	}
	link_close(&L);
}

// two REQ contexts with a request outstanding each, one REP socket
static int
req2_round(c20_link *L, nng_ctx c1, nng_ctx c2)
{
	nng_msg *m = NULL;
	uint32_t t1 = ++g_tag, t2 = ++g_tag;
	int      rv, r1, r2;
	if ((rv = msg_make(&m, 24, t1)) != 0) {
		return rv;
	}
	if ((rv = CK(A_TMO | A_CONN, nng_ctx_sendmsg, c1, m, 0)) != 0) {
		nng_msg_free(m);
		return rv;
	}
	sh->stage = 1; // from here on a request is outstanding on another context
	if ((rv = msg_make(&m, 24, t2)) != 0) {
		return rv;
	}
	if ((rv = CK(A_TMO | A_CONN, nng_ctx_sendmsg, c2, m, 0)) != 0) {
		nng_msg_free(m);
		return rv;
	}
	for (int k = 0, i = 0; k < 2 && i < 64; i++) {
		uint32_t tag = 0;
		m            = NULL;
		if ((rv = recv_sock(&L->b, &m)) != 0) {
			return rv;
		}
		if (nng_msg_len(m) >= 4) {
			memcpy(&tag, nng_msg_body(m), 4);
		}
		if (tag != t1 && tag != t2) {
			if (!(tag != 0 && tag < t1 && tag + 64 > t1)) {
				note_violation("bad-data:request with a tag that was never sent");
			}
			nng_msg_free(m); // (of an earlier, given-up round: not answered)
			continue;
		}
		(void) msg_check(m, 24, tag);
		if ((rv = CK(A_TMO | A_CONN, nng_sendmsg, L->b, m, 0)) != 0) {
			nng_msg_free(m);
			return rv;
		}
		k++;
	}
	// each context gets the reply to ITS request
	r1 = recv_tagged(recv_ctx, &c1, 24, t1, NULL);
	r2 = recv_tagged(recv_ctx, &c2, 24, t2, NULL);
	return r1 ? r1 : r2;
}

static void
prog_req2(const parg *pa)
{
	c20_link L;
	nng_ctx  c1, c2;
	(void) pa;
	link_open_connected(&L, X_REQREP, VF_T_INPROC);
	SETUP(nng_ctx_open, &c1, L.a);
	SETUP(nng_ctx_open, &c2, L.a);
	SETUP(nng_ctx_set_ms, c1, NNG_OPT_RECVTIMEO, g_tmo_io);
	SETUP(nng_ctx_set_ms, c2, NNG_OPT_RECVTIMEO, g_tmo_io);
	SETUP(nng_ctx_set_ms, c1, NNG_OPT_SENDTIMEO, g_tmo_io);
	SETUP(nng_ctx_set_ms, c2, NNG_OPT_SENDTIMEO, g_tmo_io);
	arm();
	(void) req2_round(&L, c1, c2);
	if (want_pass2()) {
		begin_pass2();
		p2_timeouts(L.a);
		p2_timeouts(L.b);
		(void) nng_ctx_set_ms(c1, NNG_OPT_RECVTIMEO, g_tmo_io);
		(void) nng_ctx_set_ms(c2, NNG_OPT_RECVTIMEO, g_tmo_io);
		(void) nng_ctx_set_ms(c1, NNG_OPT_SENDTIMEO, g_tmo_io);
		(void) nng_ctx_set_ms(c2, NNG_OPT_SENDTIMEO, g_tmo_io);
		for (int attempt = 0;; attempt++) {
			g_soft         = true;
			g_last_fail[0] = 0;
			drain(L.b);
			int rv = wait_pipes(g_tmo_conn) ? req2_round(&L, c1, c2) : NNG_ETIMEDOUT;
			g_soft = false;
			if (rv <= 0 || !p2_more(attempt)) {
				if (rv > 0) {
					note_wedged("%s", g_last_fail[0] ? g_last_fail : "no-connection");
				}
				break;
			}
		}
	}
	(void) CK(0, nng_ctx_close, c1);
	(void) CK(0, nng_ctx_close, c2);
	link_close(&L);
}

// ======================================================================
// program table
// ======================================================================
#define PF_ARM_INIT 1u // the failpoint is armed before nng_init
#define PF_NTH 2u      // single-threaded: also plain k-th enumeration
#define PF_QUICK 4u    // (unused) historical
#define PF_THOROUGH 8u // only in the thorough tier (outside the required corpus)
#define PF_THR 16u     // creates threads while armed: also fail the k-th thread creation
typedef struct {
	char     name[40];
	void (*fn)(const parg *);
	parg     arg;
	unsigned flags;
} c20_prog;

#define MAX_PROGS 192
static c20_prog progs[MAX_PROGS];
static int      n_progs;

static void
add_prog(unsigned flags, void (*fn)(const parg *), int a, int b, const char *s, const char *fmt, ...)
{
	va_list ap;
	if (n_progs >= MAX_PROGS) {
		vf_harness_fail("too many programs");
	}
	c20_prog *p = &progs[n_progs++];
	va_start(ap, fmt);
	vsnprintf(p->name, sizeof(p->name), fmt, ap);
	va_end(ap);
	p->fn    = fn;
	p->arg.a = a;
	p->arg.b = b;
	p->arg.s = s;
	p->flags = flags;
}

// The order is part of the case numbering: append only.
static void
build_progs(void)
{
	add_prog(PF_ARM_INIT | PF_NTH | PF_QUICK | PF_THR, prog_init, 0, 0, NULL, "init");
	for (int i = 0; i < vf_nprotos; i++) {
		add_prog(PF_QUICK, prog_open, i, 0, NULL, "open-%s", vf_protos[i].name);
	}
	for (int i = 0; i < vf_nprotos; i++) {
		add_prog(0, prog_open, i, 1, NULL, "open-raw-%s", vf_protos[i].name);
	}
	add_prog(0, prog_open_poly, 0, 0, NULL, "open-pair1poly");
	for (int i = 0; i < vf_nprotos; i++) {
		const char *n = vf_protos[i].name;
		if (!strcmp(n, "req") || !strcmp(n, "rep") || !strcmp(n, "sub") ||
		    !strcmp(n, "surveyor") || !strcmp(n, "respondent")) {
			add_prog(PF_QUICK, prog_ctx, i, 0, NULL, "ctx-%s", n);
		}
	}
	for (int t = 0; t < VF_T_N; t++) {
		add_prog(PF_QUICK, prog_tran, t, 0, NULL, "tran-%s", vf_tran_names[t]);
	}
	add_prog(0, prog_tran, VF_T_TCP, 0, "localhost", "tran-tcp-byname");
	add_prog(0, prog_tran, VF_T_TCP, 1, NULL, "tran-tcp-reqrep");
	for (int k = 0; k < X_N; k++) {
		add_prog(PF_QUICK, prog_xchg, k, 0, NULL, "xchg-%s", x_names[k]);
	}
	add_prog(PF_QUICK, prog_ctx_xchg, X_REQREP, 0, NULL, "ctxx-reqrep");
	add_prog(0, prog_ctx_xchg, X_SURVEY, 0, NULL, "ctxx-survey");
	for (int i = 0; i < vf_nprotos; i++) {
		const char *n  = vf_protos[i].name;
		bool        qk = !strcmp(n, "pair0") || !strcmp(n, "sub") || !strcmp(n, "req");
		add_prog(qk ? PF_QUICK : 0, prog_opts, i, 0, NULL, "opts-%s", n);
	}
	add_prog(0, prog_opts, 4, 1, NULL, "opts-raw-req");
	add_prog(0, prog_opts, 10, 1, NULL, "opts-raw-bus");
	add_prog(PF_QUICK, prog_resize, 0, 0, NULL, "resize");
	add_prog(PF_QUICK, prog_device, X_PAIR0, 0, NULL, "device-pair0");
	add_prog(PF_QUICK, prog_device, X_REQREP, 0, NULL, "device-reqrep");
	add_prog(PF_NTH | PF_QUICK, prog_url, 0, 0, NULL, "url");
	add_prog(PF_NTH | PF_QUICK, prog_msg, 0, 0, NULL, "msg");
	add_prog(PF_NTH | PF_QUICK, prog_idmap, 0, 0, NULL, "idmap");
	add_prog(PF_NTH, prog_idmap, 1, 0, NULL, "idmap-random");
	add_prog(PF_QUICK | PF_THR, prog_aio, 0, 0, NULL, "aio-sync-thread");
	add_prog(PF_QUICK, prog_ep, 0, 0, NULL, "endpoints");
	add_prog(PF_QUICK, prog_sendrecv, 0, 0, NULL, "send-recv-buf");
	add_prog(PF_QUICK, prog_stats, 0, 0, NULL, "stats");
	add_prog(PF_QUICK, prog_notify, 0, 0, NULL, "pipe-notify");
	add_prog(PF_QUICK, prog_http_server, 0, 0, NULL, "http-server");
	add_prog(PF_QUICK, prog_http_client, 0, 0, NULL, "http-client");
	add_prog(0, prog_http_client, 1, 0, NULL, "http-client-chunked");
	add_prog(PF_QUICK, prog_stream, 0, 0, NULL, "stream-ws");
	add_prog(0, prog_stream, 1, 0, NULL, "stream-tcp");
	add_prog(0, prog_stream, 2, 0, NULL, "stream-ipc");
	add_prog(0, prog_stream, 0, 1, NULL, "stream-ws-opts");
	add_prog(PF_THOROUGH, prog_tran, VF_T_N, 0, NULL, "tran-udp");
	add_prog(0, prog_http_server, 1, 0, NULL, "http-server-files");
	add_prog(0, prog_ep_url, 0, 0, NULL, "endpoints-url");
	add_prog(PF_THOROUGH, prog_udp_raw, 0, 0, NULL, "udp-raw");
	add_prog(0, prog_sub_ctx, 0, 0, NULL, "sub-two-ctx");
	add_prog(0, prog_fanout, 0, 0, NULL, "fanout-bus");
	add_prog(0, prog_fanout, 1, 0, NULL, "fanout-pubsub");
	add_prog(0, prog_fanout, 2, 0, NULL, "fanout-survey");
	add_prog(0, prog_pipe_props, VF_T_TCP, 0, NULL, "pipe-props-tcp");
	add_prog(0, prog_pipe_props, VF_T_WS, 0, NULL, "pipe-props-ws");
	add_prog(0, prog_stats, 1, 0, NULL, "stats-tcp");
	for (int k = 0; k < X_N; k++) {
		add_prog(0, prog_conn, k, 0, NULL, "conn-%s", x_names[k]);
	}
	for (int k = 0; k < X_POLY; k++) {
		add_prog(0, prog_conn, k, 1, NULL, "conn-raw-%s", x_names[k]);
	}
	add_prog(0, prog_http_client, 2, 0, NULL, "http-client-long");
	// timer / background driven paths
	add_prog(0, prog_req_resend, VF_T_INPROC, 0, NULL, "req-resend-inproc");
	add_prog(0, prog_req_resend, VF_T_TCP, 0, NULL, "req-resend-tcp");
	add_prog(0, prog_redial, VF_T_INPROC, 0, NULL, "redial-inproc");
	add_prog(0, prog_redial, VF_T_IPC, 0, NULL, "redial-ipc");
	add_prog(0, prog_redial, VF_T_TCP, 0, NULL, "redial-tcp");
	add_prog(0, prog_two_accept, VF_T_INPROC, 0, NULL, "second-accept-inproc");
	add_prog(0, prog_two_accept, VF_T_TCP, 0, NULL, "second-accept-tcp");
	add_prog(0, prog_survey_expiry, 0, 0, NULL, "survey-expiry");
	// second audit: nng_init with several threads per array (partial unwind)
	add_prog(PF_ARM_INIT | PF_NTH | PF_THR, prog_init, 322, 4, NULL, "init-3-2-2");
	// ... options of connected sockets with loaded queues
	add_prog(0, prog_opts_live, OL_PUB, 0, NULL, "opts-live-pub");
	add_prog(0, prog_opts_live, OL_BUS, 0, NULL, "opts-live-bus");
	add_prog(0, prog_opts_live, OL_SUB, 0, NULL, "opts-live-sub");
	add_prog(0, prog_opts_live, OL_PUSH, 0, NULL, "opts-live-push");
	add_prog(0, prog_opts_live, OL_PAIR1, 0, NULL, "opts-live-pair1");
	add_prog(0, prog_opts_live, OL_POLY, 0, NULL, "opts-live-pair1poly");
	// ... a failure that does not hit the first message of a fresh connection
	add_prog(0, prog_burst, X_PAIR0, 0, NULL, "burst-pair0");
	add_prog(0, prog_burst, X_PAIR1, 0, NULL, "burst-pair1");
	add_prog(0, prog_burst, X_PIPELINE, 0, NULL, "burst-pipeline");
	add_prog(0, prog_burst, X_PUBSUB, 0, NULL, "burst-pubsub");
	add_prog(0, prog_burst, X_BUS, 0, NULL, "burst-bus");
	add_prog(0, prog_req2, 0, 0, NULL, "burst-req-two-ctx");
	add_prog(0, prog_tran, VF_T_WS, 2, NULL, "tran-ws-frames");
	add_prog(0, prog_http_server, 0, 1, NULL, "http-server-keepalive");
	add_prog(0, prog_http_server, 1, 1, NULL, "http-server-files-keepalive");
}

// ======================================================================
// the child
// ======================================================================
typedef struct {
	int      kind; // M_PROFILE, M_SITE, M_NTH
	int      prog;
	uint64_t hash;
	long     j;
} c20_case;

static void
leak_check(void)
{
	pthread_mutex_lock(&al_mtx);
	sh->leak_blocks = al_live_blocks;
	sh->leak_bytes  = al_live_bytes;
	for (c20_blk *b = al_head.next; b != &al_head; b = b->next) {
		if (sh->n_leaks < 8) {
			int i              = sh->n_leaks++;
			sh->leaks[i].size  = b->size;
			sh->leaks[i].nf    = al_sites[b->site].nf;
			memcpy(sh->leaks[i].fr, al_sites[b->site].fr, sizeof(sh->leaks[i].fr));
		}
	}
	// forget them, so that the follow-up is judged on its own
	al_head.next = al_head.prev = &al_head;
	al_live_blocks = al_live_bytes = 0;
	pthread_mutex_unlock(&al_mtx);
}

#define FSTEP(fn, ...)                                                   \
	do {                                                             \
		snprintf(sh->cur_call, sizeof(sh->cur_call), "follow-up:%s", #fn); \
		int rv_ = (int) (fn)(__VA_ARGS__);                       \
		if (rv_ != 0) {                                          \
			sh->follow_rv = rv_;                             \
			snprintf(sh->follow_step, sizeof(sh->follow_step), "%s", #fn); \
			return;                                          \
		}                                                        \
	} while (0)

// A plain scenario on a fresh library instance must work afterwards.
static void
followup(void)
{
	nng_socket a, b;
	nng_msg   *m = NULL;
	FSTEP(c20_nng_init);
	FSTEP(nng_pair0_open, &a);
	FSTEP(nng_pair0_open, &b);
	FSTEP(nng_socket_set_ms, a, NNG_OPT_SENDTIMEO, 5000);
	FSTEP(nng_socket_set_ms, b, NNG_OPT_RECVTIMEO, 5000);
	FSTEP(nng_listen, b, "inproc://c20", NULL, 0);
	FSTEP(nng_dial, a, "inproc://c20", NULL, 0);
	FSTEP(nng_msg_alloc, &m, 16);
	FSTEP(nng_sendmsg, a, m, 0);
	m = NULL;
	FSTEP(nng_recvmsg, b, &m, 0);
	nng_msg_free(m);
	FSTEP(nng_socket_close, a);
	FSTEP(nng_socket_close, b);
	snprintf(sh->cur_call, sizeof(sh->cur_call), "follow-up:nng_fini");
	nng_fini();
	pthread_mutex_lock(&al_mtx);
	long live = al_live_blocks;
	pthread_mutex_unlock(&al_mtx);
	if (live != 0) {
		sh->follow_rv = -1;
		snprintf(sh->follow_step, sizeof(sh->follow_step), "leak-%ld-blocks", live);
	}
}

static void
child_main(const c20_case *c)
{
	const c20_prog *p = &progs[c->prog];
	// debugging aid: C20_PT=site,permille,min_us,max_us delays a named
	// perturbation point of the library inside every child
	const char *pt = getenv("C20_PT");
	if (pt != NULL) {
		int a = 0, b = 0, lo = 0, hi = 0;
		if (sscanf(pt, "%d,%d,%d,%d", &a, &b, &lo, &hi) == 4) {
			vf_pt_target(a, b, lo, hi);
		}
	}
	al_mode           = c->kind;
	al_target         = c->hash;
	al_j              = c->j;
	if (p->fn == prog_init && p->arg.a != 0) {
		// init-E-P-R: arrays of several expire / poller / resolver threads
		// (the follow-up initialises the library in the same shape)
		g_expire_threads   = p->arg.a / 100;
		g_poller_threads   = p->arg.a / 10 % 10;
		g_resolver_threads = p->arg.a % 10;
		g_task_threads     = p->arg.b;
	}
	fd_snapshot(g_fd_before);
	if (p->flags & PF_ARM_INIT) {
		arm();
	}
	sh->phase = PH_INIT;
	note_call("nng_init");
	int rv = c20_nng_init();
	if (p->flags & PF_ARM_INIT) {
		(void) ck_("nng_init", 0, rv);
	} else if (rv != 0) {
		child_harness_fail("unarmed nng_init: %s", nng_strerror(rv));
	}
	if (rv == 0) {
		sh->phase = PH_PROG;
		p->fn(&p->arg);
		sh->phase = PH_FINI;
		note_call("nng_fini");
		nng_fini();
	}
	disarm();
	// an invariant hook of the library that fired in this child: its V line
	// dies with the child's output buffer, so it travels in the shared page
	if (vf_violations() > 0) {
		sh->hook_viol = vf_violations();
		snprintf(sh->hook_key, sizeof(sh->hook_key), "%s", vf_last_violation_key());
	}
	sh->phase = PH_LEAK;
	leak_check();
	fd_balance();
	pthread_mutex_lock(&al_mtx);
	sh->armed_total = al_armed_total;
	sh->thr_total   = al_thr_count;
	if (c->kind == M_PROFILE) {
		sh->nsites = 0;
		for (int i = 0; i < al_nsites; i++) {
			if (al_sites[i].count > 0) {
				sh->sites[sh->nsites++] = al_sites[i];
			}
		}
	}
	pthread_mutex_unlock(&al_mtx);
	if (c->kind != M_PROFILE && sh->fired) {
		sh->phase = PH_FOLLOW;
		al_mode   = M_OFF;
		followup();
	}
	sh->phase = PH_DONE;
}

// ======================================================================
// the parent: symbolisation of sites, running a child, reading its remains
// ======================================================================
static bool
in_list(const char *s, const char *const *list)
{
	for (; *list != NULL; list++) {
		if (!strcmp(s, *list)) {
			return true;
		}
	}
	return false;
}

// pure allocation wrappers: never the "site"
static const char *const wrap1[] = { "nni_alloc", "nni_zalloc", "nni_strdup", "nng_alloc",
	"nng_strdup", "nni_asprintf", "nni_strndup", NULL };
// generic constructors: the site is named "<ctor><<caller>"
static const char *const wrap2[] = { "nni_aio_alloc", "nng_aio_alloc", "nni_msg_alloc",
	"nng_msg_alloc", "nni_msg_dup", "nng_msg_dup", "nni_chunk_grow", "nni_chunk_dup",
	"nni_chunk_append", "nni_chunk_insert", "nni_msg_append", "nni_msg_insert",
	"nni_msg_header_append", "nni_msg_header_insert", "nni_msg_realloc", "nni_msg_reserve",
	"nni_id_map_init", "id_map_register", "id_resize", "id_map_alloc", "nni_id_set", "nni_id_alloc",
	"nni_id_alloc32", "nni_lmq_init", "nni_lmq_resize", "nni_msgq_init", "nni_msgq_resize",
	"nni_pollable_alloc", "nni_pollable_getfd", "nni_plat_pipe_open", "nni_thr_init",
	"nni_plat_thr_init", "nni_list_node_alloc", "nni_stat_add", "nni_url_parse",
	"nni_url_parse_inline", "nni_url_parse_inline_inner", "nni_url_clone", "nni_url_clone_inline", NULL };

// the function that "owns" an allocation site
static void
site_fn(const uint64_t *fr, int nf, char *out, size_t sz)
{
	char nm[96];
	out[0] = 0;
	int i  = 0;
	for (; i < nf; i++) {
		sym_name(fr[i] - 1, nm, sizeof(nm));
		if (!in_list(nm, wrap1)) {
			break;
		}
	}
	if (i >= nf) {
		snprintf(out, sz, "?");
		return;
	}
	if (!g_last_lib && i > 0) {
		// the application called the public wrapper itself (nng_alloc ...)
		sym_name(fr[i - 1] - 1, nm, sizeof(nm));
		snprintf(out, sz, "%s", nm);
		return;
	}
	size_t n = (size_t) snprintf(out, sz, "%s", nm);
	// through generic constructors up to the first specific caller
	while (in_list(nm, wrap2) && i + 1 < nf && n + 2 < sz) {
		i++;
		sym_name(fr[i] - 1, nm, sizeof(nm));
		if (!g_last_lib) {
			break; // called straight from the application
		}
		if (in_list(nm, wrap2)) {
			continue; // collapse chains of generic helpers
		}
		n += (size_t) snprintf(out + n, sz - n, "<%s", nm);
		break;
	}
}

static void
site_desc(const uint64_t *fr, int nf, char *out, size_t sz)
{
	size_t n = 0;
	out[0]   = 0;
	for (int i = 0; i < nf && i < C20_HF && n + 2 < sz; i++) {
		char nm[96];
		sym_name(fr[i] - 1, nm, sizeof(nm));
		n += (size_t) snprintf(out + n, sz - n, "%s%s", i ? "<" : "", nm);
	}
}

static void
slug(char *s, size_t max)
{
	size_t o = 0;
	bool   hex = false;
	for (size_t i = 0; s[i] != 0 && o + 1 < max; i++) {
		char c = s[i];
		if (c == '0' && s[i + 1] == 'x') {
			hex = true;
			s[o++] = 'P';
			i++;
			continue;
		}
		if (hex && ((c >= '0' && c <= '9') || (c >= 'a' && c <= 'f'))) {
			continue;
		}
		hex = false;
		if (c >= '0' && c <= '9') {
			if (o == 0 || s[o - 1] != 'N') {
				s[o++] = 'N';
			}
			continue;
		}
		if (c == ' ' || c == '\t' || c == '/') {
			c = '_';
		}
		if (c == '\'' || c == '"' || c == '\n') {
			continue;
		}
		s[o++] = c;
	}
	s[o] = 0;
}

// functions that are never "where it went wrong"
static const char *const skip_where[] = { "nni_free", "nni_strfree", "nng_free", "nng_strfree",
	"nni_panic", "nni_show_backtrace", "nni_plat_abort", "nni_pthread_mutex_lock",
	"nni_pthread_mutex_unlock", "nni_plat_mtx_lock", "nni_plat_mtx_unlock", "nni_mtx_lock",
	"nni_mtx_unlock", "nni_plat_cv_wait", "nni_plat_cv_until", "nni_cv_wait", "nni_cv_until",
	"nni_pthread_cond_wait", "nni_plat_cv_wake", "nni_cv_wake", "nni_println", "nni_plat_printf",
	"nni_verif_pt", "nni_verif_ev", "nni_verif_fail", "nni_plat_println", NULL };

// innermost library function of a sanitizer stack / panic backtrace that
// starts at 'p'; stops at the first empty line.
static bool g_stack_sync; // the stack belongs to the thread running the program

static bool
first_lib_frame(const char *p, char *out, size_t sz)
{
	int  lines = 0;
	bool found = false;
	g_stack_sync = false;
	while (*p != 0 && lines < 60) {
		const char *eol = strchr(p, '\n');
		size_t      len = eol ? (size_t) (eol - p) : strlen(p);
		char        ln[512];
		if (len >= sizeof(ln)) {
			len = sizeof(ln) - 1;
		}
		memcpy(ln, p, len);
		ln[len] = 0;
		p       = eol ? eol + 1 : p + len;
		lines++;
		const char *q = ln;
		while (*q == ' ') {
			q++;
		}
		if (*q == 0 && lines > 1) {
			break; // end of this stack
		}
		uint64_t addr = 0;
		if (*q == '#') { // sanitizer frame: #N 0xADDR in fn path
			const char *x = strstr(q, " 0x");
			if (x != NULL) {
				addr = strtoull(x + 1, NULL, 16);
			}
		} else { // backtrace_symbols: path(sym+0xoff) [0xADDR]
			const char *x = strstr(q, "[0x");
			if (x != NULL) {
				addr = strtoull(x + 1, NULL, 16);
			} else if (lines > 4 && ln[0] == 0) {
				break;
			} else {
				continue;
			}
		}
		if (addr == 0) {
			continue;
		}
		char nm[96];
		if (!sym_name(addr - g_bias - 1, nm, sizeof(nm))) {
			continue;
		}
		if (!found && g_last_lib && !in_list(nm, skip_where)) {
			snprintf(out, sz, "%s", nm);
			found = true;
		}
		if (!strncmp(nm, "prog_", 5) || !strcmp(nm, "child_main") || !strcmp(nm, "zygote_run") ||
		    !strcmp(nm, "zygote_start") || !strcmp(nm, "main") || !strcmp(nm, "xchg") ||
		    !strcmp(nm, "close_sock") || !strcmp(nm, "c20_nng_init")) {
			g_stack_sync = true;
			break;
		}
	}
	return found;
}

// Derive <failure kind>@<where> from what the child left on stderr.
static bool g_crash_sync;

static void
crash_kind(const char *err, int status, char *kind, size_t ksz, char *where, size_t wsz)
{
	const char *p;
	kind[0] = where[0] = 0;
	g_crash_sync = false;
	if ((p = strstr(err, "ERROR: AddressSanitizer: ")) != NULL) {
		char tok[64];
		int  n = 0;
		p += 25;
		while (p[n] != 0 && p[n] != ' ' && p[n] != ':' && p[n] != '\n' && n < 60) {
			tok[n] = p[n];
			n++;
		}
		tok[n] = 0;
		if (!strcmp(tok, "attempting")) { // "attempting double-free on ..."
			p += n + 1;
			n = 0;
			while (p[n] != 0 && p[n] != ' ' && p[n] != ':' && p[n] != '\n' && n < 60) {
				tok[n] = p[n];
				n++;
			}
			tok[n] = 0;
			if (!strcmp(tok, "free")) {
				snprintf(tok, sizeof(tok), "bad-free");
			}
		}
		const char *stack = strstr(p, "\n    #0");
		bool        null  = !strcmp(tok, "SEGV") && strstr(p, "zero page") != NULL;
		if (null) {
			snprintf(kind, ksz, "null-deref");
		} else {
			snprintf(kind, ksz, "asan-%s", tok);
		}
		if (stack == NULL || !first_lib_frame(stack + 1, where, wsz)) {
			snprintf(where, wsz, "?");
		}
		g_crash_sync = g_stack_sync;
		return;
	}
	if ((p = strstr(err, ": runtime error: ")) != NULL) {
		char msg[96];
		snprintf(msg, sizeof(msg), "%s", p + 17);
		char *nl = strchr(msg, '\n');
		if (nl != NULL) {
			*nl = 0;
		}
		char *ty = strstr(msg, " of type"); // keep the class, not the type
		if (ty != NULL) {
			*ty = 0;
		}
		slug(msg, 48);
		if (strstr(msg, "null_pointer") != NULL) {
			snprintf(kind, ksz, "null-deref");
		} else {
			snprintf(kind, ksz, "ubsan-%s", msg);
		}
		const char *stack = strstr(p, "\n    #0");
		if (stack == NULL || !first_lib_frame(stack + 1, where, wsz)) {
			snprintf(where, wsz, "?");
		}
		g_crash_sync = g_stack_sync;
		return;
	}
	p = err;
	while ((p = strstr(p, "panic: ")) != NULL) {
		if (p == err || p[-1] == '\n') {
			break;
		}
		p++;
	}
	if (p != NULL) {
		char msg[100];
		snprintf(msg, sizeof(msg), "%s", p + 7);
		char *nl = strchr(msg, '\n');
		if (nl != NULL) {
			*nl = 0;
		}
		// NNI_ASSERT: "file: line: assert err: expr"
		char *src = strstr(msg, "/src/");
		if (src != NULL) {
			memmove(msg, src + 5, strlen(src + 5) + 1);
		}
		// drop the line number of "file: line: assert err: expr"
		char *c1 = strstr(msg, ": ");
		if (c1 != NULL && c1[2] >= '0' && c1[2] <= '9') {
			char *c2 = strstr(c1 + 2, ": ");
			if (c2 != NULL) {
				memmove(c1, c2, strlen(c2) + 1);
			}
		}
		for (char *q = msg; *q; q++) {
			if (*q == ' ' || *q == '/') {
				*q = '_';
			}
		}
		msg[60] = 0;
		snprintf(kind, ksz, "panic:%s", msg);
		const char *nl2 = strchr(p, '\n');
		if (nl2 == NULL || !first_lib_frame(nl2 + 1, where, wsz)) {
			snprintf(where, wsz, "?");
		}
		g_crash_sync = g_stack_sync;
		return;
	}
	if (WIFSIGNALED(status)) {
		snprintf(kind, ksz, "signal-%d", WTERMSIG(status));
	} else {
		snprintf(kind, ksz, "exit-%d", WEXITSTATUS(status));
	}
	snprintf(where, wsz, "during:%s", sh->cur_call);
}

// key of a hang from "thread apply all bt" output
static const char *const idle_fns[] = { "nni_taskq_thread", "nni_aio_expire_loop", "reap_worker",
	"nni_posix_poll_thr", "nni_epoll_thr", "resolv_worker", "nni_thr_wrap", "nni_plat_thr_main",
	"poll_thr", "nni_poll_thr", NULL };

static bool
is_lib_path(const char *path)
{
	return (strstr(path, "/src/core/") || strstr(path, "/src/sp/") ||
	           strstr(path, "/src/platform/") || strstr(path, "/src/supplemental/") ||
	           strstr(path, "/src/nng.c") || strstr(path, "/src/nng_legacy.c")) &&
	    strstr(path, "libsanitizer") == NULL;
}

static void
hang_where(const char *stacks, char *out, size_t sz)
{
	char        fns[8][64];
	int         nf = 0;
	const char *p  = stacks;
	bool        thread_done = true;
	while (*p != 0) {
		const char *eol = strchr(p, '\n');
		size_t      len = eol ? (size_t) (eol - p) : strlen(p);
		char        ln[600];
		if (len >= sizeof(ln)) {
			len = sizeof(ln) - 1;
		}
		memcpy(ln, p, len);
		ln[len] = 0;
		p       = eol ? eol + 1 : p + len;
		if (!strncmp(ln, "Thread ", 7)) {
			thread_done = false;
			continue;
		}
		if (thread_done || ln[0] != '#') {
			continue;
		}
		// "#3  0x... in fn (args) at path:line"
		char *at = strstr(ln, " at ");
		if (at == NULL || !is_lib_path(at + 4)) {
			continue;
		}
		char *q = strstr(ln, " in ");
		q       = q ? q + 4 : strchr(ln, ' ');
		while (q != NULL && *q == ' ') {
			q++;
		}
		if (q == NULL) {
			continue;
		}
		char fn[64];
		int  n = 0;
		while (q[n] != 0 && q[n] != ' ' && q[n] != '(' && n < 62) {
			fn[n] = q[n];
			n++;
		}
		fn[n] = 0;
		if (in_list(fn, skip_where)) {
			continue;
		}
		thread_done = true; // innermost meaningful frame of this thread
		if (in_list(fn, idle_fns)) {
			continue;
		}
		bool dup = false;
		for (int i = 0; i < nf; i++) {
			dup = dup || !strcmp(fns[i], fn);
		}
		if (!dup && nf < 8) {
			snprintf(fns[nf++], 64, "%s", fn);
		}
	}
	// sort, take 3
	for (int i = 0; i < nf; i++) {
		for (int k = i + 1; k < nf; k++) {
			if (strcmp(fns[k], fns[i]) < 0) {
				char t[64];
				memcpy(t, fns[i], 64);
				memcpy(fns[i], fns[k], 64);
				memcpy(fns[k], t, 64);
			}
		}
	}
	size_t o = 0;
	out[0]   = 0;
	for (int i = 0; i < nf && i < 3; i++) {
		o += (size_t) snprintf(out + o, sz - o, "%s%s", i ? "~" : "", fns[i]);
	}
	if (nf == 0) {
		snprintf(out, sz, "during:%s", sh->cur_call);
	}
}

enum { R_DONE = 0, R_HARNESS, R_CRASH, R_TIMEOUT };

// Children are forked by a single-threaded "zygote" that is itself forked
// before vf_init starts the watchdog thread: forking a multi-threaded ASan
// process can leave an allocator mutex locked in the child for ever.
typedef struct {
	c20_case c;
	int      timeout_s;
	int      want_stacks;
	int      tmo_io, tmo_conn, task_threads, p2_scale;
} zy_req;
typedef struct {
	int res;
	int status;
} zy_rep;

static int   g_errfd = -1;
static char  g_err[65536];
static char *g_stacks; // shared
#define STACKS_SZ 262144
static int   g_status;
static int   g_zy_fd = -1;

static void
zygote_run(const zy_req *rq, zy_rep *rp)
{
	const c20_case *c = &rq->c;
	g_tmo_io          = rq->tmo_io;
	g_tmo_conn        = rq->tmo_conn;
	g_task_threads    = rq->task_threads;
	g_p2_scale        = rq->p2_scale > 0 ? rq->p2_scale : 1;
	if (ftruncate(g_errfd, 0) != 0 || lseek(g_errfd, 0, SEEK_SET) != 0) {
		_exit(9);
	}
	memset(sh, 0, offsetof(c20_shrec, sites));
	g_stacks[0] = 0;
	pid_t pid   = fork();
	if (pid < 0) {
		_exit(9);
	}
	if (pid == 0) {
		prctl(PR_SET_PDEATHSIG, SIGKILL);
		signal(SIGABRT, SIG_DFL);
		if (getenv("C20_TRACE") == NULL) { // debugging aid: see the child's output
			dup2(g_errfd, 1);
			dup2(g_errfd, 2);
		}
		child_main(c);
		_exit(0);
	}
	uint64_t end = vf_now_ns() + (uint64_t) rq->timeout_s * 1000000000ULL;
	int      st  = 0;
	bool     tmo = false;
	for (;;) {
		pid_t w = waitpid(pid, &st, WNOHANG);
		if (w == pid) {
			break;
		}
		if (w < 0 && errno != EINTR) {
			_exit(9);
		}
		if (vf_now_ns() > end) {
			tmo = true;
			break;
		}
		vf_usleep(400);
	}
	if (tmo) {
		if (rq->want_stacks) {
			char cmd[200];
			snprintf(cmd, sizeof(cmd),
			    "gdb -q -batch -p %d -ex 'thread apply all bt 16' 2>/dev/null", (int) pid);
			FILE *f = popen(cmd, "r");
			if (f != NULL) {
				size_t n = fread(g_stacks, 1, STACKS_SZ - 1, f);
				g_stacks[n] = 0;
				pclose(f);
			}
		}
		kill(pid, SIGKILL);
		while (waitpid(pid, &st, 0) < 0 && errno == EINTR) {
		}
	}
	{ // a child that died leaves its ipc sockets / http files behind
		char path[96];
		snprintf(path, sizeof(path), "/tmp/c20-%d.sock", (int) pid);
		unlink(path);
		snprintf(path, sizeof(path), "/tmp/c20s-%d.sock", (int) pid);
		unlink(path);
		snprintf(path, sizeof(path), "/tmp/c20h-%d/f.txt", (int) pid);
		unlink(path);
		snprintf(path, sizeof(path), "/tmp/c20h-%d/index.html", (int) pid);
		unlink(path);
		snprintf(path, sizeof(path), "/tmp/c20h-%d", (int) pid);
		rmdir(path);
	}
	rp->status = st;
	if (tmo) {
		rp->res = R_TIMEOUT;
	} else if (WIFEXITED(st) && WEXITSTATUS(st) == 0 && sh->phase == PH_DONE) {
		rp->res = R_DONE;
	} else if (WIFEXITED(st) && WEXITSTATUS(st) == 3 && sh->harness_msg[0] != 0) {
		rp->res = R_HARNESS;
	} else {
		rp->res = R_CRASH;
	}
}

// called before vf_init, while this process has a single thread
static void
zygote_start(void)
{
	int sv[2];
	sh = mmap(NULL, sizeof(c20_shrec), PROT_READ | PROT_WRITE, MAP_SHARED | MAP_ANONYMOUS, -1, 0);
	g_stacks = mmap(NULL, STACKS_SZ, PROT_READ | PROT_WRITE, MAP_SHARED | MAP_ANONYMOUS, -1, 0);
	g_errfd  = memfd_create("c20-err", MFD_CLOEXEC);
	if (sh == MAP_FAILED || g_stacks == MAP_FAILED || g_errfd < 0 ||
	    socketpair(AF_UNIX, SOCK_STREAM | SOCK_CLOEXEC, 0, sv) != 0) {
		fprintf(stderr, "c20: cannot set up the zygote: %s\n", strerror(errno));
		exit(2);
	}
	// nni_panic prints with printf: the message must survive abort()
	setvbuf(stdout, NULL, _IONBF, 0);
	fflush(NULL);
	pid_t pid = fork();
	if (pid < 0) {
		perror("fork");
		exit(2);
	}
	if (pid != 0) {
		close(sv[1]);
		g_zy_fd = sv[0];
		return;
	}
	close(sv[0]);
	prctl(PR_SET_PDEATHSIG, SIGKILL);
	signal(SIGPIPE, SIG_IGN);
	for (;;) {
		zy_req  rq;
		zy_rep  rp;
		ssize_t n = read(sv[1], &rq, sizeof(rq));
		if (n != (ssize_t) sizeof(rq)) {
			_exit(0);
		}
		zygote_run(&rq, &rp);
		if (write(sv[1], &rp, sizeof(rp)) != (ssize_t) sizeof(rp)) {
			_exit(0);
		}
	}
}

static int
run_child(const c20_case *c, int timeout_s, bool want_stacks)
{
	zy_req rq;
	zy_rep rp;
	memset(&rq, 0, sizeof(rq));
	rq.c            = *c;
	rq.timeout_s    = timeout_s;
	rq.want_stacks  = want_stacks;
	rq.tmo_io       = g_tmo_io;
	rq.tmo_conn     = g_tmo_conn;
	rq.task_threads = g_task_threads;
	rq.p2_scale     = g_p2_scale;
	g_err[0]        = 0;
	if (write(g_zy_fd, &rq, sizeof(rq)) != (ssize_t) sizeof(rq)) {
		vf_harness_fail("zygote: write failed: %s", strerror(errno));
	}
	ssize_t n;
	while ((n = read(g_zy_fd, &rp, sizeof(rp))) < 0 && errno == EINTR) {
	}
	if (n != (ssize_t) sizeof(rp)) {
		vf_harness_fail("zygote died");
	}
	g_status = rp.status;
	n        = pread(g_errfd, g_err, sizeof(g_err) - 1, 0);
	g_err[n > 0 ? n : 0] = 0;
	return rp.res;
}

// ======================================================================
// enumeration and verdicts
// ======================================================================
typedef struct {
	uint64_t hash;
	uint64_t fr[C20_NF];
	int      nf;
	long     cmin, cmax;
	int      seen; // profile runs that saw it
	bool     fired;
} psite;
static psite p_sites[C20_MAXSITES];
static int   p_n;
static long  p_total; // smallest number of armed allocations of a profile run
static long  p_thr;   // smallest number of thread creations while armed

static int g_case_timeout = 30;

// every return address seen above the allocator in any profile run (census)
#define SEEN_SZ 16384
static uint64_t seen_fr[SEEN_SZ];
static void
seen_add(uint64_t off)
{
	unsigned b = (unsigned) ((off * 0x9E3779B97F4A7C15ULL) >> 50) % SEEN_SZ;
	for (int i = 0; i < SEEN_SZ; i++) {
		if (seen_fr[b] == off) {
			return;
		}
		if (seen_fr[b] == 0) {
			seen_fr[b] = off;
			return;
		}
		b = (b + 1) % SEEN_SZ;
	}
}
static bool
seen_has(uint64_t off)
{
	unsigned b = (unsigned) ((off * 0x9E3779B97F4A7C15ULL) >> 50) % SEEN_SZ;
	for (int i = 0; i < SEEN_SZ; i++) {
		if (seen_fr[b] == off) {
			return true;
		}
		if (seen_fr[b] == 0) {
			return false;
		}
		b = (b + 1) % SEEN_SZ;
	}
	return false;
}

// Static census: every call instruction in library code whose target is an
// allocation entry point or a generic allocating constructor, and whether
// the corpus ever allocated through it.
static const char *const census_callees[] = { "nni_alloc", "nni_zalloc", "nni_strdup", "nni_asprintf",
	"nni_msg_alloc", "nni_msg_dup", "nni_aio_alloc", "nni_id_set", "nni_id_alloc", "nni_id_alloc32",
	// (second audit) callers of the other allocating helpers are call sites too
	"nni_lmq_resize", "nni_msgq_init", "nni_msgq_resize", "nni_chunk_grow", "nni_chunk_dup",
	"nni_chunk_append", "nni_chunk_insert", "nni_msg_append", "nni_msg_insert", "nni_msg_realloc",
	"nni_msg_reserve", "nni_url_parse", "nni_url_parse_inline",
	"nni_url_clone", "nni_url_clone_inline", NULL };
// (not nni_lmq_init: it allocates only for capacities above 2, most callers ask
// for less; not nni_msg_header_append/insert: the header is a fixed buffer)

static void
census(void)
{
	char  cmd[600], ln[512], fn[128] = "", callee[128];
	char  exe[400];
	ssize_t n = readlink("/proc/self/exe", exe, sizeof(exe) - 1);
	if (n <= 0) {
		return;
	}
	exe[n] = 0;
	snprintf(cmd, sizeof(cmd), "objdump -d --no-show-raw-insn '%s' 2>/dev/null", exe);
	FILE *f = popen(cmd, "r");
	if (f == NULL) {
		return;
	}
	bool     fn_lib = false, pending = false;
	long     total = 0, reached = 0;
	char     pend_fn[128] = "", pend_callee[128] = "";
	while (fgets(ln, sizeof(ln), f) != NULL) {
		if (ln[0] != ' ' && ln[0] != '\n') { // "0000000000123456 <name>:"
			char *lt = strchr(ln, '<'), *gt = lt ? strchr(lt, '>') : NULL;
			if (lt != NULL && gt != NULL && gt[1] == ':') {
				uint64_t a = strtoull(ln, NULL, 16);
				*gt        = 0;
				snprintf(fn, sizeof(fn), "%s", lt + 1);
				fn_lib = sym_is_lib(a);
				char *dot = strchr(fn, '.');
				if (dot != NULL) {
					*dot = 0;
				}
			}
			continue;
		}
		char *colon = strchr(ln, ':');
		if (colon == NULL) {
			continue;
		}
		uint64_t addr = strtoull(ln, NULL, 16);
		if (pending) { // this is the instruction after a counted call
			pending = false;
			total++;
			if (seen_has(addr)) {
				reached++;
			} else {
				vf_class("static call site never reached|%s -> %s", pend_fn, pend_callee);
			}
		}
		if (!fn_lib) {
			continue;
		}
		char *call = strstr(colon, "call ");
		if (call == NULL) {
			continue;
		}
		char *lt = strchr(call, '<'), *gt = lt ? strchr(lt, '>') : NULL;
		if (lt == NULL || gt == NULL) {
			continue;
		}
		*gt = 0;
		snprintf(callee, sizeof(callee), "%s", lt + 1);
		if (strchr(callee, '+') != NULL || !in_list(callee, census_callees)) {
			continue;
		}
		pending = true;
		snprintf(pend_fn, sizeof(pend_fn), "%s", fn);
		snprintf(pend_callee, sizeof(pend_callee), "%s", callee);
	}
	pclose(f);
	vf_stat("static_alloc_call_sites", total);
	vf_stat("static_alloc_call_sites_reached", reached);
}

static void
describe_anomaly(char *out, size_t sz)
{
	size_t o = 0;
	out[0]   = 0;
	for (int i = 0; i < sh->n_bad && i < 8; i++) {
		o += (size_t) snprintf(out + o, sz - o, " %s=%s", sh->bad[i].call, errname(sh->bad[i].rv));
	}
	for (int i = 0; i < sh->n_note && i < 4; i++) {
		o += (size_t) snprintf(out + o, sz - o, " [%s]", sh->note[i]);
	}
	for (int i = 0; i < sh->n_loss && i < 6; i++) {
		o += (size_t) snprintf(out + o, sz - o, " (loss %s)", sh->loss[i]);
	}
	if (sh->leak_blocks != 0) {
		char d[300];
		site_desc(sh->leaks[0].fr, sh->leaks[0].nf, d, sizeof(d));
		o += (size_t) snprintf(out + o, sz - o, " leak %ld blocks (first: %zu bytes at %s)",
		    sh->leak_blocks, sh->leaks[0].size, d);
	}
	for (int i = 0; i < sh->n_aerr && i < 4; i++) {
		o += (size_t) snprintf(out + o, sz - o, " %s", sh->aerr[i].what);
	}
}

static void
profile_prog(int pi, int runs)
{
	p_n     = 0;
	p_total = -1;
	p_thr   = -1;
	int env_retries = 0, loss_retries = 0;
	for (int r = 0; r < runs; r++) {
		c20_case c = { M_PROFILE, pi, 0, 0 };
		vf_watchdog(180);
		// nothing is armed: a bounded wait only runs out when the machine
		// is busy, so the bounds of the second pass are used
		int tio = g_tmo_io, tconn = g_tmo_conn;
		g_tmo_io   = 2000;
		g_tmo_conn = 5000;
		int res    = run_child(&c, 60, true);
		g_tmo_io   = tio;
		g_tmo_conn = tconn;
		if (res == R_DONE && sh->env_skip) {
			if (++env_retries > 20) {
				vf_harness_fail("profile run of %s: the machine has no free ephemeral ports (gave up after %d tries)",
				    progs[pi].name, env_retries);
			}
			vf_stat("env_port_exhaustion_retries", 1);
			vf_msleep(3000);
			r--;
			continue;
		}
		if (res != R_DONE) {
			fprintf(stderr, "profile run failed; stderr of the child:\n%s\nstacks:\n%s\n", g_err, g_stacks);
			vf_harness_fail("profile run of %s did not finish (res %d status 0x%x phase %d call %s msg %s): %.600s || %.3000s",
			    progs[pi].name, res, g_status, sh->phase, sh->cur_call, sh->harness_msg, g_err, g_stacks);
		}
		if (sh->n_bad || sh->n_note || sh->leak_blocks || sh->n_aerr || sh->n_enomem || sh->fd_leaked ||
		    sh->fd_lost || !sh->fd_checked) {
			char d[900];
			describe_anomaly(d, sizeof(d));
			vf_harness_fail("profile run of %s (no failure injected) is not clean:%s fd +%d(%s) -%d",
			    progs[pi].name, d, sh->fd_leaked, sh->fd_what, sh->fd_lost);
		}
		if (sh->n_loss != 0) {
			// nothing was armed, yet a bounded wait of the first pass ran
			// out (busy machine): the sites behind it were not seen.
			// Such a profile is not used.
			if (++loss_retries > 3) {
				vf_harness_fail("profile run of %s (no failure injected) lost a message or connection %d times "
				                "(last: %s): the machine is too busy to profile this program",
				    progs[pi].name, loss_retries, sh->loss[0]);
			}
			vf_stat("profile_runs_repeated", 1);
			r--;
			continue;
		}
		if (p_total < 0 || sh->armed_total < p_total) {
			p_total = sh->armed_total;
		}
		if (p_thr < 0 || sh->thr_total < p_thr) {
			p_thr = sh->thr_total;
		}
		for (int i = 0; i < sh->nsites; i++) {
			c20_site *s = &sh->sites[i];
			int       k;
			for (int q = 0; q < s->nf; q++) {
				seen_add(s->fr[q]);
			}
			for (k = 0; k < p_n; k++) {
				if (p_sites[k].hash == s->hash) {
					break;
				}
			}
			if (k == p_n) {
				if (p_n >= C20_MAXSITES) {
					continue;
				}
				p_n++;
				p_sites[k].hash = s->hash;
				p_sites[k].nf   = s->nf;
				memcpy(p_sites[k].fr, s->fr, sizeof(s->fr));
				p_sites[k].cmin = p_sites[k].cmax = s->count;
				p_sites[k].seen  = 0;
				p_sites[k].fired = false;
			}
			if (s->count < p_sites[k].cmin) {
				p_sites[k].cmin = s->count;
			}
			if (s->count > p_sites[k].cmax) {
				p_sites[k].cmax = s->count;
			}
			p_sites[k].seen++;
		}
	}
}

static void
viol(const char *sfn, const char *kind, const char *where, const char *casedesc, const char *detail)
{
	char key[256];
	if (where != NULL && where[0] != 0) {
		snprintf(key, sizeof(key), "C20/%s/%s@%s", sfn, kind, where);
	} else {
		snprintf(key, sizeof(key), "C20/%s/%s", sfn, kind);
	}
	vf_stat("violating_cases", 1);
	vf_violation(key, "%s | %s", casedesc, detail);
}

// returns: 0 not reached, 1 clean, 2 violation
static int
judge(const c20_case *c, const char *casedesc)
{
	char sfn[200], sdesc[400], kind[128], where[200], detail[1500];
	int  res = run_child(c, g_case_timeout, false);
	if (res == R_TIMEOUT) {
		// policy: a hang is re-run once before it is believed
		vf_stat("timeouts_rerun", 1);
		vf_watchdog(180);
		res = run_child(c, 45, true);
		if (res != R_TIMEOUT) {
			vf_stat("timeouts_not_repeated", 1);
		}
	}
	if (res == R_DONE && sh->fired && !sh->env_skip && sh->n_wedged > 0) {
		// policy: "the second pass did not succeed" is a bounded-progress
		// verdict; like a hang it is re-run (bounds doubled) before it is
		// believed.  A re-run in which the failure does not fire (a site
		// that depends on the schedule) says nothing: try again.
		char first[96];
		snprintf(first, sizeof(first), "%s", sh->wedged[0]);
		vf_stat("wedged_rerun", 1);
		for (int i = 0; i < 3; i++) {
			g_p2_scale = 2;
			vf_watchdog(400);
			res        = run_child(c, 120, true);
			g_p2_scale = 1;
			if (res != R_DONE || sh->fired) {
				break;
			}
		}
		if (res == R_DONE && (!sh->fired || sh->n_wedged == 0)) {
			vf_stat("wedged_not_repeated", 1);
			vf_class("%s|wedged once, not when re-run with doubled bounds|%s", progs[c->prog].name, first);
		}
	}
	if (res == R_HARNESS) {
		if (sh->fired) {
			// a helper of the harness gave up after the failure fired
			vf_harness_fail("%s: child gave up after the failure fired: %s", casedesc, sh->harness_msg);
		}
		vf_harness_fail("%s: %s", casedesc, sh->harness_msg);
	}
	if (res == R_DONE && sh->env_skip) {
		vf_stat("env_skipped_cases", 1);
		return 0;
	}
	if (!sh->fired) {
		if (res != R_DONE) {
			vf_harness_fail("%s: child failed (res %d, status 0x%x, during %s) although no "
			                "allocation failure was injected: %.700s",
			    casedesc, res, g_status, sh->cur_call, g_err);
		}
		vf_stat("not_reached", 1);
		return 0;
	}
	vf_stat("cases", 1);
	if (sh->fired_thr) {
		vf_stat("thread_creation_cases", 1);
	}
	site_fn(sh->fired_fr, sh->fired_nf, sfn, sizeof(sfn));
	site_desc(sh->fired_fr, sh->fired_nf, sdesc, sizeof(sdesc));
	const char *pname = progs[c->prog].name;
	int         bad   = 0;
	if (res == R_TIMEOUT) {
		hang_where(g_stacks, where, sizeof(where));
		snprintf(detail, sizeof(detail),
		    "no progress for %d s and again for 45 s during %s; threads inside the library at: %s; site %s",
		    g_case_timeout, sh->cur_call, where, sdesc);
		viol(sfn, "hang", NULL, casedesc, detail);
		vf_class("%s|%s|hang@%s", pname, sfn, where);
		return 2;
	}
	if (res == R_CRASH) {
		// The key names the allocation site and the class of the crash.
		// Where the damaged object is first touched (reaper thread or
		// caller) depends on the schedule, so it is evidence, not key.
		crash_kind(g_err, g_status, kind, sizeof(kind), where, sizeof(where));
		const char *rep = strstr(g_err, "ERROR: ");
		if (rep == NULL) {
			rep = strstr(g_err, "runtime error");
		}
		if (rep == NULL) {
			rep = strstr(g_err, "panic: ");
		}
		snprintf(detail, sizeof(detail),
		    "child died (status 0x%x) in %s during %s (phase %d); site %s; %.500s", g_status, where,
		    sh->cur_call, sh->phase, sdesc, rep ? rep : g_err);
		if (getenv("C20_DUMP") != NULL) { // debugging aid: the child's full stderr
			fprintf(stderr, "---- child stderr ----\n%s\n----\n", g_err);
		}
		// a crash in the calling thread is deterministic: name the place
		viol(sfn, kind, g_crash_sync ? where : NULL, casedesc, detail);
		vf_class("%s|%s|%s@%s", pname, sfn, kind, where);
		return 2;
	}
	// the child finished: judge what it recorded
	for (int i = 0; i < sh->n_bad && i < 8; i++) {
		bool dup = false;
		for (int k = 0; k < i; k++) {
			dup = dup || (!strcmp(sh->bad[k].call, sh->bad[i].call) && sh->bad[k].rv == sh->bad[i].rv);
		}
		if (dup) {
			continue;
		}
		snprintf(kind, sizeof(kind), "bad-rv:%s=%s", sh->bad[i].call, errname(sh->bad[i].rv));
		snprintf(detail, sizeof(detail), "%s returned %s (%d) instead of success or NNG_ENOMEM; site %s",
		    sh->bad[i].call, errname(sh->bad[i].rv), sh->bad[i].rv, sdesc);
		viol(sfn, kind, NULL, casedesc, detail);
		bad++;
	}
	for (int i = 0; i < sh->n_note && i < 4; i++) {
		char k2[96];
		snprintf(k2, sizeof(k2), "%s", sh->note[i]);
		slug(k2, 56);
		snprintf(detail, sizeof(detail), "%s; site %s", sh->note[i], sdesc);
		viol(sfn, k2, NULL, casedesc, detail);
		bad++;
	}
	bool msg_leak = false;
	for (int i = 0; i < sh->n_leaks; i++) {
		char lfn[200];
		site_fn(sh->leaks[i].fr, sh->leaks[i].nf, lfn, sizeof(lfn));
		msg_leak = msg_leak || !strncmp(lfn, "nni_msg_alloc", 13) || !strncmp(lfn, "nni_msg_dup", 11);
	}
	for (int i = 0; i < sh->n_leaks; i++) {
		char lfn[200], ldesc[400];
		site_fn(sh->leaks[i].fr, sh->leaks[i].nf, lfn, sizeof(lfn));
		bool dup = false;
		if (msg_leak && !strncmp(lfn, "nni_chunk_", 10)) {
			continue; // the body of a leaked message: one finding, not two
		}
		for (int k = 0; k < i; k++) {
			char o[200];
			site_fn(sh->leaks[k].fr, sh->leaks[k].nf, o, sizeof(o));
			dup = dup || !strcmp(o, lfn);
		}
		if (dup) {
			continue;
		}
		site_desc(sh->leaks[i].fr, sh->leaks[i].nf, ldesc, sizeof(ldesc));
		snprintf(detail, sizeof(detail),
		    "%ld blocks / %ld bytes still allocated after nng_fini; e.g. %zu bytes from %s; failed site %s",
		    sh->leak_blocks, sh->leak_bytes, sh->leaks[i].size, ldesc, sdesc);
		viol(sfn, "leak", lfn, casedesc, detail);
		bad++;
	}
	if (sh->hook_viol > 0) {
		snprintf(detail, sizeof(detail), "an invariant hook of the library fired %ld time(s) in the child: %s; failed site %s", sh->hook_viol, sh->hook_key, sdesc);
		viol(sfn, "hook", sh->hook_key, casedesc, detail);
		bad++;
	}
	for (int i = 0; i < sh->n_aerr && i < 4; i++) {
		char lfn[200];
		site_fn(sh->aerr[i].fr, sh->aerr[i].nf, lfn, sizeof(lfn));
		snprintf(detail, sizeof(detail), "%s on a block from %s; failed site %s", sh->aerr[i].what, lfn, sdesc);
		viol(sfn, sh->aerr[i].what, lfn, casedesc, detail);
		bad++;
	}
	if (sh->fd_checked) {
		vf_stat("fd_balance_cases", 1);
	}
	if (sh->fd_leaked > 0) {
		char what[64];
		snprintf(what, sizeof(what), "%s", sh->fd_what);
		slug(what, 40);
		snprintf(detail, sizeof(detail),
		    "%d descriptor(s) that did not exist before nng_init are still open after everything was closed and "
		    "nng_fini returned; the first is %s; failed site %s",
		    sh->fd_leaked, sh->fd_what, sdesc);
		viol(sfn, "fd-leak", what, casedesc, detail);
		bad++;
	}
	if (sh->fd_lost > 0) {
		snprintf(detail, sizeof(detail),
		    "%d descriptor(s) that were open before nng_init (they belong to the application) were closed; failed site %s",
		    sh->fd_lost, sdesc);
		viol(sfn, "fd-closed-foreign", NULL, casedesc, detail);
		bad++;
	}
	if (sh->p2_enomem > 0) {
		snprintf(kind, sizeof(kind), "enomem-again:pass2:%s", sh->p2_enomem_call);
		snprintf(detail, sizeof(detail),
		    "%d API call(s) of the second pass returned NNG_ENOMEM although nothing was armed any more "
		    "(first: %s; first pass: ENOMEM from '%s'); site %s",
		    sh->p2_enomem, sh->p2_enomem_call, sh->enomem_call, sdesc);
		viol(sfn, kind, NULL, casedesc, detail);
		bad++;
	}
	if (sh->pass2) {
		vf_stat("pass2_runs", 1);
		vf_stat("pass2_repeated_attempts", sh->p2_soft_failures);
	}
	if (sh->fired_stage > 0) {
		// the failure hit the program past its first round (timer /
		// background path, second message, second request ...)
		vf_stat("fired_after_first_round", 1);
		vf_class("late|%s", pname);
	}
	if (sh->same_obj_retry) {
		vf_stat("same_object_retries", 1);
	}
	if (sh->fired_in_set) {
		vf_stat("fired_in_live_setter", 1);
	}
	for (int i = 0; i < sh->n_wedged && i < 4; i++) {
		char k2[128];
		snprintf(k2, sizeof(k2), "wedged:%s", sh->wedged[i]);
		slug(k2, 70);
		snprintf(detail, sizeof(detail),
		    "after the failure, with nothing armed any more, the same objects still do not work: %s; "
		    "first pass: ENOMEM from '%s', loss '%s'; site %s",
		    sh->wedged[i], sh->enomem_call, sh->n_loss ? sh->loss[0] : "", sdesc);
		viol(sfn, k2, NULL, casedesc, detail);
		bad++;
	}
	if (sh->pass1_enomem_calls > 1) {
		// one failed allocation, but a second, later API call reported
		// NNG_ENOMEM as well: stale error state
		snprintf(kind, sizeof(kind), "enomem-again:%s", sh->enomem_call2);
		snprintf(detail, sizeof(detail),
		    "%d API calls returned NNG_ENOMEM after a single failed allocation: first %s, then %s; site %s",
		    sh->pass1_enomem_calls, sh->enomem_call, sh->enomem_call2, sdesc);
		viol(sfn, kind, NULL, casedesc, detail);
		bad++;
	}
	if (sh->follow_step[0] != 0) {
		snprintf(kind, sizeof(kind), "followup:%s=%s", sh->follow_step,
		    sh->follow_rv > 0 ? errname(sh->follow_rv) : "failed");
		snprintf(detail, sizeof(detail),
		    "after the case a plain pair0/inproc scenario on a re-initialised library failed at %s; site %s",
		    sh->follow_step, sdesc);
		viol(sfn, kind, NULL, casedesc, detail);
		bad++;
	}
	if (bad) {
		vf_class("%s|%s|violation", pname, sfn);
		return 2;
	}
	if (sh->pass2) {
		vf_stat("pass2_clean", 1);
	}
	const char *oc;
	if (sh->n_enomem > 0) {
		oc = "clean-enomem";
		vf_stat("clean_enomem", 1);
		vf_class("%s|%s|ENOMEM from %s", pname, sfn, sh->enomem_call);
	} else if (sh->n_loss > 0) {
		oc = "tolerated-loss";
		vf_stat("tolerated_loss", 1);
		vf_class("%s|%s|loss %s", pname, sfn, sh->loss[0]);
	} else {
		oc = "absorbed";
		vf_stat("absorbed", 1);
		vf_class("%s|%s|absorbed", pname, sfn);
	}
	if (vf_verbose) {
		fprintf(stderr, "  -> %s (%s; %s %s)\n", oc, sfn, sh->enomem_call, sh->n_loss ? sh->loss[0] : "");
	}
	vf_sample("{\"case\":\"%s\",\"site\":\"%s\",\"outcome\":\"%s\",\"enomem_from\":\"%s\",\"loss\":\"%s\",\"api_calls\":%d}",
	    casedesc, sdesc, oc, sh->enomem_call, sh->n_loss ? sh->loss[0] : "", sh->n_calls);
	return 1;
}

// case index: program (8 bits) | kind (3) | site hash (40) | j (12)
// kind 0..6: site case, repetition number; 7: plain k-th allocation (k in
// the low 52 bits).  A case is regenerated from (seed, index) after the
// program has been profiled again.
#define K_NTH 7
#define K_THR 6 // k-th thread creation (k in the j field); repetitions use 0..5
static long
case_index(int pi, int kind, uint64_t hash, long j)
{
	uint64_t low = kind == K_NTH ? ((uint64_t) j & ((1ULL << 52) - 1))
	                             : (((hash & ((1ULL << 40) - 1)) << 12) | ((uint64_t) j & 0xfff));
	return (long) ((((uint64_t) pi * 8 + (uint64_t) kind) << 52) | low);
}

int
main(int argc, char **argv)
{
	// everything the children need, then the zygote, then vfh (threads)
	sym_load();
	build_progs();
	{
		void *bt[4]; // loads libgcc now, not inside the allocator of a child
		(void) backtrace(bt, 4);
	}
	for (int i = 0; i < g_nsyms; i++) {
		int w = !strcmp(g_syms[i].name, "c20_malloc") ? 0
		    : !strcmp(g_syms[i].name, "c20_calloc")   ? 1
		    : !strcmp(g_syms[i].name, "pthread_create") ? 2
		                                                : -1;
		if (w >= 0) {
			g_ent_lo[w] = g_bias + g_syms[i].addr;
			g_ent_hi[w] = g_ent_lo[w] + g_syms[i].size;
		}
	}
	if (g_ent_lo[0] == 0 || g_ent_lo[1] == 0 || g_ent_lo[2] == 0) {
		vf_harness_fail("allocator entry points not found in .symtab");
	}
	zygote_start();
	vf_init(argc, argv);

	bool thorough  = vf_tier == 1;
	int  prof_runs = thorough ? 4 : 2;
	int  reps      = thorough ? (vf_cases > 0 ? (int) vf_cases : 4) : 1;
	long all_j_max = thorough ? 64 : 0; // thorough: every j up to this
	long nth_cap   = thorough ? 4000 : 400;
	static const int rep_threads[7] = { 2, 4, 8, 2, 3, 6, 2 };
	if (reps > K_THR) {
		reps = K_THR;
	}
	if (thorough) {
		g_tmo_io   = 800;
		g_tmo_conn = 2000;
	} else {
		g_tmo_io   = 400;
		g_tmo_conn = 1200;
	}
	const char *only_prog = getenv("C20_PROG"); // manual reproduction
	const char *only_site = getenv("C20_SITE"); // substring of the site chain
	const char *only_j    = getenv("C20_J");

	int only_pi = -1;
	if (vf_only >= 0) {
		only_pi = (int) (((uint64_t) vf_only >> 52) / 8);
	}
	for (int pi = 0; pi < n_progs; pi++) {
		c20_prog *p = &progs[pi];
		if (only_pi >= 0 && only_pi != pi) {
			continue;
		}
		if (only_prog != NULL && strcmp(only_prog, p->name) != 0) {
			continue;
		}
		if ((p->flags & PF_THOROUGH) && !thorough && only_pi != pi && only_prog == NULL) {
			continue;
		}
		g_task_threads = 2;
		vf_case_begin(case_index(pi, 0, 0, 0), "profile %s", p->name);
		profile_prog(pi, prof_runs);
		if (vf_shard == 0) {
			vf_stat("programs", 1);
			vf_stat_max("sites_in_one_program", p_n);
			vf_stat("armed_allocations_in_profiles", p_total);
		}
		if (!strcmp(vf_mode, "profile")) {
			for (int i = 0; i < p_n; i++) {
				char d[400], f[200];
				site_desc(p_sites[i].fr, p_sites[i].nf, d, sizeof(d));
				site_fn(p_sites[i].fr, p_sites[i].nf, f, sizeof(f));
				printf("%-18s %3ld..%-3ld seen=%d  [%s]  %s\n", p->name, p_sites[i].cmin,
				    p_sites[i].cmax, p_sites[i].seen, f, d);
			}
			printf("%-18s sites=%d allocs=%ld", p->name, p_n, p_total);
			for (int i = 0; i < sh->n_loss && i < 6; i++) {
				printf(" loss:%s", sh->loss[i]);
			}
			printf("\n");
			continue;
		}
		for (int i = 0; i < p_n; i++) {
			psite *s = &p_sites[i];
			char   sdesc[400];
			if (only_site == NULL && vf_only < 0 && (int) (s->hash % (uint64_t) vf_nshards) != vf_shard) {
				continue;
			}
			site_desc(s->fr, s->nf, sdesc, sizeof(sdesc));
			if (only_site != NULL && strstr(sdesc, only_site) == NULL) {
				continue;
			}
			vf_stat("sites", 1);
			// which occurrences to fail: 1, 2, last, one random (+ all
			// of the first all_j_max in the thorough tier)
			long   js[80];
			int    nj = 0;
			vf_rng r;
			vf_rng_seed(&r, vf_seed, (uint64_t) case_index(pi, 0, s->hash, 0));
			js[nj++] = 1;
			if (s->cmin >= 2) {
				js[nj++] = 2;
			}
			for (long j = 3; j <= s->cmin && j <= all_j_max; j++) {
				js[nj++] = j;
			}
			if (s->cmin >= 3 && s->cmin > all_j_max) {
				js[nj++] = s->cmin;
			}
			if (s->cmin >= 4 && s->cmin - 1 > all_j_max) {
				long lo  = all_j_max >= 3 ? all_j_max + 1 : 3;
				js[nj++] = (long) vf_range(&r, (uint32_t) lo, (uint32_t) s->cmin - 1);
			}
			if (only_j != NULL) {
				nj    = 1;
				js[0] = atol(only_j);
			}
			for (int k = 0; k < nj; k++) {
				for (int rep = 0; rep < reps; rep++) {
					long j   = js[k];
					long idx = case_index(pi, rep, s->hash, j);
					if (!vf_want_case(idx)) {
						continue;
					}
					char desc[500];
					snprintf(desc, sizeof(desc), "prog=%s j=%ld(of %ld) rep=%d site=%s", p->name, j,
					    s->cmin, rep, sdesc);
					vf_case_begin(idx, "%s", desc);
					vf_watchdog(180);
					vf_stat("cases_run", 1);
					g_task_threads = rep_threads[rep];
					c20_case c     = { M_SITE, pi, s->hash, j };
					if (judge(&c, desc) != 0) {
						s->fired = true;
					}
				}
			}
			if (s->fired) {
				vf_stat("sites_failed", 1);
			} else if (vf_only < 0) {
				char f[200];
				site_fn(s->fr, s->nf, f, sizeof(f));
				vf_stat("sites_not_reached_again", 1);
				vf_class("%s|%s|site seen in %d of %d profile runs, not reached when armed", p->name, f,
				    s->seen, prof_runs);
			}
		}
		g_task_threads = 2;
		if ((p->flags & PF_NTH) && only_site == NULL) {
			long n = p_total < nth_cap ? p_total : nth_cap;
			for (long k = 1; k <= n; k++) {
				long idx = case_index(pi, K_NTH, 0, k);
				if (vf_only < 0 && (int) (k % vf_nshards) != vf_shard) {
					continue;
				}
				if (!vf_want_case(idx)) {
					continue;
				}
				char desc[200];
				snprintf(desc, sizeof(desc), "prog=%s nth=%ld of %ld", p->name, k, p_total);
				vf_case_begin(idx, "%s", desc);
				vf_watchdog(180);
				vf_stat("cases_run", 1);
				vf_stat("cases_nth", 1);
				c20_case c = { M_NTH, pi, 0, k };
				(void) judge(&c, desc);
			}
		}
		if ((p->flags & PF_THR) && only_site == NULL) {
			for (long k = 1; k <= p_thr && k <= 64; k++) {
				long idx = case_index(pi, K_THR, 0, k);
				if (vf_only < 0 && (int) (k % vf_nshards) != vf_shard) {
					continue;
				}
				if (!vf_want_case(idx)) {
					continue;
				}
				char desc[200];
				snprintf(desc, sizeof(desc), "prog=%s thread-creation=%ld of %ld", p->name, k, p_thr);
				vf_case_begin(idx, "%s", desc);
				vf_watchdog(180);
				vf_stat("cases_run", 1);
				c20_case c = { M_THR, pi, 0, k };
				(void) judge(&c, desc);
			}
		}
	}
	if (vf_shard == 0 && vf_only < 0 && only_prog == NULL && only_site == NULL && strcmp(vf_mode, "profile") != 0) {
		vf_case_begin(case_index(255, 0, 0, 0), "static census of allocation call sites");
		vf_watchdog(300);
		census();
	}
	return vf_finish();
}
