// C04 (requester side): a reply reaches a REQ socket/context only if it
// answers that context's currently outstanding request, and at most once.
//
// One real REQ socket with 1-8 contexts (optionally the socket itself as
// "context 0") and 1-4 pipes is driven by one harness thread per context.
// Every request body is {ctx index, directive, case nonce | per-ctx seq}.
// The other side is one of
//   tcpadv  a raw TCP adversary speaking SP as REP (0x31): it learns request
//           ids from the wire, remembers id -> (ctx, seq) and answers every
//           request frame with a seeded burst: correct reply, duplicates,
//           replies to superseded / cancelled / already answered ids, replies
//           to another context's outstanding id, ids without the request bit,
//           short (<4 byte) frames (the pipe is killed and redialled), replies
//           sent before the request body was read, replies deferred by about
//           one resend interval so that they race the resend;
//   xrep    the same adversary behind an nng raw REP socket (inproc or tcp);
//   rep     real REP sockets with contexts that echo (duplicates and stale
//           replies then arise from resends, supersedes and cancels).
// Every reply body echoes the (ctx, seq) that its id belongs to and carries
// {serial, class}, so the context thread knows exactly which frame it was
// handed.  The adversary only ever replays ids it has seen.
//
// Oracle (per context, judged by the thread that owns the context, since it
// alone knows which request is outstanding): a receive that returns 0 must
// carry this context's tag and the seq of the request that is outstanding at
// that moment; a frame is delivered at most once; a receive with no
// outstanding request fails with NNG_ESTATE (never a message); a reply the
// adversary did send for the outstanding request is delivered within 10 s
// (other contexts' garbage does not disturb it).
#include "vfh.h"

#include <errno.h>
#include <poll.h>
#include <pthread.h>
#include <stdatomic.h>
#include <sys/socket.h>
#include <unistd.h>

#define MAXCTX 8
#define LONG_MS 10000

enum { K_CORRECT, K_DUP, K_STALE, K_OTHER, K_NOBIT, K_EARLY, K_DELAYED, K_ECHO, K_NEIGHBOUR, K_FORGED, K_REFUSED, K_SHORT, K_N };
static const char *kname[K_N] = { "correct", "dup", "stale", "other-ctx", "nobit", "early", "delayed", "echo", "neighbour-id", "forged-before-wire", "refused-id", "short" };

enum { D_NORMAL, D_HOLD, D_DELAY };
enum { M_TCPADV, M_XREP, M_REP, M_N };
static const char *mname[M_N] = { "tcpadv", "xrep", "rep" };

// status of a request (per ctx, per seq)
enum { ST_NONE, ST_OUT, ST_ANSWERED, ST_TIMEDOUT, ST_ABORTED, ST_SUPERSEDED, ST_CONNRESET, ST_SENDFAIL, ST_CLOSED,
       ST_AB_TIMEOUT, ST_AB_CANCEL, ST_AB_SUPERSEDED, ST_AB_RECVCANCEL, ST_AB_CLOSED, ST_AB_REFUSED, ST_AB_SENDRECV, ST_N };
static const char *stname[ST_N] = { "never-sent", "outstanding", "answered", "timed-out", "aborted", "superseded", "conn-reset", "send-failed", "ctx-closed",
	// abandoned before the request reached the wire (the send was still queued):
	"abandoned-send-timeout", "abandoned-send-cancelled", "abandoned-superseded-in-queue", "abandoned-recv-cancelled-in-queue", "abandoned-ctx-closed",
	// refused at once (non-blocking send, no pipe ready): never queued at all
	"abandoned-send-refused",
	// send timed out / cancelled in the queue with a receive already posted
	"abandoned-send-cancelled-with-recv" };

enum { OP_NORMAL, OP_SUPERSEDE, OP_TIMEOUT, OP_ABORT, OP_SENDOVER, OP_ABANDON, OP_SYNC, OP_PROBE, OP_REFUSED, OP_NBSEND, OP_N };
static const char *opname[OP_N] = { "normal", "supersede", "timeout", "abort", "send-over-recv", "after-abandon", "sync-api", "idle-probe", "after-refused-send", "nonblock-send" };

typedef struct {
	int      mode, tran, nctx, npipes;
	bool     use_sock, kills, big, rchg, blackouts;
	long     exchanges;
	int      retry_ms; // <= 0: infinite
	int      tick_ms;
	int      jit_permille, jit_us;
	uint32_t nonce;
	uint64_t key;
} casecfg;

static uint32_t
get32(const uint8_t *p)
{
	return ((uint32_t) p[0] << 24) | ((uint32_t) p[1] << 16) | ((uint32_t) p[2] << 8) | p[3];
}
static void
put32(uint8_t *p, uint32_t v)
{
	p[0] = (uint8_t) (v >> 24);
	p[1] = (uint8_t) (v >> 16);
	p[2] = (uint8_t) (v >> 8);
	p[3] = (uint8_t) v;
}

// ------------------------------------------------------------ delivered set
static pthread_mutex_t dl_mtx = PTHREAD_MUTEX_INITIALIZER;
static uint8_t        *dl_bits;
static size_t          dl_cap;

static bool // true if the serial was already delivered before
mark_delivered(uint32_t serial)
{
	bool dup;
	pthread_mutex_lock(&dl_mtx);
	if ((size_t) serial / 8 >= dl_cap) {
		size_t nc = dl_cap ? dl_cap : 4096;
		while ((size_t) serial / 8 >= nc) nc *= 2;
		dl_bits = realloc(dl_bits, nc);
		memset(dl_bits + dl_cap, 0, nc - dl_cap);
		dl_cap = nc;
	}
	dup = (dl_bits[serial / 8] >> (serial % 8)) & 1;
	dl_bits[serial / 8] |= (uint8_t) (1u << (serial % 8));
	pthread_mutex_unlock(&dl_mtx);
	return dup;
}

// ------------------------------------------------------------ adversary
typedef struct {
	uint32_t id, tag, seq;
	uint16_t seen, answered;
} idrec;

typedef struct {
	uint32_t idword; // what goes on the wire in front of the body
	uint32_t tag, seq;
	int      klass;
	int      defer_ms;
} pframe;

typedef struct {
	uint64_t due;
	pframe   f;
	uint32_t pipe; // xrep mode
} deferred;

enum { IS_OLD, IS_LATEST_ANSWERED, IS_LATEST_OPEN, IS_N };
static const char *isname[IS_N] = { "old", "latest-answered", "latest-open" };

typedef struct {
	pthread_mutex_t mtx;
	vf_rng          rng;
	idrec          *tab;
	uint32_t        cap, used;
	uint32_t        latest_seq[MAXCTX];
	uint32_t        recent[256];
	uint32_t        nrecent;
	int             delay_ms;
	bool            kills;
	long            inj[K_N];
	bool            inj_seen[IS_N][K_N];
	long            held, resend_seen, killed, early_unread, requests, id_reuse, nblackouts;
	uint32_t       *wire[MAXCTX]; // wire[c][seq]: id with which ctx c's request seq was seen
	uint32_t        wire_cap;
	bool            blackouts;
	long            next_blackout; // request count at which the next one starts
	int             neigh_den;     // 1/neigh_den of new requests get neighbour-id replies
	// ids of requests whose send the REQ socket refused at once (told by the
	// context threads): never on any wire, to be "answered" all the same
	struct {
		uint32_t id, tag, seq;
	} refq[64];
	int             nrefq;
	long            ref_pushed;
	_Atomic long    ref_emitted;
	_Atomic bool    blackout;      // no connection is served or accepted
	_Atomic uint64_t blackout_until;
	_Atomic uint32_t serial;
	_Atomic bool     stop;
} adv;

static adv A;

static void
adv_init(const casecfg *cc)
{
	uint32_t cap = 1024;
	while (cap < (uint32_t) (cc->exchanges * 8 + 256)) cap *= 2;
	pthread_mutex_init(&A.mtx, NULL);
	vf_rng_seed(&A.rng, cc->key, 7);
	A.tab = calloc(cap, sizeof(idrec));
	A.cap = cap;
	A.used = 0;
	memset(A.latest_seq, 0, sizeof(A.latest_seq));
	A.nrecent  = 0;
	A.delay_ms = cc->retry_ms > 0 ? cc->retry_ms : 10;
	A.kills    = cc->kills;
	A.blackouts = cc->blackouts;
	A.nblackouts = 0;
	A.next_blackout = 60 + (long) vf_below(&A.rng, 150);
	A.neigh_den = cc->blackouts ? 2 : 6;
	A.wire_cap = (uint32_t) (cc->exchanges * 2 + 64);
	for (int i = 0; i < MAXCTX; i++) A.wire[i] = calloc(A.wire_cap, sizeof(uint32_t));
	atomic_store(&A.blackout, false);
	atomic_store(&A.blackout_until, 0);
	memset(A.inj, 0, sizeof(A.inj));
	memset(A.inj_seen, 0, sizeof(A.inj_seen));
	A.held = A.resend_seen = A.killed = A.early_unread = A.requests = A.id_reuse = 0;
	A.nrefq = 0;
	A.ref_pushed = 0;
	atomic_store(&A.ref_emitted, 0);
	atomic_store(&A.serial, 0);
	atomic_store(&A.stop, false);
	pthread_mutex_lock(&dl_mtx);
	if (dl_bits) memset(dl_bits, 0, dl_cap);
	pthread_mutex_unlock(&dl_mtx);
}

static void
adv_fini(void)
{
	free(A.tab);
	A.tab = NULL;
	for (int i = 0; i < MAXCTX; i++) {
		free(A.wire[i]);
		A.wire[i] = NULL;
	}
	pthread_mutex_destroy(&A.mtx);
}

static idrec *
id_lookup(uint32_t id, bool insert)
{
	uint32_t h = (uint32_t) vf_mix64(id) & (A.cap - 1);
	for (;;) {
		idrec *e = &A.tab[h];
		if (e->seen == 0 && e->id == 0) {
			if (!insert) return NULL;
			if (A.used * 2 >= A.cap) vf_harness_fail("adversary id table full (%u)", A.used);
			A.used++;
			e->id = id;
			return e;
		}
		if (e->id == id) return e;
		h = (h + 1) & (A.cap - 1);
	}
}

// one extra (adversarial) frame; returns 0 or 1 frames.  A.mtx held.
static int
adv_extra(uint32_t cur_id, pframe *out)
{
	vf_rng  *r = &A.rng;
	uint32_t rid;
	idrec   *er;
	int      st;
	if (A.nrecent == 0) return 0;
	uint32_t span = A.nrecent < 256 ? A.nrecent : 256;
	// bias towards the most recent ids (their contexts are still busy)
	uint32_t back = vf_chance(r, 1, 2) ? vf_below(r, span < 12 ? span : 12) : vf_below(r, span);
	rid = A.recent[(A.nrecent - 1 - back) & 255];
	if (vf_chance(r, 1, 6)) rid = cur_id;
	if ((er = id_lookup(rid, false)) == NULL) return 0;
	int c = (int) (er->tag & 0xff);
	st = er->seq < A.latest_seq[c] ? IS_OLD : er->answered ? IS_LATEST_ANSWERED : IS_LATEST_OPEN;
	out->tag = er->tag;
	out->seq = er->seq;
	out->defer_ms = 0;
	if (vf_chance(r, 1, 5)) {
		// the id without the request bit: never a known request id
		out->idword = rid & 0x7fffffffu;
		out->klass  = K_NOBIT;
	} else {
		out->idword = rid;
		if (st == IS_OLD) {
			out->klass = er->answered ? K_DUP : K_STALE;
		} else if (st == IS_LATEST_ANSWERED) {
			out->klass = K_DUP;
		} else {
			// a request that (as far as we know) is outstanding and
			// unanswered.  Held requests must stay unanswered; the
			// current one is answered by the main reply.
			if (((er->tag >> 8) & 0xff) == D_HOLD || rid == cur_id) return 0;
			out->klass = K_OTHER;
			er->answered++;
		}
	}
	A.inj[out->klass]++;
	A.inj_seen[st][out->klass] = true;
	return 1;
}

// the id with which ctx c's request 'seq' was seen on the wire (0: not yet)
static uint32_t
adv_wire_id(int c, uint32_t seq)
{
	uint32_t id = 0;
	pthread_mutex_lock(&A.mtx);
	if (A.wire[c] != NULL && seq < A.wire_cap) id = A.wire[c][seq];
	pthread_mutex_unlock(&A.mtx);
	return id;
}

// Replies carrying ids next to one just seen, which the adversary has NOT
// seen: ids are handed out sequentially, so these are the ids of requests that
// never reached the wire (abandoned while queued), or not yet.  A.mtx held.
static int
adv_neighbours(uint32_t id, uint32_t tag, uint32_t seq, pframe *out)
{
	static const int d[4] = { -1, -2, -3, 1 };
	int              n = 0;
	for (int i = 0; i < 4; i++) {
		uint32_t nid = (id + (uint32_t) d[i]) | 0x80000000u;
		if (nid == id || id_lookup(nid, false) != NULL) continue;
		out[n].idword = nid;
		out[n].tag = tag; // (tag, seq) of the request that was seen
		out[n].seq = seq;
		out[n].klass = K_NEIGHBOUR;
		out[n].defer_ms = 0;
		A.inj[K_NEIGHBOUR]++;
		A.inj_seen[IS_LATEST_OPEN][K_NEIGHBOUR] = true;
		n++;
	}
	return n;
}

// A context tells the adversary the id of a request whose send was refused at
// once (the id is in the header of the message handed back).  Returns a ticket:
// A.ref_emitted >= ticket means the forged reply has been written.  0: not
// queued.
static long
adv_push_refused(uint32_t id, uint32_t tag, uint32_t seq)
{
	long ticket = 0;
	pthread_mutex_lock(&A.mtx);
	if (A.tab != NULL && A.nrefq < 64 && id_lookup(id, false) == NULL) {
		A.refq[A.nrefq].id = id;
		A.refq[A.nrefq].tag = tag;
		A.refq[A.nrefq].seq = seq;
		A.nrefq++;
		ticket = ++A.ref_pushed;
	}
	pthread_mutex_unlock(&A.mtx);
	return ticket;
}

static int
adv_pop_refused(pframe *out, int max)
{
	int n = 0;
	pthread_mutex_lock(&A.mtx);
	while (n < max && A.nrefq > 0) {
		out[n].idword = A.refq[0].id;
		out[n].tag = A.refq[0].tag;
		out[n].seq = A.refq[0].seq;
		out[n].klass = K_REFUSED;
		out[n].defer_ms = 0;
		A.nrefq--;
		memmove(&A.refq[0], &A.refq[1], (size_t) A.nrefq * sizeof(A.refq[0]));
		A.inj[K_REFUSED]++;
		A.inj_seen[IS_OLD][K_REFUSED] = true;
		n++;
	}
	pthread_mutex_unlock(&A.mtx);
	return n;
}

static void
adv_account(idrec *e, int c, int klass)
{
	int st = e->seq < A.latest_seq[c < MAXCTX ? c : 0] ? IS_OLD : e->answered ? IS_LATEST_ANSWERED : IS_LATEST_OPEN;
	A.inj[klass]++;
	A.inj_seen[st][klass] = true;
	if (e->answered < 0xffff) e->answered++;
}

// Decide what to send in response to one request frame.
static int
adv_plan(uint32_t id, uint32_t tag, uint32_t seq, bool early, long unread, pframe *out, bool *kill)
{
	int      n = 0;
	int      c = (int) (tag & 0xff), dir = (int) ((tag >> 8) & 0xff);
	vf_rng  *r = &A.rng;
	pthread_mutex_lock(&A.mtx);
	idrec *e = id_lookup(id, true);
	A.requests++;
	bool fresh = e->seen == 0;
	if (c < MAXCTX && seq < A.wire_cap) A.wire[c][seq] = id;
	if (A.blackouts && A.requests >= A.next_blackout && !atomic_load(&A.blackout)) {
		// drop every connection and accept none for a while: requests
		// sent meanwhile stay queued inside the REQ socket
		A.next_blackout = A.requests + 40 + (long) vf_below(&A.rng, 160);
		A.nblackouts++;
		atomic_store(&A.blackout_until, vf_now_ns() + (uint64_t) vf_range(&A.rng, 8, 25) * 1000000ULL);
		atomic_store(&A.blackout, true);
	}
	if (e->seen == 0) {
		e->tag = tag;
		e->seq = seq;
		if (c < MAXCTX && seq > A.latest_seq[c]) A.latest_seq[c] = seq;
		A.recent[A.nrecent++ & 255] = id;
	} else if (e->tag != tag || e->seq != seq) {
		// the socket reused an id for a different request (wrap): legal,
		// but then "stale" is ambiguous - remember the new owner
		A.id_reuse++;
		e->tag = tag;
		e->seq = seq;
		e->answered = 0;
		if (c < MAXCTX && seq > A.latest_seq[c]) A.latest_seq[c] = seq;
	} else {
		A.resend_seen++;
	}
	if (e->seen < 0xffff) e->seen++;
	// A retransmission gets the plain answer only: nng resends an expired
	// request on every resend tick, and amplifying that would only measure
	// how fast the requester can throw garbage away.
	bool     again = e->seen > 2;
	uint32_t k = vf_below(r, 100);
	int npre = again ? 0 : k < 45 ? 0 : k < 75 ? 1 : k < 92 ? 2 : 3;
	for (int i = 0; i < npre; i++) n += adv_extra(id, &out[n]);
	if (fresh && vf_chance(r, 1, (uint32_t) A.neigh_den)) n += adv_neighbours(id, tag, seq, &out[n]);
	if (dir == D_HOLD) {
		A.held++;
	} else {
		pframe *f = &out[n++];
		f->idword = id;
		f->tag = tag;
		f->seq = seq;
		f->defer_ms = 0;
		if (dir == D_DELAY) {
			f->klass = K_DELAYED;
			// about one resend interval, so reply and resend race
			int lo = A.delay_ms > 3 ? A.delay_ms - 3 : 0;
			f->defer_ms = (int) vf_range(r, (uint32_t) lo, (uint32_t) A.delay_ms + 3);
		} else if (early) {
			f->klass = K_EARLY;
			A.early_unread += unread;
		} else {
			f->klass = K_CORRECT;
			// sometimes be lazy, so that the request stays open long
			// enough for another connection to answer it first
			if (!again && vf_chance(r, 1, 6)) f->defer_ms = (int) vf_range(r, 1, 3);
		}
		if (f->defer_ms == 0) {
			adv_account(e, c, f->klass);
			if (!again && vf_chance(r, 1, 4)) {
				// an immediate duplicate of the reply just sent
				pframe *d = &out[n++];
				*d = *f;
				d->klass = K_DUP;
				adv_account(e, c, K_DUP);
			}
		} // deferred frames are accounted when they are sent
	}
	if (!again && vf_chance(r, 1, 5)) n += adv_extra(id, &out[n]);
	*kill = A.kills && !again && vf_chance(r, 1, 120);
	if (*kill) {
		A.killed++;
		A.inj[K_SHORT]++;
	}
	pthread_mutex_unlock(&A.mtx);
	return n;
}

// a deferred frame is about to be sent: classify it by what happened since
static void
adv_account_deferred(pframe *f)
{
	pthread_mutex_lock(&A.mtx);
	idrec *e = id_lookup(f->idword, false);
	if (e != NULL) {
		if (f->klass == K_CORRECT && e->answered) f->klass = K_DUP;
		adv_account(e, (int) (f->tag & 0xff), f->klass);
	}
	pthread_mutex_unlock(&A.mtx);
}

// reply body: vf body echoing (tag, seq) of the id, then {serial, class, id word}
#define TRAILER 12
static size_t
build_reply(uint8_t *buf, const pframe *f)
{
	uint32_t serial = atomic_fetch_add(&A.serial, 1);
	size_t   bl = VF_BODY_MIN + (size_t) (vf_mix64(((uint64_t) f->seq << 20) ^ serial) % 48);
	vf_body_make(buf, bl, f->tag, f->seq);
	put32(buf + bl, serial);
	put32(buf + bl + 4, (uint32_t) f->klass);
	put32(buf + bl + 8, f->idword);
	return bl + TRAILER;
}

// ------------------------------------------------------------ tcp adversary
typedef struct {
	int       fd;
	pthread_t thr;
} tconn;

static struct {
	int       lfd;
	uint16_t  port;
	pthread_t acc;
	tconn     conns[512];
	int       nconns;
} T;

static int
tcp_emit(int fd, const pframe *f)
{
	uint8_t buf[8 + 4 + 128];
	size_t  bl = build_reply(buf + 12, f);
	memset(buf, 0, 8);
	put32(buf + 4, (uint32_t) (bl + 4));
	put32(buf + 8, f->idword);
	return vf_fd_write_all(fd, buf, 12 + bl, 5000);
}

static void *
tcp_conn_thread(void *arg)
{
	int      fd = (int) (intptr_t) arg;
	uint16_t peer = 0;
	const size_t bigsz = 1 << 20;
	uint8_t *big = malloc(bigsz);
	deferred dq[64];
	int      ndq = 0;
	vf_rng   lr;
	vf_rng_seed(&lr, vf_mix64((uint64_t) fd), 99);

	if (vf_sp_handshake(fd, 0x31, &peer, 5000) != 0 || peer != 0x30) {
		free(big);
		close(fd);
		return NULL;
	}
	for (;;) {
		// flush deferred replies that are due
		uint64_t now = vf_now_ns(), next = 0;
		for (int i = 0; i < ndq;) {
			if (dq[i].due <= now) {
				adv_account_deferred(&dq[i].f);
				if (tcp_emit(fd, &dq[i].f) != 0) goto out;
				dq[i] = dq[--ndq];
			} else {
				if (next == 0 || dq[i].due < next) next = dq[i].due;
				i++;
			}
		}
		if (atomic_load(&A.blackout)) break; // drop the connection
		{
			// "replies" to requests whose send was refused
			pframe rf[8];
			int    nr = adv_pop_refused(rf, 8);
			bool   lost = false;
			for (int i = 0; i < nr && !lost; i++) lost = tcp_emit(fd, &rf[i]) != 0;
			// (written or lost, they are dealt with: nobody need wait)
			if (nr) atomic_fetch_add(&A.ref_emitted, nr);
			if (lost) goto out;
		}
		int to = A.blackouts ? 2 : 50;
		if (next != 0) {
			to = (int) ((next - now) / 1000000) + 1;
			if (to > (A.blackouts ? 2 : 50)) to = A.blackouts ? 2 : 50;
		}
		struct pollfd p = { fd, POLLIN, 0 };
		int           pr = poll(&p, 1, to);
		if (pr < 0 && errno != EINTR) break;
		if (pr <= 0) continue;
		uint8_t hdr[8 + 4 + VF_BODY_MIN];
		long    got = vf_fd_read_full(fd, hdr, sizeof(hdr), LONG_MS);
		if (got == 0) break; // REQ socket closed the connection
		if (got != (long) sizeof(hdr)) {
			if (!atomic_load(&A.stop)) vf_violation("C04/request-garbled/short-frame", "raw REP peer read only %ld bytes of a request frame", got);
			break;
		}
		uint64_t len = ((uint64_t) get32(hdr) << 32) | get32(hdr + 4);
		if (len < 4 + VF_BODY_MIN || len > bigsz) {
			vf_violation("C04/request-garbled/length", "request frame of %llu bytes", (unsigned long long) len);
			break;
		}
		uint32_t id = get32(hdr + 8);
		uint32_t tag = get32(hdr + 12 + 4);
		uint32_t seq = get32(hdr + 12 + 12);
		size_t   rest = (size_t) len - 4 - VF_BODY_MIN;
		if ((id & 0x80000000u) == 0) {
			vf_violation("C04/request-id/no-request-bit", "REQ sent id %08x without the request bit", id);
		}
		bool   early = rest >= 65536 && vf_chance(&lr, 3, 4);
		bool   kill = false;
		pframe pl[16];
		int    n = 0;
		if (early) {
			// answer before the request body has been read (and, with the
			// small receive buffer of this case, before it was written)
			n = adv_plan(id, tag, seq, true, (long) rest, pl, &kill);
			for (int i = 0; i < n; i++) {
				if (pl[i].defer_ms == 0 && tcp_emit(fd, &pl[i]) != 0) goto out;
			}
		}
		memcpy(big, hdr + 12, VF_BODY_MIN);
		uint64_t rb0 = vf_now_ns();
		long     rgot = rest ? vf_fd_read_full(fd, big + VF_BODY_MIN, rest, LONG_MS) : 0;
		if (rgot != (long) rest) {
			if (!atomic_load(&A.stop)) vf_violation("C04/request-garbled/truncated", "request body truncated: frame of ctx %u seq %u (id %08x) announced %llu bytes, %ld of the remaining %zu arrived in %llu ms (%s)", tag & 0xff, seq, id, (unsigned long long) len, rgot, rest, (unsigned long long) ((vf_now_ns() - rb0) / 1000000), early ? "answered early" : "not answered yet");
			break;
		}
		uint32_t t2;
		uint64_t s2;
		if (vf_body_check(big, VF_BODY_MIN + rest, &t2, &s2) != 0) {
			vf_violation("C04/request-garbled/body", "request body of %zu bytes fails its checksum", VF_BODY_MIN + rest);
			break;
		}
		if (!early) {
			n = adv_plan(id, tag, seq, false, 0, pl, &kill);
			for (int i = 0; i < n; i++) {
				if (pl[i].defer_ms == 0 && tcp_emit(fd, &pl[i]) != 0) goto out;
			}
		}
		for (int i = 0; i < n; i++) {
			if (pl[i].defer_ms > 0) {
				if (ndq < 64) {
					dq[ndq].due = vf_now_ns() + (uint64_t) pl[i].defer_ms * 1000000ULL;
					dq[ndq].f = pl[i];
					ndq++;
				} else {
					adv_account_deferred(&pl[i]);
					if (tcp_emit(fd, &pl[i]) != 0) goto out;
				}
			}
		}
		if (kill) {
			// flush what we owe, then a short frame: the REQ side must
			// drop the connection (and nothing else)
			for (int i = 0; i < ndq; i++) {
				adv_account_deferred(&dq[i].f);
				if (tcp_emit(fd, &dq[i].f) != 0) goto out;
			}
			ndq = 0;
			uint8_t sf[11];
			int     sl = (int) vf_below(&lr, 4);
			memset(sf, 0, 8);
			sf[7] = (uint8_t) sl;
			sf[8] = 0x80;
			sf[9] = sf[10] = 0x11;
			vf_fd_write_all(fd, sf, 8 + (size_t) sl, 5000);
			if (!vf_fd_wait_eof(fd, LONG_MS) && !atomic_load(&A.stop)) {
				vf_violation("C04/short-frame/not-dropped", "REQ kept a connection open after a %d-byte frame", sl);
			}
			break;
		}
	}
out:
	free(big);
	close(fd);
	return NULL;
}

static void *
tcp_accept_thread(void *arg)
{
	(void) arg;
	while (!atomic_load(&A.stop)) {
		if (atomic_load(&A.blackout)) {
			if (vf_now_ns() < atomic_load(&A.blackout_until)) {
				vf_msleep(1);
				continue;
			}
			atomic_store(&A.blackout, false);
		}
		int fd = vf_tcp_accept(T.lfd, A.blackouts ? 2 : 20);
		if (fd < 0) continue;
		if (T.nconns >= 512) {
			close(fd);
			continue;
		}
		T.conns[T.nconns].fd = fd;
		if (pthread_create(&T.conns[T.nconns].thr, NULL, tcp_conn_thread, (void *) (intptr_t) fd) != 0) vf_harness_fail("pthread_create");
		T.nconns++;
	}
	return NULL;
}

// ------------------------------------------------------------ xrep adversary
static struct {
	nng_socket s;
	pthread_t  thr;
} X;

static int
xrep_emit(uint32_t pipe, const pframe *f)
{
	nng_msg *m;
	uint8_t  buf[160];
	size_t   bl = build_reply(buf, f);
	int      rv;
	if (nng_msg_alloc(&m, 0) != 0) vf_harness_fail("msg alloc");
	nng_msg_header_append_u32(m, pipe);
	nng_msg_header_append_u32(m, f->idword);
	nng_msg_append(m, buf, bl);
	if ((rv = nng_sendmsg(X.s, m, 0)) != 0) {
		nng_msg_free(m);
	}
	return rv;
}

static void *
xrep_thread(void *arg)
{
	deferred dq[128];
	int      ndq = 0;
	vf_rng   lr;
	(void) arg;
	vf_rng_seed(&lr, 4242, 98);
	uint32_t lastpipe = 0;
	while (!atomic_load(&A.stop)) {
		uint64_t now = vf_now_ns();
		if (lastpipe != 0) {
			pframe rf[8];
			int    nr = adv_pop_refused(rf, 8);
			for (int i = 0; i < nr; i++) xrep_emit(lastpipe, &rf[i]);
			if (nr) atomic_fetch_add(&A.ref_emitted, nr);
		}
		for (int i = 0; i < ndq;) {
			if (dq[i].due <= now) {
				adv_account_deferred(&dq[i].f);
				xrep_emit(dq[i].pipe, &dq[i].f);
				dq[i] = dq[--ndq];
			} else {
				i++;
			}
		}
		nng_msg *m = NULL;
		int      rv = nng_recvmsg(X.s, &m, 0);
		if (rv == NNG_ETIMEDOUT) continue;
		if (rv != 0) break;
		uint32_t tag;
		uint64_t seq;
		if (nng_msg_header_len(m) != 8) {
			vf_violation("C04/request-garbled/backtrace", "raw REP got a request with a %zu-byte header from a directly connected REQ", nng_msg_header_len(m));
			nng_msg_free(m);
			continue;
		}
		const uint8_t *h = nng_msg_header(m);
		uint32_t       pipe = get32(h), id = get32(h + 4);
		lastpipe = pipe;
		if (vf_body_check(nng_msg_body(m), nng_msg_len(m), &tag, &seq) != 0) {
			vf_violation("C04/request-garbled/body", "request body of %zu bytes fails its checksum", nng_msg_len(m));
			nng_msg_free(m);
			continue;
		}
		nng_msg_free(m);
		pframe pl[16];
		bool   kill = false;
		int    n = adv_plan(id, tag, (uint32_t) seq, false, 0, pl, &kill);
		for (int i = 0; i < n; i++) {
			if (pl[i].defer_ms > 0 && ndq < 128) {
				dq[ndq].due = vf_now_ns() + (uint64_t) pl[i].defer_ms * 1000000ULL;
				dq[ndq].f = pl[i];
				dq[ndq].pipe = pipe;
				ndq++;
			} else {
				if (pl[i].defer_ms > 0) adv_account_deferred(&pl[i]);
				xrep_emit(pipe, &pl[i]);
			}
		}
		if (kill) {
			// a frame shorter than a request id: header is just the route
			nng_msg *sm;
			int      sl = (int) vf_below(&lr, 4);
			if (nng_msg_alloc(&sm, (size_t) sl) != 0) vf_harness_fail("msg alloc");
			if (sl) memset(nng_msg_body(sm), 0x80, (size_t) sl);
			nng_msg_header_append_u32(sm, pipe);
			if (nng_sendmsg(X.s, sm, 0) != 0) nng_msg_free(sm);
		}
	}
	return NULL;
}

// ------------------------------------------------------------ real REP side
typedef struct {
	nng_socket s;
	nng_ctx    ctx;
	pthread_t  thr;
	int        delay_ms;
} repworker;

static struct {
	nng_socket socks[4];
	int        nsocks;
	repworker  w[16];
	int        nw;
	_Atomic long served, dropped_hold;
} P;

static void *
rep_worker(void *arg)
{
	repworker *w = arg;
	nng_aio   *aio;
	if (nng_aio_alloc(&aio, NULL, NULL) != 0) vf_harness_fail("aio alloc");
	while (!atomic_load(&A.stop)) {
		nng_aio_set_timeout(aio, 20);
		nng_ctx_recv(w->ctx, aio);
		nng_aio_wait(aio);
		int rv = nng_aio_result(aio);
		if (rv == NNG_ETIMEDOUT) continue;
		if (rv != 0) break;
		nng_msg *m = nng_aio_get_msg(aio);
		uint32_t tag;
		uint64_t seq;
		if (vf_body_check(nng_msg_body(m), nng_msg_len(m), &tag, &seq) != 0) {
			vf_violation("C04/request-garbled/body", "REP received a request body of %zu bytes that fails its checksum", nng_msg_len(m));
			nng_msg_free(m);
			continue;
		}
		nng_msg_free(m);
		int dir = (int) ((tag >> 8) & 0xff);
		if (dir == D_HOLD) {
			// the application never answers this one
			atomic_fetch_add(&P.dropped_hold, 1);
			continue;
		}
		if (dir == D_DELAY) vf_msleep(w->delay_ms);
		pframe  f = { .idword = 0, .tag = tag, .seq = (uint32_t) seq, .klass = K_ECHO };
		uint8_t buf[160];
		size_t  bl = build_reply(buf, &f);
		if (nng_msg_alloc(&m, 0) != 0) vf_harness_fail("msg alloc");
		nng_msg_append(m, buf, bl);
		nng_aio_set_msg(aio, m);
		nng_aio_set_timeout(aio, LONG_MS);
		nng_ctx_send(w->ctx, aio);
		nng_aio_wait(aio);
		if ((rv = nng_aio_result(aio)) != 0) {
			nng_msg_free(nng_aio_get_msg(aio));
			if (rv == NNG_ECLOSED) break;
			continue;
		}
		atomic_fetch_add(&P.served, 1);
	}
	nng_aio_free(aio);
	return NULL;
}

// ------------------------------------------------------------ expiry watch
// The library's trace hook tells us every time the expire loop picks one of
// the harness's aios for a timeout.  An NNG_ETIMEDOUT long before the 10 s the
// harness asked for is excused (as the timer defect of property C02: a stale
// pick of an earlier operation on the same aio) only if such a pick exists
// that no completed timeout accounts for; a timeout the timer never produced
// is this property's business.  A pick explains only an operation that was
// started no later than PICK_AGE_NS after it: the stale cancellation follows
// its pick within a fraction of a second (C02 demands 250 ms), so a pick whose
// cancellation hit nothing does not stay good for ever.
#define NWATCH (MAXCTX * 4)
#define PICK_AGE_NS 2000000000ULL
typedef struct {
	_Atomic(const void *) aio;
	_Atomic long          picks;
	_Atomic uint64_t      last_pick_ns;
} watch;
static watch WT[NWATCH];

static void
c04_ev(int ev, const void *obj, uintptr_t a, uintptr_t b)
{
	(void) b;
	if (ev != NNI_VE_AIO_EXPIRE || (int) a != NNG_ETIMEDOUT) return;
	for (int i = 0; i < NWATCH; i++) {
		if (atomic_load_explicit(&WT[i].aio, memory_order_relaxed) == obj) {
			atomic_store(&WT[i].last_pick_ns, vf_now_ns());
			atomic_fetch_add(&WT[i].picks, 1);
			return;
		}
	}
}

enum { W_SEND, W_SEND2, W_RECV, W_RECV2 };

// ------------------------------------------------------------ requester side
typedef struct {
	int            idx;
	bool           is_sock;
	nng_socket     sock;
	nng_ctx        ctx;
	nng_aio       *saio, *saio2, *raio, *raio2;
	long           acct[4]; // expire-loop picks of our aios already accounted for
	uint64_t       t0[4];   // when the current operation on each aio was submitted
	const casecfg *cc;
	vf_rng         rng;
	long           quota;
	uint32_t       seq;
	uint32_t       cur; // seq of the outstanding request, 0 = none
	uint8_t       *status;
	uint32_t       status_cap;
	int            last_state; // ST_* of the most recently finished request
	int            cur_retry;
	// evidence
	long dlv[K_N], ops[OP_N], estate_ok, connreset, premature, timeouts, abort_won, abort_lost, clobbered, over_cancelled, over_delivered, retry_changes, sends;
	long abandoned[ST_N], abandon_sent, neigh_collision, neigh_unjudged;
	long estate_second, sync_ops, nb_eagain, nb_reply, sync_estate;
	long picks_voided, refused[3], nb_accepted[3], refused_estate, refused_estate_sync, refused_forged_probed, refused_next, refused_id_known;
	long sendrecv_together, sendrecv_estate, timeout_race_won, timeout_race_lost;
	bool refused_seen[3][2];
	bool dlv_seen[OP_N][K_N];
} cthr;

// pipes may vanish under the contexts (then ECONNRESET is a legal outcome
// when resending is disabled)
#define LOSSY(cc) ((cc)->kills || (cc)->blackouts)

static uint32_t
mktag(const cthr *t, int dir)
{
	return (t->cc->nonce << 16) | ((uint32_t) dir << 8) | (uint32_t) t->idx;
}

// An operation on aio 'which' ended with NNG_ETIMEDOUT: is there a pick by the
// expire loop that explains it?  (Consumes the pick.)
static bool
timer_explains(cthr *t, int which)
{
	watch *w = &WT[t->idx * 4 + which];
	long   picks = atomic_load(&w->picks);
	if (picks > t->acct[which]) {
		uint64_t last = atomic_load(&w->last_pick_ns);
		if (t->t0[which] != 0 && last + PICK_AGE_NS < t->t0[which]) {
			// every unaccounted pick is older than that: void them
			t->picks_voided += picks - t->acct[which];
			t->acct[which] = picks;
			return false;
		}
		t->acct[which]++;
		return true;
	}
	return false;
}

static void
early_timeout(cthr *t, const char *what, uint32_t seq, unsigned long long el)
{
	char key[96];
	snprintf(key, sizeof(key), "C04/disturbed/timeout-without-timer/%s", what);
	vf_violation(key, "ctx %d: %s for request seq %u failed with NNG_ETIMEDOUT after %llu ms although its timeout is %d ms and the expire loop never picked the aio", t->idx, what, seq, el, LONG_MS);
}

static void
set_status(cthr *t, uint32_t seq, int st)
{
	if (seq < t->status_cap) t->status[seq] = (uint8_t) st;
	if (st != ST_OUT) t->last_state = st;
}

static const char *
errname(int rv)
{
	switch (rv) {
	case 0: return "ok";
	case NNG_ETIMEDOUT: return "ETIMEDOUT";
	case NNG_ESTATE: return "ESTATE";
	case NNG_ECANCELED: return "ECANCELED";
	case NNG_ECONNRESET: return "ECONNRESET";
	case NNG_ECLOSED: return "ECLOSED";
	case NNG_EAGAIN: return "EAGAIN";
	case NNG_ENOMEM: return "ENOMEM";
	default: return "other";
	}
}

static size_t
req_size(cthr *t, bool big)
{
	if (big) return 100000 + vf_below(&t->rng, 300000);
	return VF_BODY_MIN + (vf_chance(&t->rng, 1, 10) ? vf_below(&t->rng, 3000) : vf_below(&t->rng, 120));
}

// send a new request; returns 0 and makes it the outstanding one
static int
t_send(cthr *t, int dir, bool big)
{
	nng_msg *m;
	size_t   size = req_size(t, big);
	int      rv;
	if (nng_msg_alloc(&m, size) != 0) vf_harness_fail("msg alloc");
	uint32_t seq = ++t->seq;
	vf_body_make(nng_msg_body(m), size, mktag(t, dir), seq);
	if (t->cur != 0) {
		// whatever happens to this send, the old request is gone:
		// req0_ctx_send resets the state machine first
		set_status(t, t->cur, ST_SUPERSEDED);
		t->cur = 0;
	}
	for (int attempt = 0;; attempt++) {
		uint64_t t0 = vf_now_ns();
		t->t0[W_SEND] = t0;
		nng_aio_set_msg(t->saio, m);
		nng_aio_set_timeout(t->saio, LONG_MS);
		if (t->is_sock) {
			nng_socket_send(t->sock, t->saio);
		} else {
			nng_ctx_send(t->ctx, t->saio);
		}
		nng_aio_wait(t->saio);
		if ((rv = nng_aio_result(t->saio)) == 0) break;
		m = nng_aio_get_msg(t->saio);
		nng_aio_set_msg(t->saio, NULL);
		uint64_t el = (vf_now_ns() - t0) / 1000000;
		if (rv == NNG_ETIMEDOUT && el < LONG_MS * 9 / 10 && attempt < 5 && m != NULL) {
			// a timeout long before the configured one is a timer
			// defect (property C02), not this property - if it was
			// the timer
			if (timer_explains(t, W_SEND)) {
				t->premature++;
				continue;
			}
			early_timeout(t, "send", seq, (unsigned long long) el);
		} else if (rv == NNG_ETIMEDOUT) {
			(void) timer_explains(t, W_SEND);
		}
		if (m != NULL) nng_msg_free(m);
		char key[96];
		snprintf(key, sizeof(key), "C04/disturbed/send-failed/%s", errname(rv));
		vf_violation(key, "ctx %d: sending request seq %u failed after %llu ms: %s (mode %s, %d pipes)", t->idx, seq,
		    (unsigned long long) el, nng_strerror(rv), mname[t->cc->mode], t->cc->npipes);
		set_status(t, seq, ST_SENDFAIL);
		return rv;
	}
	t->sends++;
	set_status(t, seq, ST_OUT);
	t->cur = seq;
	return 0;
}

static void
t_recv_start(cthr *t, int timeout_ms)
{
	nng_aio_set_timeout(t->raio, timeout_ms);
	t->t0[W_RECV] = vf_now_ns();
	if (t->is_sock) {
		nng_socket_recv(t->sock, t->raio);
	} else {
		nng_ctx_recv(t->ctx, t->raio);
	}
}

static int
t_recv_wait(cthr *t, nng_msg **mp)
{
	int rv;
	nng_aio_wait(t->raio);
	rv = nng_aio_result(t->raio);
	*mp = nng_aio_get_msg(t->raio);
	nng_aio_set_msg(t->raio, NULL);
	if (rv != 0 && *mp != NULL) {
		// The receive completed with a reply and a late nng_aio_cancel
		// then overwrote the result (nni_aio_abort on a finished aio
		// stores the error).  That is an aio defect (property C02); for
		// this property the reply WAS delivered, so judge it as such.
		t->clobbered++;
		rv = 0;
	} else if (rv == 0 && *mp == NULL) {
		vf_violation("C04/reply-garbled/no-message", "ctx %d: receive returned 0 without a message", t->idx);
		rv = NNG_EINTERNAL;
	}
	return rv;
}

// A receive returned a message while request 'expect' (0: none) was the
// outstanding one.
static void
judge(cthr *t, nng_msg *m, uint32_t expect, int op)
{
	const uint8_t *b = nng_msg_body(m);
	size_t         len = nng_msg_len(m);
	uint32_t       tag, serial, kl;
	uint64_t       seq64;
	if (len < VF_BODY_MIN + TRAILER || vf_body_check(b, len - TRAILER, &tag, &seq64) != 0) {
		vf_violation("C04/reply-garbled", "ctx %d op %s: delivered a %zu-byte message that is not one of the replies sent", t->idx, opname[op], len);
		nng_msg_free(m);
		return;
	}
	serial = get32(b + len - 12);
	kl     = get32(b + len - 8);
	uint32_t idword = get32(b + len - 4);
	if (kl >= K_N) kl = K_N - 1;
	uint32_t seq = (uint32_t) seq64;
	int      c = (int) (tag & 0xff);
	bool     bad = false;
	if ((tag >> 16) != t->cc->nonce) {
		vf_violation("C04/foreign-reply", "ctx %d: delivered a reply that belongs to another case (tag %08x)", t->idx, tag);
		bad = true;
	}
	if (mark_delivered(serial)) {
		vf_violation("C04/at-most-once/frame-delivered-twice", "ctx %d op %s: reply frame #%u (%s, for ctx %d seq %u) was delivered a second time", t->idx, opname[op], serial, kname[kl], c, seq);
		bad = true;
	}
	if (!bad && kl == K_REFUSED) {
		// The id of a request whose send was refused on the spot: it was
		// unregistered then and ids do not repeat within a case, so no
		// request, past or present, can be answered by it.
		char key[128];
		snprintf(key, sizeof(key), "C04/unknown-id-delivered/refused-send-id/%s", opname[op]);
		vf_violation(key, "ctx %d op %s (outstanding seq %u): reply frame #%u carrying id %08x was delivered; that id belonged to ctx %d's request seq %u whose non-blocking send was refused (never queued, never sent)", t->idx, opname[op], expect, serial, idword, c, seq);
		nng_msg_free(m);
		return;
	}
	if (!bad && kl == K_NEIGHBOUR) {
		// A reply with an id the peer never saw.  It may legitimately hit
		// a request that is (or was about to be) on the wire with exactly
		// that id; it must never be taken for a request known to be on
		// the wire with a different id.
		uint32_t wid = expect != 0 ? adv_wire_id(t->idx, expect) : 0;
		if (expect == 0 || (wid != 0 && wid != idword)) {
			char key[128];
			int  st = (expect > 1 && expect - 1 < t->status_cap) ? t->status[expect - 1] : t->last_state;
			snprintf(key, sizeof(key), "C04/unknown-id-delivered/neighbour-id-after-%s", stname[st]);
			vf_violation(key, "ctx %d op %s: outstanding request seq %u is on the wire with id %08x, yet reply frame #%u carrying id %08x (never sent by anyone; the context's previous request was %s) was delivered as its answer", t->idx, opname[op], expect, wid, serial, idword, stname[st]);
		} else if (wid == idword) {
			t->neigh_collision++;
			t->dlv[kl]++;
			t->dlv_seen[op][kl] = true;
		} else {
			t->neigh_unjudged++; // current request not seen on the wire yet
		}
		nng_msg_free(m);
		return;
	}
	if (!bad && kl == K_NOBIT) {
		char key[96];
		snprintf(key, sizeof(key), "C04/unknown-id-delivered/nobit/%s", opname[op]);
		vf_violation(key, "ctx %d: a reply whose id lacks the request bit (copy of ctx %d seq %u) was delivered; outstanding seq %u", t->idx, c, seq, expect);
		bad = true;
	}
	if (!bad && expect == 0) {
		char key[128];
		snprintf(key, sizeof(key), "C04/delivered-without-request/after-%s/%s", stname[t->last_state], kname[kl]);
		vf_violation(key, "ctx %d: receive returned reply frame #%u (%s, for ctx %d seq %u) although no request was outstanding (previous request %s)", t->idx, serial, kname[kl], c, seq, stname[t->last_state]);
		bad = true;
	}
	if (!bad && c != t->idx) {
		char key[96];
		snprintf(key, sizeof(key), "C04/wrong-context/%s", kname[kl]);
		vf_violation(key, "ctx %d (outstanding seq %u) was handed reply frame #%u (%s) that answers ctx %d seq %u", t->idx, expect, serial, kname[kl], c, seq);
		bad = true;
	}
	if (!bad && seq != expect) {
		char key[128];
		int  st = seq < t->status_cap ? t->status[seq] : ST_NONE;
		snprintf(key, sizeof(key), "C04/stale-delivered/%s/%s", stname[st], kname[kl]);
		vf_violation(key, "ctx %d op %s: outstanding request is seq %u but reply frame #%u (%s) for seq %u (%s) was delivered", t->idx, opname[op], expect, serial, kname[kl], seq, stname[st]);
		bad = true;
	}
	if (!bad) {
		t->dlv[kl]++;
		t->dlv_seen[op][kl] = true;
	}
	nng_msg_free(m);
}

// recv with no outstanding request must fail with NNG_ESTATE
static int
probe_idle(cthr *t)
{
	nng_msg *m;
	int      rv;
	t->ops[OP_PROBE]++;
	t_recv_start(t, 200);
	rv = t_recv_wait(t, &m);
	if (rv == 0) {
		judge(t, m, 0, OP_PROBE);
	} else if (rv == NNG_ESTATE) {
		t->estate_ok++;
	} else if (rv == NNG_ECONNRESET && LOSSY(t->cc) && t->cc->retry_ms <= 0) {
		t->connreset++; // the one-shot "your pipe went away" notice
	} else {
		char key[96];
		snprintf(key, sizeof(key), "C04/state/req-recv-without-request/%s", errname(rv));
		vf_violation(key, "ctx %d: receive with no outstanding request (previous %s) returned %s, expected NNG_ESTATE", t->idx, stname[t->last_state], nng_strerror(rv));
	}
	return rv;
}

// the same through the synchronous wrappers
static int
probe_idle_sync(cthr *t, bool nonblock)
{
	nng_msg *m = NULL;
	int      fl = nonblock ? NNG_FLAG_NONBLOCK : 0;
	int      rv = t->is_sock ? nng_recvmsg(t->sock, &m, fl) : nng_ctx_recvmsg(t->ctx, &m, fl);
	if (rv == 0) {
		judge(t, m, 0, OP_SYNC);
	} else if (rv == NNG_ESTATE) {
		t->sync_estate++;
	} else if (!(rv == NNG_ECONNRESET && LOSSY(t->cc) && t->cc->retry_ms <= 0)) {
		char key[96];
		snprintf(key, sizeof(key), "C04/state/req-recv-without-request/sync-%s", errname(rv));
		vf_violation(key, "ctx %d: %s synchronous receive with no outstanding request (previous %s) returned %s, expected NNG_ESTATE", t->idx, nonblock ? "non-blocking" : "blocking", stname[t->last_state], nng_strerror(rv));
	}
	return rv;
}

// While the context's receive is posted (or has just completed) a second
// receive must be refused with NNG_ESTATE and must not disturb the first.
static void
second_recv(cthr *t)
{
	nng_aio_set_timeout(t->raio2, 2000);
	t->t0[W_RECV2] = vf_now_ns();
	if (t->is_sock) {
		nng_socket_recv(t->sock, t->raio2);
	} else {
		nng_ctx_recv(t->ctx, t->raio2);
	}
	nng_aio_wait(t->raio2);
	int      rv = nng_aio_result(t->raio2);
	nng_msg *m = nng_aio_get_msg(t->raio2);
	bool     got = m != NULL;
	nng_aio_set_msg(t->raio2, NULL);
	if (m != NULL) nng_msg_free(m);
	if (rv == NNG_ESTATE) {
		t->estate_second++;
	} else if (rv == NNG_ECONNRESET && LOSSY(t->cc) && t->cc->retry_ms <= 0) {
		t->connreset++;
	} else {
		char key[96];
		if (rv == NNG_ETIMEDOUT) (void) timer_explains(t, W_RECV2);
		snprintf(key, sizeof(key), "C04/state/req-second-recv/%s/%s", t->is_sock ? "socket" : "context", errname(rv));
		vf_violation(key, "ctx %d: a second receive posted while the first is pending returned %s%s, expected NNG_ESTATE", t->idx, nng_strerror(rv), got ? " with a message" : "");
	}
}

// the receive for outstanding request 'cur' (posted at t0 with LONG_MS) ends
static void
recv_finish(cthr *t, int op, uint32_t cur, uint64_t t0)
{
	nng_msg *m;
	int      rv = t_recv_wait(t, &m);
	uint64_t el = (vf_now_ns() - t0) / 1000000;
	t->cur = 0;
	if (rv == 0) {
		set_status(t, cur, ST_ANSWERED);
		judge(t, m, cur, op);
	} else if (rv == NNG_ECONNRESET && LOSSY(t->cc) && t->cc->retry_ms <= 0) {
		set_status(t, cur, ST_CONNRESET);
		t->connreset++;
	} else if (rv == NNG_ETIMEDOUT && el < LONG_MS * 9 / 10) {
		set_status(t, cur, ST_TIMEDOUT);
		if (timer_explains(t, W_RECV)) {
			t->premature++;
		} else {
			early_timeout(t, "receive", cur, (unsigned long long) el);
		}
	} else {
		char key[96];
		if (rv == NNG_ETIMEDOUT) (void) timer_explains(t, W_RECV);
		snprintf(key, sizeof(key), "C04/disturbed/reply-not-delivered/%s/%s", opname[op], errname(rv));
		vf_violation(key, "ctx %d: the reply for seq %u was sent by the peer but receive failed after %llu ms: %s (mode %s, retry %d ms)", t->idx, cur, (unsigned long long) el, nng_strerror(rv), mname[t->cc->mode], t->cc->retry_ms);
		set_status(t, cur, ST_TIMEDOUT);
	}
}

// finish the outstanding request with a blocking receive
static void
recv_expect(cthr *t, int op)
{
	uint64_t t0 = vf_now_ns();
	uint32_t cur = t->cur;
	t_recv_start(t, LONG_MS);
	if (vf_chance(&t->rng, 1, 12)) second_recv(t);
	recv_finish(t, op, cur, t0);
}

// asynchronous halves of a send, for the operations that abandon a request
// while it is (possibly) still queued inside the socket
static uint32_t
t_send_begin(cthr *t, int dir, nng_aio *aio, int timeout_ms)
{
	nng_msg *m;
	size_t   size = req_size(t, false);
	if (nng_msg_alloc(&m, size) != 0) vf_harness_fail("msg alloc");
	uint32_t seq = ++t->seq;
	vf_body_make(nng_msg_body(m), size, mktag(t, dir), seq);
	if (t->cur != 0) {
		set_status(t, t->cur, ST_SUPERSEDED);
		t->cur = 0;
	}
	nng_aio_set_msg(aio, m);
	nng_aio_set_timeout(aio, timeout_ms);
	t->t0[aio == t->saio ? W_SEND : W_SEND2] = vf_now_ns();
	if (t->is_sock) {
		nng_socket_send(t->sock, aio);
	} else {
		nng_ctx_send(t->ctx, aio);
	}
	return seq;
}

// returns the send's result; 0: the request went to a pipe and is outstanding
static int
t_send_end(cthr *t, nng_aio *aio, uint32_t seq)
{
	nng_aio_wait(aio);
	int rv = nng_aio_result(aio);
	if (rv == 0) {
		t->sends++;
		set_status(t, seq, ST_OUT);
		t->cur = seq;
	} else {
		nng_msg *m = nng_aio_get_msg(aio);
		nng_aio_set_msg(aio, NULL);
		if (m != NULL) nng_msg_free(m);
	}
	return rv;
}

static int  probe_idle(cthr *t);
static void recv_expect(cthr *t, int op);

// A send that cannot wait (NNG_FLAG_NONBLOCK, an aio with a zero timeout or
// with an expiry time that has passed) is refused on the spot when no pipe is
// ready for it: the caller keeps the message, nothing is queued, no request
// exists.  So a receive must be rejected with NNG_ESTATE (all forms, at once),
// the id the socket had drawn for the request is dead (the raw peer "answers"
// it: the message handed back still carries it in its header), and the next
// request is an ordinary exchange.  When a pipe is ready the send is accepted
// and is an ordinary request.
enum { RF_AIO0, RF_EXPIRE, RF_SYNC, RF_N };
static const char *rfname[RF_N] = { "aio-timeout-0", "aio-expiry-past", "sync-nonblock" };

static void
op_refused(cthr *t)
{
	const casecfg *cc = t->cc;
	vf_rng        *r = &t->rng;
	nng_msg       *m;
	int            form = (int) vf_below(r, RF_N), rv;
	size_t         size = req_size(t, false);
	if (nng_msg_alloc(&m, size) != 0) vf_harness_fail("msg alloc");
	uint32_t seq = ++t->seq, tag = mktag(t, D_NORMAL);
	vf_body_make(nng_msg_body(m), size, tag, seq);
	if (t->cur != 0) {
		set_status(t, t->cur, ST_SUPERSEDED);
		t->cur = 0;
	}
	int pipes = vf_pipe_count(t->sock);
	if (form == RF_SYNC) {
		rv = t->is_sock ? nng_sendmsg(t->sock, m, NNG_FLAG_NONBLOCK) : nng_ctx_sendmsg(t->ctx, m, NNG_FLAG_NONBLOCK);
		if (rv == NNG_EAGAIN) rv = NNG_ETIMEDOUT;
		else if (rv == NNG_ETIMEDOUT) rv = NNG_EINTERNAL;
	} else {
		nng_aio_set_msg(t->saio, m);
		nng_aio_set_timeout(t->saio, form == RF_AIO0 ? 0 : LONG_MS);
		if (form == RF_EXPIRE) nng_aio_set_expire(t->saio, nng_clock());
		t->t0[W_SEND] = vf_now_ns();
		if (t->is_sock) {
			nng_socket_send(t->sock, t->saio);
		} else {
			nng_ctx_send(t->ctx, t->saio);
		}
		nng_aio_wait(t->saio);
		if ((rv = nng_aio_result(t->saio)) != 0) {
			m = nng_aio_get_msg(t->saio);
			nng_aio_set_msg(t->saio, NULL);
		}
	}
	if (rv == 0) {
		// a pipe was ready: accepted, an ordinary request
		t->sends++;
		t->nb_accepted[form]++;
		set_status(t, seq, ST_OUT);
		t->cur = seq;
		recv_expect(t, OP_NBSEND);
		return;
	}
	if (rv != NNG_ETIMEDOUT) {
		char key[96];
		snprintf(key, sizeof(key), "C04/disturbed/send-failed/nonblock-%s", errname(rv));
		vf_violation(key, "ctx %d: non-blocking send (%s) of request seq %u failed with %s (%d pipes)", t->idx, rfname[form], seq, nng_strerror(rv), pipes);
		if (m != NULL) nng_msg_free(m);
		set_status(t, seq, ST_SENDFAIL);
		return;
	}
	// refused
	uint32_t rid = 0;
	long     ticket = 0;
	if (m != NULL) {
		if (nng_msg_header_len(m) == 4) rid = get32(nng_msg_header(m));
		nng_msg_free(m);
	}
	set_status(t, seq, ST_AB_REFUSED);
	t->abandoned[ST_AB_REFUSED]++;
	t->refused[form]++;
	t->refused_seen[form][pipes > 0 ? 1 : 0] = true;
	if ((rid & 0x80000000u) != 0) {
		t->refused_id_known++;
		if (cc->mode != M_REP) ticket = adv_push_refused(rid, tag, seq);
	}
	switch (vf_below(r, 6)) {
	case 0:
		if (probe_idle(t) == NNG_ESTATE) t->refused_estate++;
		break;
	case 1:
		if (probe_idle_sync(t, true) == NNG_ESTATE) t->refused_estate_sync++;
		break;
	case 2:
		// (the blocking form only once the others have said ESTATE: a
		// receive that is wrongly accepted blocks for its whole timeout)
		if (probe_idle(t) == NNG_ESTATE && probe_idle_sync(t, true) == NNG_ESTATE) {
			t->refused_estate++;
			if (probe_idle_sync(t, false) == NNG_ESTATE) t->refused_estate_sync++;
		}
		break;
	case 3:
		if (ticket != 0) {
			// wait (a bounded while) until the peer has written its
			// "reply" to the refused request, give it time to arrive,
			// then look: it must not have been kept for this context
			for (uint64_t w0 = vf_now_ns(); atomic_load(&A.ref_emitted) < ticket && vf_now_ns() - w0 < 60000000ULL;) vf_usleep(200);
			bool emitted = atomic_load(&A.ref_emitted) >= ticket;
			vf_usleep(200 + (int) vf_below(r, 1500));
			if (probe_idle(t) == NNG_ESTATE && emitted) t->refused_forged_probed++;
		}
		break;
	default: // straight on: the "reply" arrives while the next request is out
		break;
	}
	if (t_send(t, D_NORMAL, false) != 0) return;
	t->abandon_sent++;
	t->refused_next++;
	recv_expect(t, OP_REFUSED);
}

// Abandon a request, if possible before it reaches the wire (no usable pipe:
// the send is queued), then send the next request on the same context.  The
// abandoned request's id must be dead: the peer answers the new request's id
// R and also R-1, R-2, ... (neighbour-id replies).
static void
op_abandon(cthr *t)
{
	const casecfg *cc = t->cc;
	vf_rng        *r = &t->rng;
	nng_msg       *m;
	// variants: 0-3, 4 (contexts only), 5 = refused at once (twice as likely), 6
	static const int vsock[] = { 0, 1, 2, 3, 5, 5, 6 }, vctx[] = { 0, 1, 2, 3, 4, 5, 5, 6 };
	int            variant = t->is_sock ? vsock[vf_below(r, 7)] : vctx[vf_below(r, 8)];
	uint32_t       a, b;
	int            rv, rv2;
	bool           unexpected = false;
	if (variant == 5) {
		op_refused(t);
		return;
	}
	switch (variant) {
	case 0: // send timeout
		a = t_send_begin(t, D_NORMAL, t->saio, (int) vf_range(r, 1, 3));
		rv = t_send_end(t, t->saio, a);
		if (rv == NNG_ETIMEDOUT) {
			(void) timer_explains(t, W_SEND);
			set_status(t, a, ST_AB_TIMEOUT);
			t->abandoned[ST_AB_TIMEOUT]++;
		} else if (rv != 0) {
			unexpected = true;
		}
		break;
	case 1: // nng_aio_cancel of the send
		a = t_send_begin(t, D_NORMAL, t->saio, LONG_MS);
		if (vf_chance(r, 1, 2)) vf_usleep((int) vf_below(r, 300));
		nng_aio_cancel(t->saio);
		rv = t_send_end(t, t->saio, a);
		if (rv == NNG_ECANCELED) {
			set_status(t, a, ST_AB_CANCEL);
			t->abandoned[ST_AB_CANCEL]++;
		} else if (rv != 0) {
			unexpected = true;
		}
		break;
	case 2: // a new send while the old one is queued
		a = t_send_begin(t, D_NORMAL, t->saio, LONG_MS);
		if (vf_chance(r, 1, 2)) vf_usleep((int) vf_below(r, 300));
		b = t_send_begin(t, D_NORMAL, t->saio2, LONG_MS);
		rv = t_send_end(t, t->saio, a); // 0: it had been sent already
		t->cur = 0;
		if (rv == NNG_ECANCELED) {
			set_status(t, a, ST_AB_SUPERSEDED);
			t->abandoned[ST_AB_SUPERSEDED]++;
		} else if (rv == 0) {
			set_status(t, a, ST_SUPERSEDED);
		} else {
			unexpected = true;
		}
		rv2 = t_send_end(t, t->saio2, b);
		if (rv2 != 0) {
			char key[96];
			snprintf(key, sizeof(key), "C04/disturbed/send-failed/%s", errname(rv2));
			vf_violation(key, "ctx %d: request seq %u (sent over a queued one) failed: %s", t->idx, b, nng_strerror(rv2));
			set_status(t, b, ST_SENDFAIL);
			return;
		}
		if (!unexpected) {
			if (rv == NNG_ECANCELED) t->abandon_sent++;
			recv_expect(t, rv == NNG_ECANCELED ? OP_ABANDON : OP_SUPERSEDE);
			return;
		}
		break;
	case 3: // the receive is posted early and cancelled while the send is queued
		a = t_send_begin(t, D_NORMAL, t->saio, LONG_MS);
		t_recv_start(t, LONG_MS);
		if (vf_chance(r, 1, 2)) vf_usleep((int) vf_below(r, 300));
		nng_aio_cancel(t->raio);
		rv2 = t_recv_wait(t, &m);
		if (rv2 == NNG_ETIMEDOUT && !timer_explains(t, W_RECV)) early_timeout(t, "receive", a, 0);
		rv = t_send_end(t, t->saio, a);
		t->cur = 0;
		if (rv == NNG_ECANCELED) {
			set_status(t, a, ST_AB_RECVCANCEL);
			t->abandoned[ST_AB_RECVCANCEL]++;
			if (rv2 == 0) judge(t, m, 0, OP_ABANDON); // nothing was ever sent
		} else if (rv == 0) {
			if (rv2 == 0) {
				set_status(t, a, ST_ANSWERED);
				judge(t, m, a, OP_ABANDON);
			} else {
				set_status(t, a, rv2 == NNG_ECONNRESET ? ST_CONNRESET : ST_ABORTED);
				if (rv2 != NNG_ECANCELED && rv2 != NNG_ETIMEDOUT && !(rv2 == NNG_ECONNRESET && LOSSY(cc) && cc->retry_ms <= 0)) unexpected = true, rv = rv2;
			}
		} else {
			if (rv2 == 0 && m != NULL) nng_msg_free(m);
			unexpected = true;
		}
		break;
	case 6: { // a receive is posted while the send is queued; the SEND times out / is cancelled
		bool     by_timeout = vf_chance(r, 1, 2);
		uint64_t t0 = vf_now_ns();
		a = t_send_begin(t, D_NORMAL, t->saio, by_timeout ? (int) vf_range(r, 1, 3) : LONG_MS);
		t_recv_start(t, LONG_MS);
		if (!by_timeout) {
			if (vf_chance(r, 1, 2)) vf_usleep((int) vf_below(r, 300));
			nng_aio_cancel(t->saio);
		}
		rv = t_send_end(t, t->saio, a);
		if (rv == 0) {
			// it went to a pipe: an ordinary request whose receive is
			// already posted
			recv_finish(t, OP_NORMAL, a, t0);
			t->cur = 0;
			return;
		}
		rv2 = t_recv_wait(t, &m);
		t->cur = 0;
		if (rv == NNG_ETIMEDOUT) {
			// (expected with the short timeout; otherwise only C02's
			// stale expiry can produce it)
			bool timer = timer_explains(t, W_SEND);
			if (!by_timeout) {
				if (timer) {
					t->premature++;
				} else {
					early_timeout(t, "send", a, (unsigned long long) ((vf_now_ns() - t0) / 1000000));
				}
			}
		}
		if (rv == NNG_ECANCELED && by_timeout && rv2 == NNG_ETIMEDOUT && (vf_now_ns() - t0) / 1000000 < LONG_MS * 9 / 10 && timer_explains(t, W_RECV)) {
			// C02's stale expiry of an earlier receive on this aio hit the
			// receive just posted; a receive that fails takes the queued
			// send with it (NNG_ECANCELED).  Abandoned all the same.
			t->premature++;
			set_status(t, a, ST_AB_SENDRECV);
			break;
		}
		if (rv != (by_timeout ? NNG_ETIMEDOUT : NNG_ECANCELED) && rv != NNG_ETIMEDOUT) {
			char key[128];
			snprintf(key, sizeof(key), "C04/disturbed/send-failed/%s", errname(rv));
			vf_violation(key, "ctx %d: a queued send (%s) with a receive posted behind it ended with %s, the receive with %s%s", t->idx, by_timeout ? "1-3 ms timeout" : "cancelled", nng_strerror(rv), nng_strerror(rv2), rv2 == 0 ? " and a message" : "");
			if (rv2 == 0 && m != NULL) nng_msg_free(m);
			set_status(t, a, ST_SENDFAIL);
			return;
		}
		// nothing was sent, so the receive cannot have an answer: it fails
		// with the send (same error), or was refused if the send had
		// already failed when it was posted
		if (rv2 == 0) {
			set_status(t, a, ST_AB_SENDRECV);
			judge(t, m, 0, OP_ABANDON);
		} else if (rv2 == rv) {
			// (the send's own expiry, passed on: no pick of the receive aio)
			set_status(t, a, ST_AB_SENDRECV);
			t->abandoned[ST_AB_SENDRECV]++;
			t->sendrecv_together++;
		} else if (rv2 == NNG_ESTATE) {
			set_status(t, a, rv == NNG_ETIMEDOUT ? ST_AB_TIMEOUT : ST_AB_CANCEL);
			t->abandoned[rv == NNG_ETIMEDOUT ? ST_AB_TIMEOUT : ST_AB_CANCEL]++;
			t->sendrecv_estate++;
		} else if (rv2 == NNG_ETIMEDOUT && (vf_now_ns() - t0) / 1000000 < LONG_MS * 9 / 10 && timer_explains(t, W_RECV)) {
			set_status(t, a, ST_AB_SENDRECV);
			t->premature++;
		} else if (rv2 == NNG_ECONNRESET && LOSSY(cc) && cc->retry_ms <= 0) {
			set_status(t, a, ST_AB_SENDRECV);
			t->connreset++;
		} else {
			char key[128];
			snprintf(key, sizeof(key), "C04/state/req-recv-with-abandoned-send/%s/%s", errname(rv), errname(rv2));
			vf_violation(key, "ctx %d: a receive posted while request seq %u was still queued ended with %s after %llu ms although the send itself failed with %s (nothing was ever sent; expected the same error, or NNG_ESTATE)", t->idx, a, nng_strerror(rv2), (unsigned long long) ((vf_now_ns() - t0) / 1000000), nng_strerror(rv));
			set_status(t, a, ST_AB_SENDRECV);
		}
		break;
	}
	default: // the context is closed with the send queued; a new one replaces it
		a = t_send_begin(t, D_NORMAL, t->saio, LONG_MS);
		if (vf_chance(r, 1, 2)) vf_usleep((int) vf_below(r, 300));
		nng_ctx_close(t->ctx);
		rv = t_send_end(t, t->saio, a);
		t->cur = 0;
		if (rv == NNG_ECLOSED) {
			set_status(t, a, ST_AB_CLOSED);
			t->abandoned[ST_AB_CLOSED]++;
		} else if (rv == 0) {
			set_status(t, a, ST_CLOSED);
		} else {
			unexpected = true;
		}
		if ((rv2 = nng_ctx_open(&t->ctx, t->sock)) != 0) vf_harness_fail("ctx reopen: %s", nng_strerror(rv2));
		break;
	}
	if (unexpected && rv == NNG_ETIMEDOUT && timer_explains(t, W_SEND)) {
		// (C02's stale expiry hit the queued send: abandoned all the same)
		t->premature++;
		unexpected = false;
		set_status(t, a, ST_AB_TIMEOUT);
		t->cur = 0;
	}
	if (unexpected) {
		char key[96];
		snprintf(key, sizeof(key), "C04/disturbed/send-failed/%s", errname(rv));
		vf_violation(key, "ctx %d: abandon variant %d: unexpected result %s", t->idx, variant, nng_strerror(rv));
		set_status(t, a, ST_SENDFAIL);
		t->cur = 0;
		return;
	}
	if (t->cur != 0) {
		// it went to a pipe after all: an ordinary request
		recv_expect(t, OP_NORMAL);
		return;
	}
	bool was_abandoned = t->last_state >= ST_AB_TIMEOUT;
	if (vf_chance(r, 1, 3)) probe_idle(t);
	if (t_send(t, D_NORMAL, false) != 0) return;
	if (was_abandoned) t->abandon_sent++;
	recv_expect(t, was_abandoned ? OP_ABANDON : OP_NORMAL);
}

// The same exchange through the synchronous wrappers: blocking send, then
// either a blocking receive or (after a short pause) one NNG_FLAG_NONBLOCK
// receive, which either returns the reply that is already there or fails with
// NNG_EAGAIN and leaves the request outstanding (a zero timeout is refused
// before the receive is ever posted, so nothing is cancelled): the reply is
// then collected by an ordinary receive.
static void
op_sync(cthr *t)
{
	vf_rng  *r = &t->rng;
	nng_msg *m;
	size_t   size = req_size(t, false);
	int      rv;
	if (nng_msg_alloc(&m, size) != 0) vf_harness_fail("msg alloc");
	uint32_t seq = ++t->seq;
	vf_body_make(nng_msg_body(m), size, mktag(t, D_NORMAL), seq);
	if (t->cur != 0) {
		set_status(t, t->cur, ST_SUPERSEDED);
		t->cur = 0;
	}
	uint64_t t0 = vf_now_ns();
	rv = t->is_sock ? nng_sendmsg(t->sock, m, 0) : nng_ctx_sendmsg(t->ctx, m, 0);
	if (rv != 0) {
		char key[96];
		nng_msg_free(m);
		snprintf(key, sizeof(key), "C04/disturbed/send-failed/sync-%s", errname(rv));
		vf_violation(key, "ctx %d: blocking send of request seq %u failed after %llu ms: %s", t->idx, seq, (unsigned long long) ((vf_now_ns() - t0) / 1000000), nng_strerror(rv));
		set_status(t, seq, ST_SENDFAIL);
		return;
	}
	t->sends++;
	t->sync_ops++;
	set_status(t, seq, ST_OUT);
	bool nb = vf_chance(r, 1, 2);
	if (nb) vf_usleep((int) vf_below(r, t->cc->tran == VF_T_INPROC ? 300 : 900));
	m = NULL;
	t0 = vf_now_ns();
	rv = t->is_sock ? nng_recvmsg(t->sock, &m, nb ? NNG_FLAG_NONBLOCK : 0) : nng_ctx_recvmsg(t->ctx, &m, nb ? NNG_FLAG_NONBLOCK : 0);
	if (rv == 0) {
		set_status(t, seq, ST_ANSWERED);
		if (nb) t->nb_reply++;
		judge(t, m, seq, OP_SYNC);
	} else if (nb && rv == NNG_EAGAIN) {
		t->nb_eagain++;
		t->cur = seq;
		recv_expect(t, OP_SYNC);
	} else if (rv == NNG_ECONNRESET && LOSSY(t->cc) && t->cc->retry_ms <= 0) {
		set_status(t, seq, ST_CONNRESET);
		t->connreset++;
	} else {
		char key[96];
		snprintf(key, sizeof(key), "C04/disturbed/reply-not-delivered/sync-api/%s", errname(rv));
		vf_violation(key, "ctx %d: %s receive for seq %u failed after %llu ms: %s", t->idx, nb ? "non-blocking" : "blocking", seq, (unsigned long long) ((vf_now_ns() - t0) / 1000000), nng_strerror(rv));
		set_status(t, seq, ST_TIMEDOUT);
	}
	// idle now: the synchronous receive must say so too
	(void) probe_idle_sync(t, vf_chance(r, 1, 2));
}

static void *
ctx_thread(void *arg)
{
	cthr          *t = arg;
	const casecfg *cc = t->cc;
	vf_rng        *r = &t->rng;
	nng_msg       *m;
	int            rv;

	probe_idle(t); // a fresh context has nothing to receive
	for (long x = 0; x < t->quota; x++) {
		uint32_t k = vf_below(r, 100);
		// abandon-before-wire wants a socket without a usable pipe: mostly
		// during the adversary's blackouts, now and then anyway (all
		// pipes may be busy)
		if (vf_chance(r, atomic_load(&A.blackout) ? 80 : cc->blackouts ? 8 : 4, 100)) {
			t->ops[OP_ABANDON]++;
			op_abandon(t);
			if (t->cur == 0 && vf_chance(r, 1, 4)) probe_idle(t);
			continue;
		}
		if (vf_chance(r, 1, 20)) {
			// a send that cannot wait, in the middle of ordinary traffic:
			// accepted when a pipe is ready, refused when all are busy
			t->ops[OP_NBSEND]++;
			op_refused(t);
			continue;
		}
		if (vf_chance(r, 1, 14)) {
			t->ops[OP_SYNC]++;
			op_sync(t);
			continue;
		}
		int      op = k < 52 ? OP_NORMAL : k < 66 ? OP_SUPERSEDE : k < 78 ? OP_TIMEOUT : k < 90 ? OP_ABORT : OP_SENDOVER;
		t->ops[op]++;
		switch (op) {
		case OP_NORMAL: {
			int  dir = (cc->retry_ms > 0 && vf_chance(r, 1, 16)) ? D_DELAY : D_NORMAL;
			bool big = cc->big && vf_chance(r, 1, 6);
			if (t_send(t, dir, big) != 0) break;
			if (cc->rchg && vf_chance(r, 1, 20)) {
				// changing the resend time of a request in flight
				// (between finite values) is ordinary API use
				int nv = (int) vf_range(r, 5, 50);
				if (t->is_sock) {
					nng_socket_set_ms(t->sock, NNG_OPT_REQ_RESENDTIME, nv);
				} else {
					nng_ctx_set_ms(t->ctx, NNG_OPT_REQ_RESENDTIME, nv);
				}
				t->retry_changes++;
			}
			recv_expect(t, op);
			break;
		}
		case OP_SUPERSEDE: {
			// a new request replaces the old one, which may be held,
			// in flight, or already answered (reply stashed)
			if (t_send(t, vf_chance(r, 1, 2) ? D_HOLD : D_NORMAL, false) != 0) break;
			if (vf_chance(r, 1, 2)) vf_usleep((int) vf_below(r, 1500));
			if (t_send(t, D_NORMAL, false) != 0) break;
			recv_expect(t, op);
			break;
		}
		case OP_TIMEOUT: {
			// the peer holds the request; the receive times out, which
			// cancels the request.  Or (a third) the peer answers and the
			// receive's timeout is about one round trip, so that expiry
			// and reply race: either the reply is delivered, or the
			// request is cancelled and its reply (already on its way)
			// must not be kept for the idle context (probe below).
			bool race = vf_chance(r, 1, 3);
			if (t_send(t, race ? D_NORMAL : D_HOLD, false) != 0) break;
			uint32_t cur = t->cur;
			t_recv_start(t, race ? (int) vf_range(r, 1, 2) : (int) vf_range(r, 1, 8));
			rv = t_recv_wait(t, &m);
			t->cur = 0;
			if (rv == 0) {
				set_status(t, cur, ST_ANSWERED);
				if (race) t->timeout_race_lost++;
				judge(t, m, cur, op); // a held request is never answered
			} else if (rv == NNG_ETIMEDOUT) {
				(void) timer_explains(t, W_RECV);
				set_status(t, cur, ST_TIMEDOUT);
				t->timeouts++;
				if (race) t->timeout_race_won++;
			} else if (rv == NNG_ECONNRESET && LOSSY(cc) && cc->retry_ms <= 0) {
				set_status(t, cur, ST_CONNRESET);
				t->connreset++;
			} else {
				char key[96];
				snprintf(key, sizeof(key), "C04/disturbed/recv-error/%s", errname(rv));
				vf_violation(key, "ctx %d: receive with a short timeout on a held request returned %s", t->idx, nng_strerror(rv));
				set_status(t, cur, ST_TIMEDOUT);
			}
			break;
		}
		case OP_ABORT: {
			// cancel the receive while the reply is on its way
			if (t_send(t, D_NORMAL, false) != 0) break;
			uint32_t cur = t->cur;
			uint64_t t0 = vf_now_ns();
			t_recv_start(t, LONG_MS);
			if (vf_chance(r, 2, 3)) vf_usleep((int) vf_below(r, cc->tran == VF_T_INPROC ? 150 : 400));
			nng_aio_cancel(t->raio);
			rv = t_recv_wait(t, &m);
			t->cur = 0;
			if (rv == NNG_ETIMEDOUT && (vf_now_ns() - t0) / 1000000 < LONG_MS * 9 / 10) {
				// timer defect (C02): an earlier, already finished
				// receive's expiry was applied to this one
				if (timer_explains(t, W_RECV)) {
					t->premature++;
				} else {
					early_timeout(t, "receive", cur, (unsigned long long) ((vf_now_ns() - t0) / 1000000));
				}
				rv = NNG_ECANCELED;
			}
			if (rv == 0) {
				set_status(t, cur, ST_ANSWERED);
				t->abort_lost++;
				judge(t, m, cur, op);
			} else if (rv == NNG_ECANCELED) {
				set_status(t, cur, ST_ABORTED);
				t->abort_won++;
			} else if (rv == NNG_ECONNRESET && LOSSY(cc) && cc->retry_ms <= 0) {
				set_status(t, cur, ST_CONNRESET);
				t->connreset++;
			} else {
				char key[96];
				snprintf(key, sizeof(key), "C04/disturbed/recv-error/%s", errname(rv));
				vf_violation(key, "ctx %d: cancelled receive returned %s", t->idx, nng_strerror(rv));
				set_status(t, cur, ST_ABORTED);
			}
			break;
		}
		default: {
			// a new send while a receive for the old request is pending:
			// the pending receive is cancelled (or completes first with
			// the OLD reply), the new request becomes the outstanding one
			if (t_send(t, vf_chance(r, 1, 2) ? D_HOLD : D_NORMAL, false) != 0) break;
			uint32_t first = t->cur;
			uint64_t t0 = vf_now_ns();
			t_recv_start(t, LONG_MS);
			if (vf_chance(r, 1, 2)) vf_usleep((int) vf_below(r, 600));
			rv = t_send(t, D_NORMAL, false); // marks 'first' superseded
			int rv2 = t_recv_wait(t, &m);
			if (rv2 == NNG_ETIMEDOUT && (vf_now_ns() - t0) / 1000000 < LONG_MS * 9 / 10) {
				if (timer_explains(t, W_RECV)) { // see OP_ABORT
					t->premature++;
				} else {
					early_timeout(t, "receive", first, (unsigned long long) ((vf_now_ns() - t0) / 1000000));
				}
				rv2 = NNG_ECANCELED;
			}
			if (rv2 == 0) {
				// completed before the second send took over
				set_status(t, first, ST_ANSWERED);
				t->over_delivered++;
				judge(t, m, first, op);
			} else if (rv2 == NNG_ECANCELED) {
				t->over_cancelled++;
			} else if (rv2 == NNG_ECONNRESET && LOSSY(cc) && cc->retry_ms <= 0) {
				t->connreset++;
			} else {
				char key[96];
				snprintf(key, sizeof(key), "C04/disturbed/recv-error/%s", errname(rv2));
				vf_violation(key, "ctx %d: receive pending across a new send returned %s, expected NNG_ECANCELED", t->idx, nng_strerror(rv2));
			}
			if (rv != 0) break;
			recv_expect(t, op);
			break;
		}
		}
		// the context is idle now: a receive must say NNG_ESTATE, even
		// while duplicates / stale replies for it keep arriving
		// (always after a cancelled / timed out request: its reply is
		// still on its way and must not be stored for this context)
		bool cancelled = t->last_state == ST_TIMEDOUT || t->last_state == ST_ABORTED;
		if (t->cur == 0 && (cancelled || vf_chance(r, 1, 4))) {
			if (vf_chance(r, 1, 2)) vf_usleep((int) vf_below(r, 800));
			probe_idle(t);
		}
	}
	return NULL;
}

// ------------------------------------------------------------ one case
static void
run_case(long idx, const casecfg *cc)
{
	nng_socket req;
	cthr       th[MAXCTX];
	pthread_t  pt[MAXCTX];
	char       url[128], durl[4][128];
	int        rv;

	vf_case_begin(idx, "mode=%s tran=%s ctx=%d%s pipes=%d exchanges=%ld retry=%d%s tick=%d kills=%d big=%d blackouts=%d jitter=%d/%dus key=%llx",
	    mname[cc->mode], vf_tran_names[cc->tran], cc->nctx, cc->use_sock ? "+sock" : "", cc->npipes, cc->exchanges, cc->retry_ms, cc->rchg ? "(changing)" : "",
	    cc->tick_ms, cc->kills, cc->big, cc->blackouts, cc->jit_permille, cc->jit_us, (unsigned long long) cc->key);
	vf_watchdog(240);
	adv_init(cc);

	if ((rv = nng_req0_open(&req)) != 0) vf_harness_fail("req open: %s", nng_strerror(rv));
	nng_socket_set_ms(req, NNG_OPT_REQ_RESENDTIME, cc->retry_ms > 0 ? cc->retry_ms : NNG_DURATION_INFINITE);
	if (cc->retry_ms > 0) nng_socket_set_ms(req, NNG_OPT_REQ_RESENDTICK, cc->tick_ms);
	nng_socket_set_ms(req, NNG_OPT_RECONNMINT, 2);
	nng_socket_set_ms(req, NNG_OPT_RECONNMAXT, 10);
	nng_socket_set_size(req, NNG_OPT_RECVMAXSZ, 0);
	nng_socket_set_ms(req, NNG_OPT_SENDTIMEO, LONG_MS); // (for the synchronous calls;
	nng_socket_set_ms(req, NNG_OPT_RECVTIMEO, LONG_MS); //  contexts inherit them)

	// the other side
	if (cc->mode == M_TCPADV) {
		T.port = 0;
		T.nconns = 0;
		if ((T.lfd = vf_tcp_listen(&T.port)) < 0) vf_harness_fail("raw listen");
		if (cc->big) {
			int sz = 4096; // so that a big request cannot be buffered whole
			setsockopt(T.lfd, SOL_SOCKET, SO_RCVBUF, &sz, sizeof(sz));
		}
		if (pthread_create(&T.acc, NULL, tcp_accept_thread, NULL) != 0) vf_harness_fail("pthread_create");
		for (int i = 0; i < cc->npipes; i++) snprintf(durl[i], sizeof(durl[i]), "tcp://127.0.0.1:%u", T.port);
	} else if (cc->mode == M_XREP) {
		nng_listener l;
		if ((rv = nng_rep0_open_raw(&X.s)) != 0) vf_harness_fail("xrep open");
		nng_socket_set_ms(X.s, NNG_OPT_RECVTIMEO, 10);
		nng_socket_set_ms(X.s, NNG_OPT_SENDTIMEO, 5000);
		nng_socket_set_int(X.s, NNG_OPT_RECVBUF, 128);
		nng_socket_set_int(X.s, NNG_OPT_SENDBUF, 128);
		vf_url(cc->tran, url, sizeof(url));
		if ((rv = nng_listen(X.s, url, &l, 0)) != 0) vf_harness_fail("xrep listen %s: %s", url, nng_strerror(rv));
		for (int i = 0; i < cc->npipes; i++) vf_dial_url(l, cc->tran, url, durl[i], sizeof(durl[i]));
		if (pthread_create(&X.thr, NULL, xrep_thread, NULL) != 0) vf_harness_fail("pthread_create");
	} else {
		P.nsocks = cc->npipes;
		P.nw = 0;
		atomic_store(&P.served, 0);
		atomic_store(&P.dropped_hold, 0);
		vf_rng wr;
		vf_rng_seed(&wr, cc->key, 55);
		for (int i = 0; i < P.nsocks; i++) {
			nng_listener l;
			if ((rv = nng_rep0_open(&P.socks[i])) != 0) vf_harness_fail("rep open");
			vf_url(cc->tran, url, sizeof(url));
			if ((rv = nng_listen(P.socks[i], url, &l, 0)) != 0) vf_harness_fail("rep listen %s: %s", url, nng_strerror(rv));
			vf_dial_url(l, cc->tran, url, durl[i], sizeof(durl[i]));
			int nwk = (int) vf_range(&wr, 1, 3);
			for (int j = 0; j < nwk; j++) {
				repworker *w = &P.w[P.nw++];
				w->s = P.socks[i];
				w->delay_ms = A.delay_ms;
				if ((rv = nng_ctx_open(&w->ctx, w->s)) != 0) vf_harness_fail("rep ctx open");
				if (pthread_create(&w->thr, NULL, rep_worker, w) != 0) vf_harness_fail("pthread_create");
			}
		}
	}
	for (int i = 0; i < cc->npipes; i++) {
		if ((rv = nng_dial(req, durl[i], NULL, 0)) != 0) vf_harness_fail("dial %s: %s", durl[i], nng_strerror(rv));
	}
	for (int i = 0; vf_pipe_count(req) < cc->npipes; i++) {
		if (i > 5000) vf_harness_fail("pipes did not come up (%d of %d)", vf_pipe_count(req), cc->npipes);
		vf_msleep(1);
	}

	vf_pt_jitter(cc->key, cc->jit_permille, cc->jit_us);
	memset(th, 0, sizeof(th));
	for (int i = 0; i < cc->nctx; i++) {
		cthr *t = &th[i];
		t->idx = i;
		t->cc = cc;
		t->sock = req;
		t->is_sock = cc->use_sock && i == 0;
		t->quota = cc->exchanges / cc->nctx + (i < cc->exchanges % cc->nctx ? 1 : 0);
		t->status_cap = (uint32_t) (t->quota * 2 + 16);
		t->status = calloc(t->status_cap, 1);
		t->last_state = ST_NONE;
		vf_rng_seed(&t->rng, cc->key, 100 + (uint64_t) i);
		if (!t->is_sock && (rv = nng_ctx_open(&t->ctx, req)) != 0) vf_harness_fail("ctx open: %s", nng_strerror(rv));
		if (nng_aio_alloc(&t->saio, NULL, NULL) != 0 || nng_aio_alloc(&t->saio2, NULL, NULL) != 0 || nng_aio_alloc(&t->raio, NULL, NULL) != 0 || nng_aio_alloc(&t->raio2, NULL, NULL) != 0) vf_harness_fail("aio alloc");
		nng_aio *wa[4] = { t->saio, t->saio2, t->raio, t->raio2 };
		for (int w = 0; w < 4; w++) {
			atomic_store(&WT[i * 4 + w].picks, 0);
			atomic_store(&WT[i * 4 + w].aio, (const void *) wa[w]);
		}
		if (pthread_create(&pt[i], NULL, ctx_thread, t) != 0) vf_harness_fail("pthread_create");
	}
	for (int i = 0; i < cc->nctx; i++) pthread_join(pt[i], NULL);
	// let late garbage reach the (now idle) contexts, then look once more
	vf_msleep(cc->retry_ms > 0 ? 3 : 1);
	for (int i = 0; i < cc->nctx; i++) probe_idle(&th[i]);
	vf_pt_off();

	for (int i = 0; i < cc->nctx; i++) {
		if (!th[i].is_sock) nng_ctx_close(th[i].ctx);
		nng_aio_free(th[i].saio);
		nng_aio_free(th[i].saio2);
		nng_aio_free(th[i].raio2);
		for (int w = 0; w < 4; w++) atomic_store(&WT[i * 4 + w].aio, (const void *) NULL);
		nng_aio_free(th[i].raio);
	}
	// (stop first: a request frame that the close itself cuts short - a
	// resent copy or an early-answered big request still being written - is
	// no garbled request)
	atomic_store(&A.stop, true);
	nng_socket_close(req);
	if (cc->mode == M_TCPADV) {
		pthread_join(T.acc, NULL);
		for (int i = 0; i < T.nconns; i++) pthread_join(T.conns[i].thr, NULL);
		close(T.lfd);
		vf_stat("raw_connections", T.nconns);
	} else if (cc->mode == M_XREP) {
		pthread_join(X.thr, NULL);
		nng_socket_close(X.s);
	} else {
		for (int i = 0; i < P.nw; i++) pthread_join(P.w[i].thr, NULL);
		for (int i = 0; i < P.nw; i++) nng_ctx_close(P.w[i].ctx);
		for (int i = 0; i < P.nsocks; i++) nng_socket_close(P.socks[i]);
		vf_stat("rep_served", atomic_load(&P.served));
		vf_stat("rep_held", atomic_load(&P.dropped_hold));
	}

	// evidence
	long dlv[K_N] = { 0 }, delivered = 0;
	char buf[64];
	const char *rt = cc->retry_ms > 0 ? "resend" : "noresend";
	const char *tn = vf_tran_names[cc->tran];
	for (int i = 0; i < cc->nctx; i++) {
		cthr *t = &th[i];
		for (int k = 0; k < K_N; k++) {
			dlv[k] += t->dlv[k];
			delivered += t->dlv[k];
			for (int o = 0; o < OP_N; o++) {
				if (t->dlv_seen[o][k]) vf_class("dlv/%s/%s/%s/%s/%s/%s", mname[cc->mode], tn, rt, t->is_sock ? "sock" : "ctx", opname[o], kname[k]);
			}
		}
		for (int o = 0; o < OP_N; o++) {
			snprintf(buf, sizeof(buf), "op_%s", opname[o]);
			vf_stat(buf, t->ops[o]);
		}
		vf_stat("requests_sent", t->sends);
		vf_stat("estate_req_recv", t->estate_ok);
		vf_stat("connreset_notices", t->connreset);
		vf_stat("premature_timeouts", t->premature);
		vf_stat("estate_req_second_recv", t->estate_second);
		vf_stat("sync_api_exchanges", t->sync_ops);
		vf_stat("nonblock_recv_eagain", t->nb_eagain);
		vf_stat("nonblock_recv_reply", t->nb_reply);
		vf_stat("estate_req_recv_sync", t->sync_estate);
		vf_stat("cancel_by_timeout", t->timeouts);
		vf_stat("cancel_won", t->abort_won);
		vf_stat("cancel_lost_to_reply", t->abort_lost);
		vf_stat("result_clobbered_by_late_cancel", t->clobbered);
		vf_stat("recv_cancelled_by_send", t->over_cancelled);
		vf_stat("recv_completed_before_send", t->over_delivered);
		vf_stat("resendtime_changes", t->retry_changes);
		long ab = 0;
		for (int a = ST_AB_TIMEOUT; a < ST_N; a++) {
			snprintf(buf, sizeof(buf), "%s", stname[a]);
			for (char *q = buf; *q; q++) if (*q == '-') *q = '_';
			vf_stat(buf, t->abandoned[a]);
			ab += t->abandoned[a];
			if (t->abandoned[a]) vf_class("abandon/%s/%s/%s/%s", mname[cc->mode], tn, t->is_sock ? "sock" : "ctx", stname[a]);
		}
		vf_stat("abandoned_before_wire", ab);
		vf_stat("abandoned_while_queued", ab - t->abandoned[ST_AB_REFUSED]);
		vf_stat("requests_after_abandon", t->abandon_sent);
		vf_stat("neighbour_id_hit_live_request", t->neigh_collision);
		vf_stat("neighbour_id_unjudged", t->neigh_unjudged);
		vf_stat(t->is_sock ? "estate_req_second_recv_socket" : "estate_req_second_recv_ctx", t->estate_second);
		vf_stat("stale_pick_credits_voided", t->picks_voided);
		for (int f = 0; f < RF_N; f++) {
			snprintf(buf, sizeof(buf), "send_refused_%s", rfname[f]);
			for (char *q = buf; *q; q++) if (*q == '-') *q = '_';
			vf_stat(buf, t->refused[f]);
			snprintf(buf, sizeof(buf), "send_nonblock_accepted_%s", rfname[f]);
			for (char *q = buf; *q; q++) if (*q == '-') *q = '_';
			vf_stat(buf, t->nb_accepted[f]);
			for (int pz = 0; pz < 2; pz++) {
				if (t->refused_seen[f][pz]) vf_class("refused/%s/%s/%s/%s/%s", mname[cc->mode], tn, t->is_sock ? "sock" : "ctx", rfname[f], pz ? "pipes-busy" : "no-pipe");
			}
		}
		vf_stat("estate_after_refused_send", t->refused_estate);
		vf_stat("estate_after_refused_send_sync", t->refused_estate_sync);
		vf_stat("refused_id_known", t->refused_id_known);
		vf_stat("refused_id_forged_then_probed", t->refused_forged_probed);
		vf_stat("requests_after_refused_send", t->refused_next);
		vf_stat("send_and_recv_failed_together", t->sendrecv_together);
		vf_stat("recv_refused_after_failed_send", t->sendrecv_estate);
		vf_stat("timeout_beat_reply", t->timeout_race_won);
		vf_stat("timeout_lost_to_reply", t->timeout_race_lost);
		free(t->status);
	}
	vf_stat("replies_delivered", delivered);
	long injected = 0, adversarial = 0;
	for (int k = 0; k < K_N; k++) {
		// (echo replies exist only in rep mode, forged-before-wire frames
		// only in the staged case, which has its own counters)
		if (cc->mode != M_REP && k != K_ECHO && k != K_FORGED) {
			snprintf(buf, sizeof(buf), "inj_%s", kname[k]);
			vf_stat(buf, A.inj[k]);
			injected += A.inj[k];
			if (k != K_CORRECT && k != K_EARLY && k != K_DELAYED) adversarial += A.inj[k];
			snprintf(buf, sizeof(buf), "discarded_%s", kname[k]);
			vf_stat(buf, A.inj[k] - dlv[k]);
			for (int s = 0; s < IS_N; s++) {
				if (A.inj_seen[s][k]) vf_class("inj/%s/%s/%s/%s/%s", mname[cc->mode], tn, rt, isname[s], kname[k]);
			}
		}
		snprintf(buf, sizeof(buf), "dlv_%s", kname[k]);
		vf_stat(buf, dlv[k]);
	}
	if (cc->mode != M_REP) {
		vf_stat("frames_injected", injected);
		vf_stat("adversarial_frames", adversarial);
		vf_stat("frames_not_delivered", injected - delivered);
		vf_stat("requests_seen_by_adversary", A.requests);
		vf_stat("resends_seen", A.resend_seen);
		vf_stat("held_requests", A.held);
		vf_stat("pipe_kills", A.killed);
		vf_stat("blackouts", A.nblackouts);
		vf_stat("early_reply_unread_bytes", A.early_unread);
		vf_stat("id_reuse", A.id_reuse);
	} else {
		// duplicates made by resends: every served request beyond the
		// delivered ones was discarded by the requester
		vf_stat("frames_not_delivered", atomic_load(&P.served) - delivered);
	}
	vf_stat("exchanges", cc->exchanges);
	vf_stat("cases", 1);
	if ((idx & 7) == 0) {
		vf_sample("{\"mode\":\"%s\",\"tran\":\"%s\",\"contexts\":%d,\"socket_as_ctx\":%d,\"pipes\":%d,\"exchanges\":%ld,\"resend_ms\":%d,\"kills\":%ld,\"delivered\":%ld,\"injected\":%ld,\"stale\":%ld,\"dup\":%ld,\"nobit\":%ld,\"other_ctx\":%ld,\"resends_seen\":%ld}",
		    mname[cc->mode], vf_tran_names[cc->tran], cc->nctx, cc->use_sock, cc->npipes, cc->exchanges, cc->retry_ms, A.killed, delivered, injected,
		    A.inj[K_STALE], A.inj[K_DUP], A.inj[K_NOBIT], A.inj[K_OTHER], A.resend_seen);
	}
	adv_fini();
	vf_nng_fini("C04");
	vf_nng_init(4, 2, 2);
}

// ------------------------------------------------------------ staged case
// One interleaving that random jitter reaches only rarely, staged with a
// targeted delay: a receive (old request) reaches its timeout, the expire
// thread has picked it up but not yet called the protocol's cancel function
// when the application sends a new request on the same context (no pipe, so
// that send pends).  The late cancellation belongs to the old receive; the new
// send was cancelled by nobody and must not complete with NNG_ECANCELED.
static void
staged_late_timeout(long idx)
{
	nng_socket s;
	nng_ctx    c;
	nng_aio   *s1, *r1, *s2;
	nng_msg   *m;
	vf_case_begin(idx, "staged: receive timeout delivered late (delay at aio-expire-before-cancel), newer send pending on the same context");
	vf_watchdog(60);
	if (nng_req0_open(&s) != 0 || nng_ctx_open(&c, s) != 0) vf_harness_fail("req open");
	if (nng_aio_alloc(&s1, NULL, NULL) != 0 || nng_aio_alloc(&r1, NULL, NULL) != 0 || nng_aio_alloc(&s2, NULL, NULL) != 0) vf_harness_fail("aio alloc");
	vf_pt_target(NNI_VP_AIO_EXPIRE_BEFORE_CANCEL, 1000, 100000, 100000);
	if (nng_msg_alloc(&m, 8) != 0) vf_harness_fail("msg alloc");
	nng_aio_set_msg(s1, m);
	nng_aio_set_timeout(s1, LONG_MS);
	nng_ctx_send(c, s1); // pends: there is no pipe
	nng_aio_set_timeout(r1, 10);
	nng_ctx_recv(c, r1); // expires after 10 ms; its cancellation is held up for 100 ms
	vf_msleep(50);
	if (nng_msg_alloc(&m, 8) != 0) vf_harness_fail("msg alloc");
	nng_aio_set_msg(s2, m);
	nng_aio_set_timeout(s2, LONG_MS);
	nng_ctx_send(c, s2); // the new request: cancels the old send and receive
	nng_aio_wait(r1);
	nng_aio_wait(s1);
	vf_msleep(250);
	if (!nng_aio_busy(s2) && nng_aio_result(s2) == NNG_ECANCELED) {
		vf_violation("C04/disturbed/send-failed/ECANCELED", "staged: the timeout of an earlier receive (already finished with %s) cancelled the context's NEW pending send, which completed with NNG_ECANCELED although nobody cancelled it", nng_strerror(nng_aio_result(r1)));
	}
	vf_pt_off();
	nng_aio_cancel(s2);
	nng_aio_wait(s2);
	if ((m = nng_aio_get_msg(s1)) != NULL) nng_msg_free(m);
	if ((m = nng_aio_get_msg(s2)) != NULL) nng_msg_free(m);
	if ((m = nng_aio_get_msg(r1)) != NULL) nng_msg_free(m);
	nng_aio_free(s1);
	nng_aio_free(s2);
	nng_aio_free(r1);
	nng_ctx_close(c);
	nng_socket_close(s);
	vf_stat("staged_cases", 1);
	vf_nng_fini("C04");
	vf_nng_init(4, 2, 2);
}

// ------------------------------------------------------------ staged: reply before the request is on the wire
// Request ids are consecutive, so a peer can predict the id of a request that
// is still queued inside the REQ socket and answer it before it was ever sent.
// Staged so that "still queued" is known, not guessed:
//   1. helper context H sends; the raw peer reads it and holds the answer;
//   2. context P sends a multi-megabyte request which the peer does not read:
//      the only pipe stays busy with it (tiny receive buffer);
//   3. victim contexts X1..Xn send: their requests queue (send aios pending);
//   4. the peer writes forged replies with the predicted ids id(P)+1.., then
//      the genuine reply for H on the same connection (frames of one pipe
//      are processed in order);
//   5. H's receive completes => the forged frames have been processed; a
//      victim whose send aio is STILL pending was provably not on any wire
//      then ("established");
//   6. the peer resumes reading, sees the victims' requests (checks the
//      prediction), answers them genuinely.
// Oracle: an established victim must not receive the forged frame
// (C04/unsolicited-delivered/reply-before-request-on-wire), and every victim's
// genuine request must still be transmitted and answered.
#define FE_MAXV 3
static void
staged_forged_early(long idx)
{
	vf_rng     r;
	nng_socket s;
	nng_ctx    cx[2 + FE_MAXV];
	nng_aio   *sa[2 + FE_MAXV], *ra[2 + FE_MAXV];
	bool       established[FE_MAXV] = { false }, early_recv[FE_MAXV] = { false }, sock_victim;
	uint32_t   wire_id[FE_MAXV] = { 0 };
	uint16_t   port = 0, peerproto = 0;
	int        lfd, fd = -1, rv, sz = 4096;
	char       url[64];
	uint8_t    hdr[8 + 4 + VF_BODY_MIN], buf[256];
	nng_msg   *m;
	const uint32_t nonce = 0xfe00;

	vf_rng_seed(&r, vf_seed, 7000 + (uint64_t) idx);
	int    nv = (int) vf_range(&r, 1, FE_MAXV);
	size_t plug = (size_t) vf_range(&r, 3, 8) << 20;
	sock_victim = vf_chance(&r, 1, 3);
	vf_case_begin(idx, "staged: forged replies with predicted ids while %d request(s) are queued behind a busy pipe (plug %zu MB%s)", nv, plug >> 20, sock_victim ? ", victim 0 is the socket" : "");
	vf_watchdog(120);
	atomic_store(&A.serial, 0);
	if ((lfd = vf_tcp_listen(&port)) < 0) vf_harness_fail("raw listen");
	setsockopt(lfd, SOL_SOCKET, SO_RCVBUF, &sz, sizeof(sz));
	if (nng_req0_open(&s) != 0) vf_harness_fail("req open");
	nng_socket_set_size(s, NNG_OPT_RECVMAXSZ, 0);
	snprintf(url, sizeof(url), "tcp://127.0.0.1:%u", port);
	if ((rv = nng_dial(s, url, NULL, NNG_FLAG_NONBLOCK)) != 0) vf_harness_fail("dial: %s", nng_strerror(rv));
	if ((fd = vf_tcp_accept(lfd, LONG_MS)) < 0) vf_harness_fail("raw accept");
	if (vf_sp_handshake(fd, 0x31, &peerproto, LONG_MS) != 0 || peerproto != 0x30) vf_harness_fail("raw handshake");
	for (int i = 0; vf_pipe_count(s) < 1; i++) {
		if (i > 10000) vf_harness_fail("pipe did not come up");
		vf_msleep(1);
	}
	// contexts: 0 = H, 1 = P, 2.. = victims
	for (int i = 0; i < 2 + nv; i++) {
		if (nng_ctx_open(&cx[i], s) != 0) vf_harness_fail("ctx open");
		if (nng_aio_alloc(&sa[i], NULL, NULL) != 0 || nng_aio_alloc(&ra[i], NULL, NULL) != 0) vf_harness_fail("aio alloc");
	}
#define FE_TAG(i) ((nonce << 16) | (uint32_t) (i))
#define FE_SEND(i, size)                                                        \
	do {                                                                    \
		if (nng_msg_alloc(&m, (size)) != 0) vf_harness_fail("msg alloc"); \
		vf_body_make(nng_msg_body(m), (size), FE_TAG(i), 1);            \
		nng_aio_set_msg(sa[i], m);                                      \
		nng_aio_set_timeout(sa[i], 60000);                              \
		if ((i) == 2 && sock_victim) {                                  \
			nng_socket_send(s, sa[i]);                              \
		} else {                                                        \
			nng_ctx_send(cx[i], sa[i]);                             \
		}                                                               \
	} while (0)
#define FE_RECV(i)                                       \
	do {                                             \
		nng_aio_set_timeout(ra[i], 60000);       \
		if ((i) == 2 && sock_victim) {           \
			nng_socket_recv(s, ra[i]);       \
		} else {                                 \
			nng_ctx_recv(cx[i], ra[i]);      \
		}                                        \
	} while (0)
	// 1. H
	FE_SEND(0, VF_BODY_MIN + 40);
	nng_aio_wait(sa[0]);
	if (nng_aio_result(sa[0]) != 0) vf_harness_fail("staged: helper send: %s", nng_strerror(nng_aio_result(sa[0])));
	long len = vf_sp_recv_frame(fd, false, buf, sizeof(buf), LONG_MS);
	if (len < 4 + VF_BODY_MIN) vf_harness_fail("staged: helper request not seen (%ld)", len);
	uint32_t id_h = get32(buf);
	FE_RECV(0);
	// 2. P: plugs the pipe
	FE_SEND(1, plug);
	nng_aio_wait(sa[1]);
	if (nng_aio_result(sa[1]) != 0) vf_harness_fail("staged: plug send: %s", nng_strerror(nng_aio_result(sa[1])));
	if (vf_fd_read_full(fd, hdr, sizeof(hdr), LONG_MS) != (long) sizeof(hdr)) vf_harness_fail("staged: plug header not seen");
	uint64_t plen = ((uint64_t) get32(hdr) << 32) | get32(hdr + 4);
	uint32_t id_p = get32(hdr + 8);
	if (plen != 4 + plug) vf_harness_fail("staged: plug frame length %llu", (unsigned long long) plen);
	// 3. victims queue up
	for (int k = 0; k < nv; k++) {
		FE_SEND(2 + k, VF_BODY_MIN + 16);
		early_recv[k] = vf_chance(&r, 1, 3);
		if (early_recv[k]) FE_RECV(2 + k); // (receive posted before the send is done)
	}
	vf_usleep(300);
	// 4. forged replies for the predicted ids, then the marker
	for (int k = 0; k < nv + 1; k++) {
		int    v = k < nv ? k : nv - 1;
		pframe f = { .idword = (id_p + 1 + (uint32_t) k) | 0x80000000u, .tag = FE_TAG(2 + v), .seq = 1, .klass = K_FORGED };
		if (tcp_emit(fd, &f) != 0) vf_harness_fail("staged: forged write");
	}
	vf_stat("forged_early_frames_sent", nv + 1);
	{
		pframe f = { .idword = id_h, .tag = FE_TAG(0), .seq = 1, .klass = K_CORRECT };
		if (tcp_emit(fd, &f) != 0) vf_harness_fail("staged: marker write");
	}
	// 5. marker received => forged frames processed
	nng_aio_wait(ra[0]);
	if ((rv = nng_aio_result(ra[0])) != 0) {
		vf_violation("C04/disturbed/reply-not-delivered/staged-helper", "staged: the helper's genuine reply (sent after forged frames for queued requests) was not delivered: %s", nng_strerror(rv));
	} else {
		nng_msg_free(nng_aio_get_msg(ra[0]));
		nng_aio_set_msg(ra[0], NULL);
		for (int k = 0; k < nv; k++) {
			established[k] = nng_aio_busy(sa[2 + k]);
			vf_stat(established[k] ? "forged_early_while_queued" : "forged_early_not_established", 1);
		}
	}
	// every victim has its receive posted from here on (legal while the send
	// is queued); a reply wrongly stored for it would complete it at once
	for (int k = 0; k < nv; k++) {
		if (!early_recv[k]) FE_RECV(2 + k);
	}
	// 6. unplug: drain the plug, see the victims' requests, answer everything
	{
		size_t   rest = plug - VF_BODY_MIN;
		uint8_t *big = malloc(1 << 20);
		while (rest > 0) {
			size_t n = rest < (1u << 20) ? rest : (1u << 20);
			if (vf_fd_read_full(fd, big, n, 30000) != (long) n) vf_harness_fail("staged: plug body truncated");
			rest -= n;
		}
		free(big);
	}
	for (int k = 0; k < nv; k++) {
		uint32_t tag;
		uint64_t seq;
		len = vf_sp_recv_frame(fd, false, buf, sizeof(buf), LONG_MS);
		if (len < 4 + VF_BODY_MIN || vf_body_check(buf + 4, (size_t) len - 4, &tag, &seq) != 0 || (tag >> 16) != nonce || (tag & 0xff) < 2 || (int) (tag & 0xff) >= 2 + nv) {
			vf_violation("C04/disturbed/request-not-transmitted", "staged: after forged replies for queued requests only %d of %d queued requests reached the wire intact", k, nv);
			break;
		}
		int v = (int) (tag & 0xff) - 2;
		wire_id[v] = get32(buf);
		if (wire_id[v] > id_p && wire_id[v] <= id_p + (uint32_t) nv) vf_stat("forged_early_id_predicted", 1);
	}
	for (int k = 0; k < nv; k++) {
		if (wire_id[k] == 0) continue;
		pframe f = { .idword = wire_id[k], .tag = FE_TAG(2 + k), .seq = 1, .klass = K_CORRECT };
		if (tcp_emit(fd, &f) != 0) vf_harness_fail("staged: reply write");
	}
	for (int k = 0; k < nv; k++) {
		int srv = 0;
		if (wire_id[k] == 0) {
			// never transmitted (reported above): do not wait a minute
			// for it; look at what the receive got before cancelling
			if (nng_aio_busy(ra[2 + k])) {
				nng_aio_cancel(ra[2 + k]);
				nng_aio_cancel(sa[2 + k]);
			}
		} else {
			nng_aio_wait(sa[2 + k]);
			if ((srv = nng_aio_result(sa[2 + k])) != 0) {
				char key[96];
				snprintf(key, sizeof(key), "C04/disturbed/send-failed/staged-%s", errname(srv));
				vf_violation(key, "staged: queued request %d failed after forged replies: %s", k, nng_strerror(srv));
			}
		}
		nng_aio_wait(ra[2 + k]);
		rv = nng_aio_result(ra[2 + k]);
		m = nng_aio_get_msg(ra[2 + k]);
		nng_aio_set_msg(ra[2 + k], NULL);
		if (m == NULL) {
			if (wire_id[k] != 0 && srv == 0) {
				vf_violation("C04/disturbed/reply-not-delivered/staged-victim", "staged: victim %d's genuine request was transmitted and answered, but its receive returned %s", k, nng_strerror(rv));
			}
			continue;
		}
		size_t   ml = nng_msg_len(m);
		uint32_t kl = ml >= TRAILER ? get32((uint8_t *) nng_msg_body(m) + ml - 8) : K_N;
		uint32_t fid = ml >= TRAILER ? get32((uint8_t *) nng_msg_body(m) + ml - 4) : 0;
		if (kl == K_FORGED && established[k]) {
			vf_violation("C04/unsolicited-delivered/reply-before-request-on-wire", "staged: %s %d's request was still queued inside the socket (send pending, only pipe busy) when a reply with the predicted id %08x was processed; that forged reply was delivered as its answer%s", (k == 0 && sock_victim) ? "socket victim" : "victim", k, fid, early_recv[k] ? " (receive posted early)" : "");
		} else if (kl == K_FORGED) {
			vf_stat("forged_early_delivered_unjudged", 1); // the request may have been on the wire by then
		} else if (kl == K_CORRECT) {
			vf_stat("forged_early_genuine_answered", 1);
		} else {
			vf_violation("C04/reply-garbled", "staged: victim %d received a %zu-byte message that is neither reply", k, ml);
		}
		nng_msg_free(m);
	}
	vf_stat("staged_forged_cases", 1);
	close(fd);
	close(lfd);
	for (int i = 0; i < 2 + nv; i++) {
		nng_aio_stop(sa[i]);
		nng_aio_stop(ra[i]);
		if ((m = nng_aio_get_msg(sa[i])) != NULL) nng_msg_free(m);
		if ((m = nng_aio_get_msg(ra[i])) != NULL) nng_msg_free(m);
		nng_aio_free(sa[i]);
		nng_aio_free(ra[i]);
		nng_ctx_close(cx[i]);
	}
	nng_socket_close(s);
	vf_nng_fini("C04");
	vf_nng_init(4, 2, 2);
}

// ------------------------------------------------------------ staged: a send refused on the spot
// Deterministic companion of op_refused.  A raw TCP peer is the only pipe there
// will ever be, so "no pipe is ready" is known, not guessed:
//   no-peer     nothing has connected yet;
//   pipe-busy   the only pipe is busy with a multi-megabyte request that the
//               peer does not read;
//   peer-gone   after a complete exchange the peer closed its connection (the
//               redialled one is not served yet).
// In that situation the victim (a context, or the socket) sends with
// NNG_FLAG_NONBLOCK / a zero timeout / an expiry already past: refused.  Then
//   1. receives in every form must fail with NNG_ESTATE (there is no request);
//   2. the peer "answers" the refused request's id (taken from the header of the
//      message handed back) and the next id, then genuinely answers a helper
//      context on the same connection: when the helper has its reply the
//      forged frames are processed, and a receive on the victim must still say
//      NNG_ESTATE - never hand out a message;
//   3. the victim's next request is an ordinary exchange, although the forged
//      frames are repeated in front of the genuine reply.
enum { SR_NOPEER, SR_BUSY, SR_GONE, SR_N };
static const char *srname[SR_N] = { "no-peer", "pipe-busy", "peer-gone" };

typedef struct {
	nng_socket s;
	nng_ctx    c;
	bool       is_sock;
	nng_aio   *sa, *ra;
	int        sit;
	long       estate;
} srvictim;

static int
sr_raw_peer(int lfd, nng_socket s, int want_pipes)
{
	uint16_t peerproto = 0;
	int      fd = vf_tcp_accept(lfd, LONG_MS);
	if (fd < 0) vf_harness_fail("staged refused: raw accept");
	if (vf_sp_handshake(fd, 0x31, &peerproto, LONG_MS) != 0 || peerproto != 0x30) vf_harness_fail("staged refused: raw handshake");
	for (int i = 0; vf_pipe_count(s) < want_pipes; i++) {
		if (i > 10000) vf_harness_fail("staged refused: pipe did not come up");
		vf_msleep(1);
	}
	return fd;
}

// one receive that must be refused; form 0 aio, 1 non-blocking, 2 blocking
static bool
sr_recv_estate(srvictim *v, int form, const char *when)
{
	static const char *fname[3] = { "aio", "sync-nonblock", "sync-blocking" };
	nng_msg           *m = NULL;
	int                rv;
	if (form == 0) {
		nng_aio_set_timeout(v->ra, 300);
		if (v->is_sock) {
			nng_socket_recv(v->s, v->ra);
		} else {
			nng_ctx_recv(v->c, v->ra);
		}
		nng_aio_wait(v->ra);
		rv = nng_aio_result(v->ra);
		m = nng_aio_get_msg(v->ra);
		nng_aio_set_msg(v->ra, NULL);
	} else {
		int fl = form == 1 ? NNG_FLAG_NONBLOCK : 0;
		rv = v->is_sock ? nng_recvmsg(v->s, &m, fl) : nng_ctx_recvmsg(v->c, &m, fl);
		if (rv != 0) m = NULL;
	}
	if (rv == NNG_ESTATE && m == NULL) {
		v->estate++;
		return true;
	}
	char key[160];
	if (m != NULL) {
		size_t   ml = nng_msg_len(m);
		uint32_t kl = ml >= TRAILER ? get32((uint8_t *) nng_msg_body(m) + ml - 8) : K_N;
		uint32_t fid = ml >= TRAILER ? get32((uint8_t *) nng_msg_body(m) + ml - 4) : 0;
		snprintf(key, sizeof(key), "C04/unknown-id-delivered/refused-send-id/staged-%s/%s", srname[v->sit], when);
		vf_violation(key, "staged (%s, %s victim): no request exists after the refused send, yet a %s receive %s returned a message (reply class %s, id %08x)", srname[v->sit], v->is_sock ? "socket" : "context", fname[form], when, kl < K_N ? kname[kl] : "?", fid);
		nng_msg_free(m);
	} else {
		snprintf(key, sizeof(key), "C04/state/req-recv-after-refused-send/%s/%s/%s", srname[v->sit], fname[form], errname(rv));
		vf_violation(key, "staged (%s, %s victim): a %s receive %s returned %s, expected NNG_ESTATE: the send was refused, nothing was queued or sent", srname[v->sit], v->is_sock ? "socket" : "context", fname[form], when, nng_strerror(rv));
	}
	return false;
}

// a send that must be refused; returns the id found in the returned message's
// header (0: none), or 1 if the send was NOT refused as expected
static uint32_t
sr_refused_send(srvictim *v, int form, uint32_t tag, uint32_t seq)
{
	nng_msg *m;
	int      rv;
	size_t   size = VF_BODY_MIN + 24;
	uint32_t rid = 0;
	if (nng_msg_alloc(&m, size) != 0) vf_harness_fail("msg alloc");
	vf_body_make(nng_msg_body(m), size, tag, seq);
	if (form == RF_SYNC) {
		rv = v->is_sock ? nng_sendmsg(v->s, m, NNG_FLAG_NONBLOCK) : nng_ctx_sendmsg(v->c, m, NNG_FLAG_NONBLOCK);
		if (rv == NNG_EAGAIN) rv = NNG_ETIMEDOUT;
		else if (rv == NNG_ETIMEDOUT) rv = NNG_EINTERNAL;
	} else {
		nng_aio_set_msg(v->sa, m);
		nng_aio_set_timeout(v->sa, form == RF_AIO0 ? 0 : LONG_MS);
		if (form == RF_EXPIRE) nng_aio_set_expire(v->sa, nng_clock());
		if (v->is_sock) {
			nng_socket_send(v->s, v->sa);
		} else {
			nng_ctx_send(v->c, v->sa);
		}
		nng_aio_wait(v->sa);
		rv = nng_aio_result(v->sa);
		m = rv != 0 ? nng_aio_get_msg(v->sa) : NULL;
		nng_aio_set_msg(v->sa, NULL);
	}
	if (rv != NNG_ETIMEDOUT) {
		// not refused (the plug may have fitted into the kernel's buffers,
		// so that the pipe was ready): nothing staged, nothing to judge
		vf_stat("staged_refused_not_refused", 1);
		if (m != NULL) nng_msg_free(m);
		return 1;
	}
	if (m != NULL) {
		if (nng_msg_header_len(m) == 4) rid = get32(nng_msg_header(m));
		nng_msg_free(m);
	}
	return (rid & 0x80000000u) ? rid : 0;
}

static void
staged_refused(long idx, int sit)
{
	vf_rng     r;
	nng_socket s;
	nng_ctx    cv, ch, cp;
	nng_aio   *sa[3], *ra[3]; // 0 victim, 1 helper, 2 plug
	srvictim   v;
	uint16_t   port = 0;
	int        lfd, fd = -1, rv, sz = 4096;
	char       url[64];
	uint8_t    hdr[8 + 4 + VF_BODY_MIN], buf[256];
	nng_msg   *m;
	long       len;
	const uint32_t nonce = 0xfd00;
	uint32_t   vseq = 0;

	vf_rng_seed(&r, vf_seed, 9000 + (uint64_t) idx);
	bool   sock_victim = vf_chance(&r, 1, 3);
	int    form = (int) vf_below(&r, RF_N), form2 = (int) vf_below(&r, RF_N);
	bool   twice = vf_chance(&r, 1, 2);
	size_t plug = (size_t) vf_range(&r, 3, 8) << 20;
	vf_case_begin(idx, "staged: send refused on the spot (%s, %s victim, %s%s%s), then receive / forged replies to the refused id / next request", srname[sit], sock_victim ? "socket" : "context", rfname[form], twice ? " then " : "", twice ? rfname[form2] : "");
	vf_watchdog(120);
	atomic_store(&A.serial, 0);
	if ((lfd = vf_tcp_listen(&port)) < 0) vf_harness_fail("raw listen");
	setsockopt(lfd, SOL_SOCKET, SO_RCVBUF, &sz, sizeof(sz));
	if (nng_req0_open(&s) != 0) vf_harness_fail("req open");
	nng_socket_set_size(s, NNG_OPT_RECVMAXSZ, 0);
	nng_socket_set_ms(s, NNG_OPT_RECONNMINT, 2);
	nng_socket_set_ms(s, NNG_OPT_RECONNMAXT, 10);
	nng_socket_set_ms(s, NNG_OPT_SENDTIMEO, LONG_MS);
	nng_socket_set_ms(s, NNG_OPT_RECVTIMEO, 1000); // (a wrongly accepted blocking receive ends after 1 s)
	if (nng_ctx_open(&cv, s) != 0 || nng_ctx_open(&ch, s) != 0 || nng_ctx_open(&cp, s) != 0) vf_harness_fail("ctx open");
	for (int i = 0; i < 3; i++) {
		if (nng_aio_alloc(&sa[i], NULL, NULL) != 0 || nng_aio_alloc(&ra[i], NULL, NULL) != 0) vf_harness_fail("aio alloc");
	}
	memset(&v, 0, sizeof(v));
	v.s = s;
	v.c = cv;
	v.is_sock = sock_victim;
	v.sa = sa[0];
	v.ra = ra[0];
	v.sit = sit;
	snprintf(url, sizeof(url), "tcp://127.0.0.1:%u", port);
#define SR_TAG(i) ((nonce << 16) | (uint32_t) (i))
#define SR_SEND(i, ctx, size, seq)                                              \
	do {                                                                    \
		if (nng_msg_alloc(&m, (size)) != 0) vf_harness_fail("msg alloc"); \
		vf_body_make(nng_msg_body(m), (size), SR_TAG(i), (seq));        \
		nng_aio_set_msg(sa[i], m);                                      \
		nng_aio_set_timeout(sa[i], 60000);                              \
		if ((i) == 0 && sock_victim) {                                  \
			nng_socket_send(s, sa[i]);                              \
		} else {                                                        \
			nng_ctx_send((ctx), sa[i]);                             \
		}                                                               \
	} while (0)
#define SR_RECV(i, ctx)                                  \
	do {                                             \
		nng_aio_set_timeout(ra[i], 60000);       \
		if ((i) == 0 && sock_victim) {           \
			nng_socket_recv(s, ra[i]);       \
		} else {                                 \
			nng_ctx_recv((ctx), ra[i]);      \
		}                                        \
	} while (0)
	bool     helper_out = false;
	uint32_t id_h = 0, id_p = 0;
	if (sit != SR_NOPEER) {
		if ((rv = nng_dial(s, url, NULL, NNG_FLAG_NONBLOCK)) != 0) vf_harness_fail("dial: %s", nng_strerror(rv));
		fd = sr_raw_peer(lfd, s, 1);
	}
	if (sit == SR_GONE) {
		// a complete exchange of the victim first
		SR_SEND(0, cv, VF_BODY_MIN + 16, ++vseq);
		nng_aio_wait(sa[0]);
		if (nng_aio_result(sa[0]) != 0) vf_harness_fail("staged refused: first send: %s", nng_strerror(nng_aio_result(sa[0])));
		len = vf_sp_recv_frame(fd, false, buf, sizeof(buf), LONG_MS);
		if (len < 4 + VF_BODY_MIN) vf_harness_fail("staged refused: first request not seen (%ld)", len);
		pframe f = { .idword = get32(buf), .tag = SR_TAG(0), .seq = vseq, .klass = K_CORRECT };
		if (tcp_emit(fd, &f) != 0) vf_harness_fail("staged refused: reply write");
		SR_RECV(0, cv);
		nng_aio_wait(ra[0]);
		if ((rv = nng_aio_result(ra[0])) != 0) {
			vf_violation("C04/disturbed/reply-not-delivered/staged-refused-first", "staged (peer-gone): the first, ordinary exchange failed: %s", nng_strerror(rv));
		} else {
			nng_msg_free(nng_aio_get_msg(ra[0]));
			nng_aio_set_msg(ra[0], NULL);
		}
		close(fd);
		fd = -1;
		for (int i = 0; vf_pipe_count(s) > 0; i++) {
			if (i > 10000) vf_harness_fail("staged refused: pipe did not go away");
			vf_msleep(1);
		}
	} else if (sit == SR_BUSY) {
		// helper's request is read and held; then the plug
		SR_SEND(1, ch, VF_BODY_MIN + 40, 1);
		nng_aio_wait(sa[1]);
		if (nng_aio_result(sa[1]) != 0) vf_harness_fail("staged refused: helper send: %s", nng_strerror(nng_aio_result(sa[1])));
		len = vf_sp_recv_frame(fd, false, buf, sizeof(buf), LONG_MS);
		if (len < 4 + VF_BODY_MIN) vf_harness_fail("staged refused: helper request not seen (%ld)", len);
		id_h = get32(buf);
		SR_RECV(1, ch);
		helper_out = true;
		SR_SEND(2, cp, plug, 1);
		nng_aio_wait(sa[2]);
		if (nng_aio_result(sa[2]) != 0) vf_harness_fail("staged refused: plug send: %s", nng_strerror(nng_aio_result(sa[2])));
		if (vf_fd_read_full(fd, hdr, sizeof(hdr), LONG_MS) != (long) sizeof(hdr)) vf_harness_fail("staged refused: plug header not seen");
		id_p = get32(hdr + 8);
	}
	// the refused send(s), each followed by receives
	uint32_t rid[2] = { 0, 0 };
	int      nref = 0;
	bool     ok = true;
	for (int k = 0; k < (twice ? 2 : 1) && ok; k++) {
		int fm = k == 0 ? form : form2;
		rid[nref] = sr_refused_send(&v, fm, SR_TAG(0), ++vseq);
		if (rid[nref] == 1) {
			ok = false;
			break;
		}
		vf_stat("staged_refused_sends", 1);
		vf_class("staged-refused/%s/%s/%s", srname[sit], sock_victim ? "sock" : "ctx", rfname[fm]);
		if (rid[nref] != 0) {
			vf_stat("staged_refused_id_known", 1);
			if (sit == SR_BUSY && rid[nref] == ((id_p + 1 + (uint32_t) k) | 0x80000000u)) vf_stat("staged_refused_id_predicted", 1);
			nref++;
		}
		// aio first, then non-blocking; the blocking form only if those
		// were refused
		ok = sr_recv_estate(&v, vf_chance(&r, 1, 2) ? 0 : 1, "at-once");
		if (ok) ok = sr_recv_estate(&v, 0, "repeated") && sr_recv_estate(&v, 1, "repeated");
		if (ok && vf_chance(&r, 1, 2)) ok = sr_recv_estate(&v, 2, "repeated");
	}
	// the peer "answers" the refused ids
	if (sit != SR_BUSY) {
		if (sit == SR_NOPEER && (rv = nng_dial(s, url, NULL, NNG_FLAG_NONBLOCK)) != 0) vf_harness_fail("dial: %s", nng_strerror(rv));
		fd = sr_raw_peer(lfd, s, 1);
		SR_SEND(1, ch, VF_BODY_MIN + 40, 1);
		nng_aio_wait(sa[1]);
		if (nng_aio_result(sa[1]) != 0) vf_harness_fail("staged refused: helper send: %s", nng_strerror(nng_aio_result(sa[1])));
		len = vf_sp_recv_frame(fd, false, buf, sizeof(buf), LONG_MS);
		if (len < 4 + VF_BODY_MIN) vf_harness_fail("staged refused: helper request not seen (%ld)", len);
		id_h = get32(buf);
		SR_RECV(1, ch);
		helper_out = true;
	}
	uint32_t forged[4];
	int      nforged = 0;
	for (int k = 0; k < nref; k++) forged[nforged++] = rid[k];
	// (the id after the last refused one: not drawn yet, unless the helper's
	// request, sent after the refusal, took it)
	if (nref > 0 && ((rid[nref - 1] + 1) | 0x80000000u) != id_h) forged[nforged++] = (rid[nref - 1] + 1) | 0x80000000u;
	if (ok && nforged > 0) {
		for (int k = 0; k < nforged; k++) {
			pframe f = { .idword = forged[k], .tag = SR_TAG(0), .seq = vseq, .klass = k < nref ? K_REFUSED : K_NEIGHBOUR };
			if (tcp_emit(fd, &f) != 0) vf_harness_fail("staged refused: forged write");
		}
		vf_stat("staged_refused_forged_frames", nforged);
	}
	if (helper_out) {
		pframe f = { .idword = id_h, .tag = SR_TAG(1), .seq = 1, .klass = K_CORRECT };
		if (tcp_emit(fd, &f) != 0) vf_harness_fail("staged refused: marker write");
		nng_aio_wait(ra[1]);
		if ((rv = nng_aio_result(ra[1])) != 0) {
			vf_violation("C04/disturbed/reply-not-delivered/staged-refused-helper", "staged (%s): the helper's genuine reply (sent after forged replies to a refused request's id) was not delivered: %s", srname[sit], nng_strerror(rv));
			ok = false;
		} else {
			nng_msg_free(nng_aio_get_msg(ra[1]));
			nng_aio_set_msg(ra[1], NULL);
			// the forged frames have been processed by now
			if (ok && nforged > 0 && sr_recv_estate(&v, 0, "after-forged-replies")) vf_stat("staged_refused_forged_discarded", 1);
		}
	}
	if (sit == SR_BUSY) {
		size_t   rest = plug - VF_BODY_MIN;
		uint8_t *big = malloc(1 << 20);
		while (rest > 0) {
			size_t n = rest < (1u << 20) ? rest : (1u << 20);
			if (vf_fd_read_full(fd, big, n, 30000) != (long) n) vf_harness_fail("staged refused: plug body truncated");
			rest -= n;
		}
		free(big);
	}
	// the victim's next request: an ordinary exchange
	if (ok) {
		SR_SEND(0, cv, VF_BODY_MIN + 16, ++vseq);
		nng_aio_wait(sa[0]);
		if ((rv = nng_aio_result(sa[0])) != 0) {
			char key[96];
			snprintf(key, sizeof(key), "C04/disturbed/send-failed/staged-after-refused-%s", errname(rv));
			vf_violation(key, "staged (%s): the request after a refused send failed: %s", srname[sit], nng_strerror(rv));
			if ((m = nng_aio_get_msg(sa[0])) != NULL) nng_msg_free(m);
			nng_aio_set_msg(sa[0], NULL);
		} else {
			uint32_t tag;
			uint64_t seq;
			len = vf_sp_recv_frame(fd, false, buf, sizeof(buf), LONG_MS);
			if (len < 4 + VF_BODY_MIN || vf_body_check(buf + 4, (size_t) len - 4, &tag, &seq) != 0 || tag != SR_TAG(0) || seq != vseq) {
				vf_violation("C04/disturbed/request-not-transmitted", "staged (%s): the request after a refused send did not reach the wire intact (%ld bytes)", srname[sit], len);
			} else {
				uint32_t id_v = get32(buf);
				SR_RECV(0, cv);
				// the forged frames once more, now with a request out
				// (its id may be the "next id" forged above: skip that)
				for (int k = 0; k < nforged; k++) {
					if (forged[k] == id_v) continue;
					pframe f = { .idword = forged[k], .tag = SR_TAG(0), .seq = vseq - 1, .klass = K_REFUSED };
					if (tcp_emit(fd, &f) != 0) vf_harness_fail("staged refused: forged write");
				}
				pframe f = { .idword = id_v, .tag = SR_TAG(0), .seq = vseq, .klass = K_CORRECT };
				if (tcp_emit(fd, &f) != 0) vf_harness_fail("staged refused: reply write");
				nng_aio_wait(ra[0]);
				rv = nng_aio_result(ra[0]);
				m = nng_aio_get_msg(ra[0]);
				nng_aio_set_msg(ra[0], NULL);
				if (rv != 0 || m == NULL) {
					vf_violation("C04/disturbed/reply-not-delivered/staged-after-refused", "staged (%s): the request after a refused send was transmitted and answered, but its receive returned %s", srname[sit], nng_strerror(rv));
				} else {
					size_t   ml = nng_msg_len(m);
					uint32_t kl = ml >= TRAILER ? get32((uint8_t *) nng_msg_body(m) + ml - 8) : K_N;
					uint32_t fid = ml >= TRAILER ? get32((uint8_t *) nng_msg_body(m) + ml - 4) : 0;
					if (kl == K_CORRECT && fid == id_v) {
						vf_stat("staged_refused_next_exchange_ok", 1);
					} else {
						char key[128];
						snprintf(key, sizeof(key), "C04/unknown-id-delivered/refused-send-id/staged-%s/next-request", srname[sit]);
						vf_violation(key, "staged (%s): the request after a refused send is on the wire with id %08x, but a reply of class %s carrying id %08x was delivered as its answer", srname[sit], id_v, kl < K_N ? kname[kl] : "?", fid);
					}
				}
				if (m != NULL) nng_msg_free(m);
			}
		}
	}
	vf_stat("staged_refused_cases", 1);
	vf_stat("staged_refused_estate", v.estate);
	if (fd >= 0) close(fd);
	close(lfd);
	for (int i = 0; i < 3; i++) {
		nng_aio_stop(sa[i]);
		nng_aio_stop(ra[i]);
		if ((m = nng_aio_get_msg(sa[i])) != NULL) nng_msg_free(m);
		if ((m = nng_aio_get_msg(ra[i])) != NULL) nng_msg_free(m);
		nng_aio_free(sa[i]);
		nng_aio_free(ra[i]);
	}
	nng_ctx_close(cv);
	nng_ctx_close(ch);
	nng_ctx_close(cp);
	nng_socket_close(s);
	vf_nng_fini("C04");
	vf_nng_init(4, 2, 2);
}

int
main(int argc, char **argv)
{
	vf_init(argc, argv);
	vf_nng_init(4, 2, 2);
	vf_ev_hook(c04_ev);
	bool thorough = vf_tier == 1;
	for (long idx = 0; idx < vf_cases; idx++) {
		if (!vf_want_case(idx)) continue;
		vf_rng  r;
		casecfg c;
		vf_rng_seed(&r, vf_seed, (uint64_t) idx);
		memset(&c, 0, sizeof(c));
		c.key = vf_rand(&r);
		c.nonce = (uint32_t) (vf_rand(&r) & 0xffff);
		if (!strcmp(vf_mode, "tcpadv")) c.mode = M_TCPADV;
		else if (!strcmp(vf_mode, "xrep")) c.mode = M_XREP;
		else if (!strcmp(vf_mode, "rep")) c.mode = M_REP;
		else {
			uint32_t k = vf_below(&r, 10);
			c.mode = k < 5 ? M_TCPADV : k < 8 ? M_XREP : M_REP;
		}
		c.tran = c.mode == M_TCPADV ? VF_T_TCP : vf_chance(&r, 1, 2) ? VF_T_INPROC : VF_T_TCP;
		c.nctx = (int) vf_range(&r, 1, MAXCTX);
		c.use_sock = vf_chance(&r, 1, 2);
		c.npipes = (int) vf_range(&r, 1, 4);
		c.exchanges = (long) vf_range(&r, 200, thorough ? 5000 : 1200);
		c.retry_ms = (c.mode == M_XREP || vf_chance(&r, 1, 2)) ? (int) vf_range(&r, 5, 50) : 0;
		// (an expired request is retransmitted once per tick, so the tick
		// bounds the retransmission rate: at most contexts/tick per second)
		c.tick_ms = c.retry_ms > 20 ? (int) vf_range(&r, 10, (uint32_t) c.retry_ms) : 10;
		c.rchg = c.retry_ms > 0 && vf_chance(&r, 1, 3);
		c.kills = c.mode != M_REP && vf_chance(&r, 1, 3);
		c.big = c.mode == M_TCPADV && vf_chance(&r, 1, 3);
		c.blackouts = c.mode == M_TCPADV && vf_chance(&r, 2, 5);
		c.jit_permille = (int) vf_range(&r, 5, 60);
		c.jit_us = (int) vf_range(&r, 20, 300);
		run_case(idx, &c);
	}
	// (one worker is enough: the staged case is deterministic)
	if (vf_shard == 0 && vf_want_case(vf_cases)) staged_late_timeout(vf_cases);
	for (long j = 1; j <= (thorough ? 16 : 8); j++) {
		if (vf_want_case(vf_cases + j)) staged_forged_early(vf_cases + j);
	}
	for (long j = 0; j < (thorough ? 12 : 6); j++) {
		long sidx = vf_cases + 32 + j;
		if (vf_want_case(sidx)) staged_refused(sidx, (int) (j % SR_N));
	}
	vf_nng_fini("C04");
	return vf_finish();
}
