// C07 (respondent side): a RESPONDENT socket / context sends its response
// only to the surveyor - connection and routing backtrace - whose survey it
// most recently received; sending with no pending survey fails with NNG_ESTATE.
//
// One real RESPONDENT socket with 1-6 worker threads (one context each;
// optionally worker 0 uses the socket itself) serves 2-4 connections.  Every
// connection is a raw surveyor driven by the harness: a raw TCP peer speaking
// SP as SURVEYOR (0x62) or an nng raw SURVEYOR socket with exactly one pipe
// (inproc or tcp).  A peer keeps 1-8 surveys in flight; each carries a
// backtrace of 0..ttl-1 seeded hop words (high bit clear) followed by a survey
// id word (high bit set) - sometimes the very same backtrace and id on every
// connection - and a body {peer index, directive, nonce | seq}.  Workers echo
// (peer, seq) of the survey they received LAST and add their own index; a
// survey marked DROP is received and never answered: the next receive on that
// context replaces it, and the response that follows must go to the surveyor
// of the replacement only.
//
// Oracle, judged by the peer that owns the connection: every response
// arriving on a connection echoes a survey of THIS connection, carries exactly
// the backtrace that survey was sent with, arrives at most once, and is never
// a response to a survey the application replaced.  (Responses that were sent
// and never arrive within 10 s are reported as well: with all peers reading,
// nothing legitimately discards them.)  State machine probes: send on a fresh
// context, on a context that never receives (all through the run), on the
// idle socket, and a second send after a response -> NNG_ESTATE.
//
// Second-audit additions:
//  * one raw TCP surveyor per case (if there is one) is cut mid-run; just
//    before, it sends 1-3 surveys marked HOLD, which the workers keep until
//    the RESPONDENT has removed that pipe (NNG_PIPE_EV_REM_POST seen), then
//    answer (the reply is dropped) - the send after that reply must be
//    refused with NNG_ESTATE like any second send.
//  * raw TCP surveyors now and then stop reading for 50-200 ms after asking
//    for a burst of replies padded to 3-4 MB, more of them than there are
//    workers.  The pipe stays busy, replies queue up behind it (a worker does
//    not wait for such a send: it receives the next survey with the reply
//    still pending) and a context that gets a second survey of the burst
//    replaces its queued reply: that send ends with NNG_ECANCELED and its
//    reply must never arrive; every other send ends with 0 and its reply
//    arrives on the right connection with the right backtrace, once.
#include "vfh.h"

#include <errno.h>
#include <poll.h>
#include <pthread.h>
#include <stdatomic.h>
#include <sys/socket.h>
#include <unistd.h>

#define MAXPEERS 4
#define MAXWORK 6
#define LONG_MS 10000
#define MAXWORDS 16
#define BIG_MIN (3u << 20) // a reply this big cannot disappear into the socket buffers of a peer that does not read
#define BIG_VAR (1u << 20)
#define RBUF_CAP (BIG_MIN + BIG_VAR + 8192)

// D_HOLD: the worker keeps the survey until its surveyor's connection is gone,
// then answers.  D_BIG: the answer is padded to several megabytes.
enum { D_NORMAL, D_DROP, D_HOLD, D_BIG };
enum { PK_TCP, PK_XSURV };
static const char *pkname[2] = { "rawtcp", "xsurveyor" };
enum { R_NONE, R_OUT, R_ANSWERED, R_DROP, R_CANCELLED };

typedef struct {
	int      tran; // transport of the nng raw SURVEYOR peers
	int      npeers, nworkers, ttl, window;
	int      kind[MAXPEERS];
	bool     use_sock;
	int      dies; // index of a raw TCP connection that is cut mid-window, or -1
	bool     stalls; // raw TCP surveyors stop reading now and then
	long     exchanges;
	int      jit_permille, jit_us;
	uint32_t nonce;
	uint64_t key;
} casecfg;

typedef struct {
	uint8_t  state;
	uint8_t  nwords;
	uint32_t words[MAXWORDS];
} svrec;

static struct {
	nng_socket    resp;
	_Atomic bool  stop;
	char          xurl[128];
	uint16_t      tcp_port;
	uint32_t      common[MAXWORDS]; // a backtrace all peers may use
	_Atomic long  consumed[MAXPEERS]; // surveys of a peer taken by the workers
	_Atomic int   removed;            // pipes the RESPONDENT has removed (NNG_PIPE_EV_REM_POST)
	_Atomic bool  died[MAXPEERS];     // the harness closed this surveyor connection
	_Atomic uint32_t stall[MAXPEERS]; // odd while the raw TCP surveyor is not reading
	_Atomic uint8_t *wst[MAXPEERS];   // per survey: 1 = the send of its reply ended with NNG_ECANCELED
	uint32_t         wst_n[MAXPEERS];
} G;

static void
pipe_removed_cb(nng_pipe p, nng_pipe_ev ev, void *arg)
{
	(void) p;
	(void) ev;
	(void) arg;
	atomic_fetch_add(&G.removed, 1);
}

static uint32_t
get32(const uint8_t *p)
{
	return ((uint32_t) p[0] << 24) | ((uint32_t) p[1] << 16) | ((uint32_t) p[2] << 8) | p[3];
}
static void
put32(uint8_t *p, uint32_t v)
{
	p[0] = (uint8_t) (v >> 24);
	p[1] = (uint8_t) (v >> 16);
	p[2] = (uint8_t) (v >> 8);
	p[3] = (uint8_t) v;
}

static const char *
errname(int rv)
{
	switch (rv) {
	case 0: return "ok";
	case NNG_ETIMEDOUT: return "ETIMEDOUT";
	case NNG_ESTATE: return "ESTATE";
	case NNG_ECANCELED: return "ECANCELED";
	case NNG_ECLOSED: return "ECLOSED";
	default: return "other";
	}
}

// ------------------------------------------------------------ workers
// a send that is not waited for at once
typedef struct {
	nng_aio    *aio;
	_Atomic int done;
	bool        inflight, across_recv, big;
	int         peer;
	uint64_t    seq;
	uint32_t    epoch; // G.stall[peer] when the send was issued
	uint32_t    epoch_done; // ... and when its completion callback ran
} sslot;

typedef struct {
	int            idx;
	bool           is_sock;
	nng_ctx        ctx;
	const casecfg *cc;
	pthread_t      thr;
	sslot          ss[2];
	nng_aio       *pa; // for sends that must be refused
	bool           closed;
	long           served, dropped, replaced_other_peer, estate_fresh, estate_second, estate_orphan, estate_parked, recv_timeouts, parked, superseded, pending_across_recv, big_sent, held, held_gone;
} worker;

static void
ss_cb(void *arg)
{
	sslot *sl = arg;
	sl->epoch_done = atomic_load(&G.stall[sl->peer]);
	atomic_store(&sl->done, 1);
}

static void
w_send(worker *w, nng_aio *aio)
{
	if (w->is_sock) {
		nng_socket_send(G.resp, aio);
	} else {
		nng_ctx_send(w->ctx, aio);
	}
}

// a send that must be refused with NNG_ESTATE
static bool
expect_estate_send(worker *w, nng_aio *aio, const char *where)
{
	nng_msg *m;
	if (nng_msg_alloc(&m, 16) != 0) vf_harness_fail("msg alloc");
	nng_aio_set_msg(aio, m);
	nng_aio_set_timeout(aio, 2000);
	w_send(w, aio);
	nng_aio_wait(aio);
	int rv = nng_aio_result(aio);
	if (rv != 0) {
		if ((m = nng_aio_get_msg(aio)) != NULL) nng_msg_free(m);
		nng_aio_set_msg(aio, NULL);
	}
	if (rv != NNG_ESTATE) {
		char key[112];
		snprintf(key, sizeof(key), "C07/state/respondent-send-without-survey/%s/%s", where, errname(rv));
		vf_violation(key, "RESPONDENT %s %d: send with no survey pending (%s) returned %s, expected NNG_ESTATE", w->is_sock ? "socket" : "context", w->idx, where, rv == 0 ? "success" : nng_strerror(rv));
		return false;
	}
	return true;
}

// the send in this slot is complete: what became of it
static void
ss_finalize(worker *w, sslot *sl)
{
	int      rv = nng_aio_result(sl->aio);
	nng_msg *m;
	sl->inflight = false;
	if (rv != 0) {
		if ((m = nng_aio_get_msg(sl->aio)) != NULL) nng_msg_free(m);
		nng_aio_set_msg(sl->aio, NULL);
	}
	if (rv == 0) {
		w->served++;
		if (sl->big) w->big_sent++;
		// it was issued while its surveyor was not reading, was still pending
		// when the worker's next receive had completed, and its completion
		// callback ran only after the surveyor had resumed: it waited for the pipe
		if (sl->across_recv && (sl->epoch & 1) && sl->epoch_done != sl->epoch) w->parked++;
	} else if (rv == NNG_ECANCELED) {
		// nobody cancelled it: a later reply of this context took its place
		// in the queue of a busy pipe.  The surveyor will never see it.
		w->superseded++;
		if (sl->seq < G.wst_n[sl->peer]) atomic_store(&G.wst[sl->peer][sl->seq], 1);
	} else if (rv == NNG_ECLOSED) {
		w->closed = true;
	} else {
		char key[96];
		snprintf(key, sizeof(key), "C07/respond/send-failed/%s", errname(rv));
		vf_violation(key, "RESPONDENT %s %d: response to peer %d seq %llu failed: %s", w->is_sock ? "socket" : "context", w->idx, sl->peer, (unsigned long long) sl->seq, nng_strerror(rv));
	}
}

static void *
worker_thread(void *arg)
{
	worker  *w = arg;
	nng_aio *aio;
	vf_rng   r;
	int      last_drop_peer = -1, next_slot = 0;
	vf_rng_seed(&r, w->cc->key, 300 + (uint64_t) w->idx);
	if (nng_aio_alloc(&aio, NULL, NULL) != 0 || nng_aio_alloc(&w->pa, NULL, NULL) != 0) vf_harness_fail("aio alloc");
	for (int k = 0; k < 2; k++) {
		if (nng_aio_alloc(&w->ss[k].aio, ss_cb, &w->ss[k]) != 0) vf_harness_fail("aio alloc");
	}
	if (expect_estate_send(w, w->pa, "fresh")) w->estate_fresh++;
	while (!atomic_load(&G.stop) && !w->closed) {
		for (int k = 0; k < 2; k++) {
			if (w->ss[k].inflight && atomic_load(&w->ss[k].done)) {
				nng_aio_wait(w->ss[k].aio);
				ss_finalize(w, &w->ss[k]);
			}
		}
		nng_aio_set_timeout(aio, 20);
		if (w->is_sock) {
			nng_socket_recv(G.resp, aio);
		} else {
			nng_ctx_recv(w->ctx, aio);
		}
		nng_aio_wait(aio);
		int rv = nng_aio_result(aio);
		for (int k = 0; k < 2 && (rv == 0 || rv == NNG_ETIMEDOUT); k++) {
			// an earlier reply is still on its way out although this context
			// has been through its next receive (and may hold the next survey)
			if (w->ss[k].inflight && !atomic_load(&w->ss[k].done) && !w->ss[k].across_recv) {
				w->ss[k].across_recv = true;
				if (rv == 0) w->pending_across_recv++;
			}
		}
		if (rv == NNG_ETIMEDOUT) {
			w->recv_timeouts++;
			continue;
		}
		if (rv != 0) break;
		nng_msg *m = nng_aio_get_msg(aio);
		nng_aio_set_msg(aio, NULL);
		uint32_t tag;
		uint64_t seq;
		if (vf_body_check(nng_msg_body(m), nng_msg_len(m), &tag, &seq) != 0 || (tag >> 16) != w->cc->nonce || (tag & 0xff) >= MAXPEERS) {
			vf_violation("C07/respond/survey-garbled", "RESPONDENT received a %zu-byte survey that is not one that was sent (header %zu bytes)", nng_msg_len(m), nng_msg_header_len(m));
			nng_msg_free(m);
			continue;
		}
		nng_msg_free(m);
		int peer = (int) (tag & 0xff), dir = (int) ((tag >> 8) & 0xff);
		atomic_fetch_add(&G.consumed[peer], 1);
		if (dir == D_DROP) {
			w->dropped++; // never answered; the next receive replaces it
			last_drop_peer = peer;
			continue;
		}
		if (last_drop_peer >= 0 && last_drop_peer != peer) w->replaced_other_peer++;
		last_drop_peer = -1;
		bool gone = false;
		if (dir == D_HOLD) {
			// answer only when the surveyor's connection is gone for the
			// RESPONDENT as well (it has removed the pipe)
			w->held++;
			for (int i = 0; i < 15000 && !atomic_load(&G.stop); i++) {
				if (atomic_load(&G.died[peer]) && atomic_load(&G.removed) > 0) {
					gone = true;
					break;
				}
				vf_usleep(200);
			}
			if (gone) w->held_gone++;
		} else if (vf_chance(&r, 1, 8)) {
			vf_usleep((int) vf_below(&r, 400));
		}
		// a free send slot; the older one if both are still out
		sslot *sl = &w->ss[next_slot];
		if (sl->inflight) sl = &w->ss[next_slot ^ 1];
		if (sl->inflight) {
			sl = &w->ss[next_slot];
			nng_aio_wait(sl->aio);
			ss_finalize(w, sl);
			if (w->closed) break;
		}
		next_slot = (int) (sl - w->ss) ^ 1;
		size_t  bl = VF_BODY_MIN + vf_below(&r, 64);
		size_t  pad = dir == D_BIG ? BIG_MIN + vf_below(&r, BIG_VAR) : 0;
		if (nng_msg_alloc(&m, pad + bl + 8) != 0) vf_harness_fail("msg alloc");
		uint8_t *b = nng_msg_body(m);
		if (pad) memset(b, (int) (0xa5 ^ (uint8_t) seq), pad);
		vf_body_make(b + pad, bl, tag, seq);
		put32(b + pad + bl, (uint32_t) w->idx);
		put32(b + pad + bl + 4, (uint32_t) pad);
		nng_aio_set_msg(sl->aio, m);
		nng_aio_set_timeout(sl->aio, LONG_MS);
		atomic_store(&sl->done, 0);
		sl->inflight = true;
		sl->across_recv = false;
		sl->big = pad != 0;
		sl->peer = peer;
		sl->seq = seq;
		sl->epoch = atomic_load(&G.stall[peer]);
		w_send(w, sl->aio);
		if (!sl->big) {
			nng_aio_wait(sl->aio);
			ss_finalize(w, sl);
			if (w->closed) break;
		}
		// exactly one response per survey, whether the first one has left,
		// waits for its pipe, or was dropped because its surveyor is gone
		if (gone) {
			if (expect_estate_send(w, w->pa, "after-reply-to-gone-surveyor")) w->estate_orphan++;
		} else if (sl->big) {
			if (vf_chance(&r, 1, 2) && expect_estate_send(w, w->pa, "after-response-not-yet-sent")) w->estate_parked++;
		} else if (vf_chance(&r, 1, 5) && expect_estate_send(w, w->pa, "after-response")) {
			w->estate_second++;
		}
	}
	for (int k = 0; k < 2; k++) {
		if (w->ss[k].inflight) {
			nng_aio_wait(w->ss[k].aio);
			ss_finalize(w, &w->ss[k]);
		}
		nng_aio_free(w->ss[k].aio);
	}
	nng_aio_free(w->pa);
	nng_aio_free(aio);
	return NULL;
}

// ------------------------------------------------------------ peers (raw SURVEYOR)
typedef struct {
	int            idx, kind;
	const casecfg *cc;
	pthread_t      thr;
	vf_rng         rng;
	long           quota;
	int            fd;
	nng_socket     xs;
	svrec         *recs;
	uint32_t       nrecs;
	bool           failed, died;
	_Atomic bool   finished;
	long           orphaned, held_sent;
	uint8_t       *rbuf; // raw TCP: room for a padded reply
	uint32_t       lo;   // no survey below this number is still outstanding
	long           sent, verified, drops, common_used, maxwin, stalls, big_surveys, big_verified, cancelled;
	long           by_hops[MAXWORDS];
	bool           seen_worker[MAXWORK];
} peer;

static int
peer_send(peer *p, uint32_t seq, bool last, int force_dir)
{
	const casecfg *cc = p->cc;
	vf_rng        *r = &p->rng;
	svrec         *rc = &p->recs[seq];
	int            dir = force_dir >= 0 ? force_dir : (!last && vf_chance(r, 1, 8)) ? D_DROP : D_NORMAL;
	int            hops = (int) vf_below(r, (uint32_t) cc->ttl); // + id word <= ttl words
	size_t         bl = VF_BODY_MIN + (vf_chance(r, 1, 12) ? vf_below(r, 1500) : vf_below(r, 100));
	uint8_t        buf[8 + 4 * MAXWORDS + VF_BODY_MIN + 1600];
	if (vf_chance(r, 1, 4)) {
		// the same backtrace and survey id that other connections use
		for (int i = 0; i < hops; i++) rc->words[i] = G.common[i];
		rc->words[hops] = G.common[MAXWORDS - 1];
		p->common_used++;
	} else {
		for (int i = 0; i < hops; i++) rc->words[i] = (uint32_t) vf_rand(r) & 0x7fffffffu;
		rc->words[hops] = (uint32_t) vf_rand(r) | 0x80000000u;
	}
	rc->nwords = (uint8_t) (hops + 1);
	rc->state = dir == D_DROP ? R_DROP : R_OUT;
	uint32_t tag = (cc->nonce << 16) | ((uint32_t) dir << 8) | (uint32_t) p->idx;
	p->by_hops[hops]++;
	p->sent++;
	if (dir == D_DROP) p->drops++;
	if (p->kind == PK_TCP) {
		size_t n = 4 * (size_t) rc->nwords;
		memset(buf, 0, 8);
		put32(buf + 4, (uint32_t) (n + bl));
		for (int i = 0; i < rc->nwords; i++) put32(buf + 8 + 4 * i, rc->words[i]);
		vf_body_make(buf + 8 + n, bl, tag, seq);
		if (vf_fd_write_all(p->fd, buf, 8 + n + bl, LONG_MS) != 0) return -1;
	} else {
		nng_msg *m;
		if (nng_msg_alloc(&m, bl) != 0) vf_harness_fail("msg alloc");
		for (int i = 0; i < rc->nwords; i++) nng_msg_header_append_u32(m, rc->words[i]);
		vf_body_make(nng_msg_body(m), bl, tag, seq);
		if (nng_sendmsg(p->xs, m, 0) != 0) {
			nng_msg_free(m);
			return -1;
		}
	}
	return dir == D_DROP ? 1 : 0;
}

// Judge one response that arrived on this peer's connection.  bt/nbt: the
// backtrace words in front of the body (up to and including the id word).
static bool // true if it answered one of our outstanding surveys
peer_judge(peer *p, const uint32_t *bt, int nbt, const uint8_t *body, size_t len)
{
	uint32_t tag;
	uint64_t seq;
	char     key[128];
	size_t   pad = len >= VF_BODY_MIN + 8 ? get32(body + len - 4) : 0;
	if (len < VF_BODY_MIN + 8 || pad > len - VF_BODY_MIN - 8 || vf_body_check(body + pad, len - pad - 8, &tag, &seq) != 0) {
		snprintf(key, sizeof(key), "C07/respond/garbled/%s", pkname[p->kind]);
		vf_violation(key, "peer %d: a response of %zu bytes with a %d-word backtrace is not an echo of any survey", p->idx, len, nbt);
		return false;
	}
	for (size_t i = 0; i < pad; i += 4093) {
		if (body[i] != (uint8_t) (0xa5 ^ (uint8_t) seq) || body[pad - 1] != body[i]) {
			snprintf(key, sizeof(key), "C07/respond/garbled/%s/padding", pkname[p->kind]);
			vf_violation(key, "peer %d: the %zu padding bytes of the response to seq %llu are damaged at offset %zu", p->idx, pad, (unsigned long long) seq, i);
			return false;
		}
	}
	uint32_t widx = get32(body + len - 8);
	if ((tag >> 16) != p->cc->nonce || (int) (tag & 0xff) != p->idx) {
		snprintf(key, sizeof(key), "C07/respond/wrong-connection/%s", pkname[p->kind]);
		vf_violation(key, "connection %d received the response (by worker %u) to connection %u's survey seq %llu", p->idx, widx, tag & 0xff, (unsigned long long) seq);
		return false;
	}
	if (seq == 0 || seq >= p->nrecs || p->recs[seq].state == R_NONE) {
		snprintf(key, sizeof(key), "C07/respond/unsolicited/%s/never-sent", pkname[p->kind]);
		vf_violation(key, "connection %d received a response for seq %llu which it never sent", p->idx, (unsigned long long) seq);
		return false;
	}
	svrec *rc = &p->recs[seq];
	if (rc->state == R_DROP) {
		snprintf(key, sizeof(key), "C07/respond/unsolicited/%s/replaced-survey", pkname[p->kind]);
		vf_violation(key, "connection %d received a response (by worker %u) for seq %llu, a survey the application received and then replaced by a later one", p->idx, widx, (unsigned long long) seq);
		return false;
	}
	if (rc->state == R_CANCELLED) {
		snprintf(key, sizeof(key), "C07/respond/unsolicited/%s/superseded-reply", pkname[p->kind]);
		vf_violation(key, "connection %d received the response (by worker %u) for seq %llu although the send of that response had ended with NNG_ECANCELED (the context had sent its next reply meanwhile)", p->idx, widx, (unsigned long long) seq);
		return false;
	}
	if (rc->state == R_ANSWERED) {
		snprintf(key, sizeof(key), "C07/respond/duplicate/%s", pkname[p->kind]);
		vf_violation(key, "connection %d received a second response (by worker %u) for seq %llu", p->idx, widx, (unsigned long long) seq);
		return false;
	}
	rc->state = R_ANSWERED;
	if (nbt != rc->nwords || memcmp(bt, rc->words, 4 * (size_t) nbt) != 0) {
		snprintf(key, sizeof(key), "C07/respond/backtrace/%s/%s", pkname[p->kind], nbt != rc->nwords ? "length" : "words");
		vf_violation(key, "connection %d seq %llu: survey went out with a %d-word backtrace ending in id %08x, the response (worker %u) came back with %d words ending in %08x", p->idx, (unsigned long long) seq, rc->nwords, rc->words[rc->nwords - 1], widx, nbt, nbt > 0 ? bt[nbt - 1] : 0);
		return true;
	}
	p->verified++;
	if (pad) p->big_verified++;
	if (widx < MAXWORK) p->seen_worker[widx] = true;
	return true;
}

// receive one response; 0 answered, 1 judged-bad, -1 nothing arrived
static int
peer_recv(peer *p, int timeout_ms)
{
	uint32_t bt[MAXWORDS + 1];
	int      nbt = 0;
	char     key[96];
	if (p->kind == PK_TCP) {
		// wait for the first byte only; a frame that has begun is read in
		// full however long that takes
		uint8_t      *buf = p->rbuf;
		struct pollfd pf = { p->fd, POLLIN, 0 };
		if (poll(&pf, 1, timeout_ms) <= 0) return -1;
		long len = vf_sp_recv_frame(p->fd, false, buf, RBUF_CAP, LONG_MS);
		if (len < 0) return -2; // connection broken
		size_t off = 0;
		bool   end = false;
		while (!end && off + 4 <= (size_t) len && nbt < MAXWORDS) {
			bt[nbt] = get32(buf + off);
			end = (bt[nbt] & 0x80000000u) != 0;
			nbt++;
			off += 4;
		}
		if (!end) {
			snprintf(key, sizeof(key), "C07/respond/backtrace/%s/no-survey-id", pkname[p->kind]);
			vf_violation(key, "connection %d: a %ld-byte response frame has no survey id word in its first %d words", p->idx, len, nbt);
			return 1;
		}
		return peer_judge(p, bt, nbt, buf + off, (size_t) len - off) ? 0 : 1;
	}
	nng_msg *m = NULL;
	nng_socket_set_ms(p->xs, NNG_OPT_RECVTIMEO, timeout_ms);
	if (nng_recvmsg(p->xs, &m, 0) != 0) return -1;
	size_t hl = nng_msg_header_len(m);
	if (hl % 4 != 0 || hl == 0 || hl > 4 * MAXWORDS) {
		snprintf(key, sizeof(key), "C07/respond/backtrace/%s/no-survey-id", pkname[p->kind]);
		vf_violation(key, "connection %d: response with a %zu-byte header", p->idx, hl);
		nng_msg_free(m);
		return 1;
	}
	const uint8_t *h = nng_msg_header(m);
	for (size_t i = 0; i < hl / 4; i++) bt[nbt++] = get32(h + 4 * i);
	bool ok = peer_judge(p, bt, nbt, nng_msg_body(m), nng_msg_len(m));
	nng_msg_free(m);
	return ok ? 0 : 1;
}

// surveys whose reply the RESPONDENT application saw cancelled (superseded by
// the context's next reply) are not outstanding any more
static long
peer_reap_cancelled(peer *p, uint32_t seq)
{
	long n = 0;
	while (p->lo <= seq && p->recs[p->lo].state != R_OUT) p->lo++;
	for (uint32_t q = p->lo; q <= seq; q++) {
		if (p->recs[q].state == R_OUT && atomic_load(&G.wst[p->idx][q]) == 1) {
			p->recs[q].state = R_CANCELLED;
			p->cancelled++;
			n++;
		}
	}
	return n;
}

static void *
peer_thread(void *arg)
{
	peer          *p = arg;
	const casecfg *cc = p->cc;
	uint32_t       seq = 0;
	long           n = p->quota, sent = 0, out = 0, bad = 0, waited = 0;
	long           die_at = cc->dies == p->idx ? n / 4 + (long) vf_below(&p->rng, (uint32_t) (n / 2)) : -1;
	int            nstalls = p->kind == PK_TCP && cc->stalls ? (int) vf_range(&p->rng, 2, 4) : 0;
	long           stall_every = nstalls ? n / (nstalls + 1) : 0, next_stall = stall_every;
	p->lo = 1;
	while (!p->failed && (sent < n || out > 0)) {
		if (die_at >= 0 && sent >= die_at && out > 0) {
			// the surveyor goes away with surveys held by (or queued for) the
			// workers: their responses have nowhere to go - certainly not to
			// another connection.  Some of them are kept by the workers until
			// the RESPONDENT has noticed, and answered then.
			int k = (int) vf_range(&p->rng, 1, 3);
			if (k > cc->nworkers) k = cc->nworkers;
			for (int i = 0; i < k && sent < n; i++) {
				if (peer_send(p, ++seq, false, D_HOLD) < 0) break;
				sent++;
				out++;
				p->held_sent++;
			}
			for (int i = 0; i < 15000 && atomic_load(&G.consumed[p->idx]) < sent; i++) vf_usleep(200);
			p->orphaned = out;
			p->died = true;
			atomic_store(&G.died[p->idx], true);
			close(p->fd);
			break;
		}
		if (nstalls > 0 && sent >= next_stall && sent + 16 < n && (die_at < 0 || sent + 16 < die_at)) {
			// stop reading and ask for more big replies than there are
			// workers: the pipe to this peer stays busy, replies queue up
			// behind it, and a context that gets a second survey of the
			// burst replaces its queued reply
			int burst = (int) vf_range(&p->rng, 2, (uint32_t) (2 * cc->nworkers + 2));
			if (burst > 12) burst = 12;
			nstalls--;
			next_stall += stall_every;
			atomic_fetch_add(&G.stall[p->idx], 1);
			for (int i = 0; i < burst && !p->failed; i++) {
				if (peer_send(p, ++seq, false, D_BIG) < 0) {
					vf_violation("C07/respond/connection-lost", "connection %d (%s): sending survey %u failed", p->idx, pkname[p->kind], seq);
					p->failed = true;
					break;
				}
				sent++;
				out++;
				p->big_surveys++;
			}
			vf_msleep((int) vf_range(&p->rng, 50, 200));
			atomic_fetch_add(&G.stall[p->idx], 1);
			p->stalls++;
			if (out > p->maxwin) p->maxwin = out;
			continue;
		}
		// at most 'window' surveys between this peer and the workers: the raw
		// nng surveyor drops what its 16-deep pipe queue cannot take
		while (sent < n && out < cc->window && !p->failed && sent - atomic_load(&G.consumed[p->idx]) < cc->window) {
			int rv = peer_send(p, ++seq, sent == n - 1, -1);
			sent++;
			if (rv < 0) {
				vf_violation("C07/respond/connection-lost", "connection %d (%s): sending survey %u failed", p->idx, pkname[p->kind], seq);
				p->failed = true;
			} else if (rv == 0) {
				out++;
				if (out > p->maxwin) p->maxwin = out;
			}
		}
		if (p->failed) break;
		out -= peer_reap_cancelled(p, seq);
		if (out <= 0) {
			out = 0;
			if (sent < n) vf_usleep(100); // dropped surveys still on their way
			continue;
		}
		int rv = peer_recv(p, 50);
		if (rv == 0) {
			out--;
			waited = 0;
		} else if (rv == -1 && (waited += 50) < LONG_MS) {
			continue; // look for cancelled replies, then wait on
		} else if (rv < 0) {
			char key[96];
			snprintf(key, sizeof(key), "C07/respond/lost/%s", pkname[p->kind]);
			vf_violation(key, "connection %d: %ld survey(s) were received and answered by RESPONDENT but no response arrived within %d ms", p->idx, out, LONG_MS);
			p->failed = true;
		} else if (++bad > 8) {
			p->failed = true;
		}
	}
	atomic_store(&p->finished, true);
	return NULL;
}

// ------------------------------------------------------------ one case
static void
run_case(long idx, const casecfg *cc)
{
	worker       wk[MAXWORK];
	peer         pr[MAXPEERS];
	nng_listener lt, lx;
	nng_ctx      pc;
	nng_aio     *a1;
	char         url[128];
	int          rv, port = 0;
	vf_rng       r;
	long         probe_idle_ctx = 0, probe_idle_sock = 0;

	vf_case_begin(idx, "peers=%d(%s%s%s%s) cut=%d stalls=%d workers=%d%s ttl=%d window=%d exchanges=%ld xtran=%s jitter=%d/%dus key=%llx", cc->npeers, pkname[cc->kind[0]],
	    cc->npeers > 1 ? pkname[cc->kind[1]] : "", cc->npeers > 2 ? pkname[cc->kind[2]] : "", cc->npeers > 3 ? pkname[cc->kind[3]] : "", cc->dies, (int) cc->stalls, cc->nworkers, cc->use_sock ? "+sock" : "", cc->ttl,
	    cc->window, cc->exchanges, vf_tran_names[cc->tran], cc->jit_permille, cc->jit_us, (unsigned long long) cc->key);
	vf_watchdog(240);
	vf_rng_seed(&r, cc->key, 1);
	atomic_store(&G.stop, false);
	atomic_store(&G.removed, 0);
	for (int i = 0; i < MAXPEERS; i++) {
		atomic_store(&G.consumed[i], 0);
		atomic_store(&G.died[i], false);
		atomic_store(&G.stall[i], 0);
		G.wst[i] = NULL;
		G.wst_n[i] = 0;
	}
	for (int i = 0; i < MAXWORDS; i++) G.common[i] = (uint32_t) vf_rand(&r) & 0x7fffffffu;
	G.common[MAXWORDS - 1] |= 0x80000000u;

	if ((rv = nng_respondent0_open(&G.resp)) != 0) vf_harness_fail("respondent open: %s", nng_strerror(rv));
	nng_socket_set_int(G.resp, NNG_OPT_MAXTTL, cc->ttl);
	nng_socket_set_size(G.resp, NNG_OPT_RECVMAXSZ, 0);
	if ((rv = nng_pipe_notify(G.resp, NNG_PIPE_EV_REM_POST, pipe_removed_cb, NULL)) != 0) vf_harness_fail("pipe notify: %s", nng_strerror(rv));
	if ((rv = nng_listen(G.resp, "tcp://127.0.0.1:0", &lt, 0)) != 0) vf_harness_fail("respondent listen tcp: %s", nng_strerror(rv));
	if ((rv = nng_listener_get_int(lt, NNG_OPT_BOUND_PORT, &port)) != 0) vf_harness_fail("bound port");
	G.tcp_port = (uint16_t) port;
	vf_url(cc->tran, url, sizeof(url));
	if ((rv = nng_listen(G.resp, url, &lx, 0)) != 0) vf_harness_fail("respondent listen %s: %s", url, nng_strerror(rv));
	vf_dial_url(lx, cc->tran, url, G.xurl, sizeof(G.xurl));
	if (nng_ctx_open(&pc, G.resp) != 0) vf_harness_fail("ctx open");
	if (nng_aio_alloc(&a1, NULL, NULL) != 0) vf_harness_fail("aio alloc");

	// connections
	memset(pr, 0, sizeof(pr));
	for (int i = 0; i < cc->npeers; i++) {
		peer *p = &pr[i];
		p->idx = i;
		p->kind = cc->kind[i];
		p->cc = cc;
		p->quota = cc->exchanges / cc->npeers + (i < cc->exchanges % cc->npeers ? 1 : 0);
		p->nrecs = (uint32_t) p->quota + 2;
		p->recs = calloc(p->nrecs, sizeof(svrec));
		G.wst[i] = calloc(p->nrecs, 1);
		G.wst_n[i] = p->nrecs;
		if (p->kind == PK_TCP && (p->rbuf = malloc(RBUF_CAP)) == NULL) vf_harness_fail("malloc");
		vf_rng_seed(&p->rng, cc->key, 200 + (uint64_t) i);
		if (p->kind == PK_TCP) {
			uint16_t peerproto = 0;
			if ((p->fd = vf_tcp_connect(G.tcp_port, 5000)) < 0) vf_harness_fail("raw connect");
			// a small receive buffer: what this peer does not read stays with the RESPONDENT
			int rb = 32768;
			setsockopt(p->fd, SOL_SOCKET, SO_RCVBUF, &rb, sizeof(rb));
			if (vf_sp_handshake(p->fd, 0x62, &peerproto, 5000) != 0 || peerproto != 0x63) vf_harness_fail("raw handshake (peer %04x)", peerproto);
		} else {
			if ((rv = nng_surveyor0_open_raw(&p->xs)) != 0) vf_harness_fail("xsurveyor open");
			nng_socket_set_ms(p->xs, NNG_OPT_RECVTIMEO, LONG_MS);
			nng_socket_set_ms(p->xs, NNG_OPT_SENDTIMEO, LONG_MS);
			nng_socket_set_int(p->xs, NNG_OPT_RECVBUF, 16);
			nng_socket_set_int(p->xs, NNG_OPT_SENDBUF, 16);
			nng_socket_set_int(p->xs, NNG_OPT_MAXTTL, 15);
			nng_socket_set_size(p->xs, NNG_OPT_RECVMAXSZ, 0);
			if ((rv = nng_dial(p->xs, G.xurl, NULL, 0)) != 0) vf_harness_fail("xsurveyor dial %s: %s", G.xurl, nng_strerror(rv));
		}
	}
	for (int i = 0; vf_pipe_count(G.resp) < cc->npeers; i++) {
		if (i > 5000) vf_harness_fail("RESPONDENT has %d of %d pipes", vf_pipe_count(G.resp), cc->npeers);
		vf_msleep(1);
	}

	vf_pt_jitter(cc->key, cc->jit_permille, cc->jit_us);
	memset(wk, 0, sizeof(wk));
	for (int i = 0; i < cc->nworkers; i++) {
		worker *w = &wk[i];
		w->idx = i;
		w->cc = cc;
		w->is_sock = cc->use_sock && i == 0;
		if (!w->is_sock && nng_ctx_open(&w->ctx, G.resp) != 0) vf_harness_fail("ctx open");
		if (pthread_create(&w->thr, NULL, worker_thread, w) != 0) vf_harness_fail("pthread_create");
	}
	for (int i = 0; i < cc->npeers; i++) {
		if (pthread_create(&pr[i].thr, NULL, peer_thread, &pr[i]) != 0) vf_harness_fail("pthread_create");
	}
	// while surveys and responses flow: a context that never receives, and
	// the socket itself if no worker uses it, have nothing to respond to
	{
		worker pw = { .idx = 99, .is_sock = false, .ctx = pc };
		for (int it = 0; it < 400000; it++) {
			bool all = true;
			for (int i = 0; i < cc->npeers; i++) all = all && atomic_load(&pr[i].finished);
			pw.is_sock = false;
			if (expect_estate_send(&pw, a1, "context-that-never-received")) probe_idle_ctx++;
			if (!cc->use_sock) {
				pw.is_sock = true;
				if (expect_estate_send(&pw, a1, "socket-that-never-received")) probe_idle_sock++;
			}
			if (all) break;
			vf_usleep(300);
		}
	}
	for (int i = 0; i < cc->npeers; i++) pthread_join(pr[i].thr, NULL);
	// nothing more may arrive on any connection (a misrouted response or a
	// response to a replaced survey would)
	vf_msleep(2);
	for (int i = 0; i < cc->npeers; i++) {
		peer *p = &pr[i];
		if (p->failed || p->died) continue;
		int rvx = peer_recv(p, 3);
		if (rvx == 0) {
			char key[96];
			snprintf(key, sizeof(key), "C07/respond/unsolicited/%s/extra-frame", pkname[p->kind]);
			vf_violation(key, "connection %d: an extra response arrived after every survey was answered", p->idx);
		}
	}
	vf_pt_off();
	atomic_store(&G.stop, true);
	for (int i = 0; i < cc->nworkers; i++) pthread_join(wk[i].thr, NULL);

	// evidence
	long verified = 0, sent = 0, drops = 0, served = 0, wdrops = 0, common = 0, replaced = 0, stalls = 0, bigs = 0, bigv = 0, cancelled = 0, held = 0;
	for (int i = 0; i < cc->npeers; i++) {
		peer *p = &pr[i];
		verified += p->verified;
		sent += p->sent;
		drops += p->drops;
		common += p->common_used;
		stalls += p->stalls;
		bigs += p->big_surveys;
		bigv += p->big_verified;
		cancelled += p->cancelled;
		held += p->held_sent;
		for (int h = 0; h < MAXWORDS; h++) {
			if (p->by_hops[h]) vf_class("respond/%s/hops=%d/window=%d/%s", pkname[p->kind], h, cc->window > 1 ? (cc->window > 4 ? 8 : 4) : 1, cc->use_sock ? "sock+ctx" : "ctx");
		}
		for (int w = 0; w < MAXWORK; w++) {
			if (p->seen_worker[w]) vf_class("respond/%s/served-by-%s/peers=%d", pkname[p->kind], (w == 0 && cc->use_sock) ? "socket" : "context", cc->npeers);
		}
		if (p->died) {
			vf_stat("respondent_connections_cut_mid_window", 1);
			vf_stat("respondent_surveys_orphaned_by_cut", p->orphaned);
			vf_class("respond/connection-cut/peers=%d/%s", cc->npeers, cc->use_sock ? "sock+ctx" : "ctx");
		} else if (p->kind == PK_TCP) {
			close(p->fd);
		} else {
			nng_socket_close(p->xs);
		}
		free(p->recs);
		free(p->rbuf);
		free((void *) G.wst[i]);
		G.wst[i] = NULL;
	}
	for (int i = 0; i < cc->nworkers; i++) {
		worker *w = &wk[i];
		served += w->served;
		wdrops += w->dropped;
		replaced += w->replaced_other_peer;
		vf_stat("estate_respondent_send_fresh", w->estate_fresh);
		vf_stat("estate_respondent_send_after_response", w->estate_second);
		vf_stat("estate_respondent_send_after_orphan_reply", w->estate_orphan);
		vf_stat("estate_respondent_send_after_response_not_yet_sent", w->estate_parked);
		vf_stat("respondent_surveys_held_until_connection_gone", w->held_gone);
		vf_stat("respondent_surveys_held", w->held);
		vf_stat("respondent_replies_pending_across_next_receive", w->pending_across_recv);
		vf_stat("respondent_replies_parked_behind_busy_pipe", w->parked + w->superseded); // a superseded reply was waiting for its pipe
		vf_stat("respondent_replies_parked_then_sent", w->parked);
		vf_stat("respondent_replies_superseded_while_parked", w->superseded);
		vf_stat("respondent_big_replies_sent", w->big_sent);
		if (w->parked) vf_class("respond/reply-parked-behind-busy-pipe/%s/workers=%d", w->is_sock ? "socket" : "context", cc->nworkers);
		if (w->superseded) vf_class("respond/parked-reply-superseded/%s/workers=%d", w->is_sock ? "socket" : "context", cc->nworkers);
		if (w->estate_orphan) vf_class("respond/send-after-reply-to-gone-surveyor/%s", w->is_sock ? "socket" : "context");
		if (!w->is_sock) nng_ctx_close(w->ctx);
	}
	vf_stat("respondent_surveys", sent);
	vf_stat("respondent_responses_verified", verified);
	vf_stat("respondent_responses_sent", served);
	vf_stat("respondent_replaced_surveys", drops);
	vf_stat("respondent_replaced_seen_by_workers", wdrops);
	vf_stat("respondent_replaced_by_other_connection", replaced);
	vf_stat("respondent_shared_backtrace_surveys", common);
	vf_stat("respondent_surveyor_stalls", stalls);
	vf_stat("respondent_big_reply_surveys", bigs);
	vf_stat("respondent_big_replies_verified", bigv);
	vf_stat("respondent_replies_cancelled_seen_by_surveyor", cancelled);
	vf_stat("respondent_hold_surveys_sent", held);
	vf_stat("estate_respondent_send_idle_ctx", probe_idle_ctx);
	vf_stat("estate_respondent_send_idle_sock", probe_idle_sock);
	vf_stat("respondent_connections", cc->npeers);
	vf_stat("respondent_cases", 1);
	if ((idx & 7) == 0) {
		vf_sample("{\"side\":\"respondent\",\"connections\":%d,\"workers\":%d,\"socket_as_worker\":%d,\"ttl\":%d,\"window\":%d,\"surveys\":%ld,\"verified\":%ld,\"replaced\":%ld,\"replaced_by_other_connection\":%ld,\"shared_backtrace\":%ld}",
		    cc->npeers, cc->nworkers, cc->use_sock, cc->ttl, cc->window, sent, verified, drops, replaced, common);
	}
	nng_aio_free(a1);
	nng_ctx_close(pc);
	nng_socket_close(G.resp);
	vf_nng_fini("C07");
	vf_nng_init(4, 2, 2);
}

int
main(int argc, char **argv)
{
	vf_init(argc, argv);
	vf_nng_init(4, 2, 2);
	bool thorough = vf_tier == 1;
	for (long idx = 0; idx < vf_cases; idx++) {
		if (!vf_want_case(idx)) continue;
		vf_rng  r;
		casecfg c;
		vf_rng_seed(&r, vf_seed, (uint64_t) idx);
		memset(&c, 0, sizeof(c));
		c.key = vf_rand(&r);
		c.nonce = (uint32_t) (vf_rand(&r) & 0xffff);
		c.tran = vf_chance(&r, 1, 2) ? VF_T_INPROC : VF_T_TCP;
		c.npeers = (int) vf_range(&r, 2, MAXPEERS);
		for (int i = 0; i < MAXPEERS; i++) c.kind[i] = vf_chance(&r, 1, 2) ? PK_TCP : PK_XSURV;
		c.nworkers = (int) vf_range(&r, 1, MAXWORK);
		c.use_sock = vf_chance(&r, 1, 2);
		// one raw TCP surveyor (if there is one) is cut with surveys in the
		// workers' hands
		c.dies = -1;
		{
			int d = (int) vf_below(&r, (uint32_t) c.npeers);
			for (int i = 0; i < c.npeers && c.dies < 0; i++) {
				if (c.kind[(d + i) % c.npeers] == PK_TCP) c.dies = (d + i) % c.npeers;
			}
		}
		c.stalls = !vf_chance(&r, 1, 4);
		uint32_t k = vf_below(&r, 4);
		c.ttl = k == 0 ? 15 : k == 1 ? (int) vf_range(&r, 1, 4) : 8;
		c.window = (int) vf_range(&r, 1, 8);
		c.exchanges = (long) vf_range(&r, 200, thorough ? 5000 : 1200);
		c.jit_permille = (int) vf_range(&r, 5, 60);
		c.jit_us = (int) vf_range(&r, 20, 300);
		run_case(idx, &c);
	}
	vf_nng_fini("C07");
	return vf_finish();
}
