// C16 (HTTP half): HTTP/1.1 request, response and chunked-body decoding is
// independent of how the byte stream is split, malformed input is refused,
// and what nng emits parses with a strict reference parser.
//
// Modes:
//   chunk   white-box: nni_http_chunks_parse fed the same stream whole and in
//           every 2-way / sampled 3-way / dribble / random split must report
//           the same (error code, bytes consumed, chunk list); a strict
//           reference decoder supplies the expected chunk list for valid
//           streams and the must-reject verdict for size-rule mutants.
//   server  raw TCP client <-> nng_http_server with a handler that echoes
//           what it parsed; every request is replayed under many
//           segmentations of nng's reads (interposer) and of the peer's
//           writes; malformed requests must never reach the handler.
//   client  nng_http_client + nng_http_transact <-> raw TCP server that sends
//           Content-Length and chunked responses under the same
//           segmentations; malformed status lines / headers / chunk sizes
//           must fail the transaction.
#include "vfh.h"

#include <ctype.h>
#include <errno.h>
#include <poll.h>
#include <signal.h>
#include <stdatomic.h>
#include <sys/socket.h>
#include <unistd.h>

#include <nng/http.h>

#include "core/nng_impl.h"
#include "supplemental/http/http_api.h"

// ------------------------------------------------------------ byte buffer
typedef struct {
	uint8_t *p;
	size_t   n, cap;
} bb;

static void
bb_add(bb *b, const void *d, size_t n)
{
	if (b->n + n + 1 > b->cap) {
		b->cap = (b->n + n + 1) * 2 + 64;
		b->p   = realloc(b->p, b->cap);
		if (b->p == NULL) vf_harness_fail("oom");
	}
	if (n) memcpy(b->p + b->n, d, n);
	b->n += n;
	b->p[b->n] = 0;
}
static void
bb_str(bb *b, const char *s)
{
	bb_add(b, s, strlen(s));
}
static void
bb_ch(bb *b, int c)
{
	uint8_t x = (uint8_t) c;
	bb_add(b, &x, 1);
}
static void bb_printf(bb *b, const char *fmt, ...)
    __attribute__((format(printf, 2, 3)));
static void
bb_printf(bb *b, const char *fmt, ...)
{
	char    tmp[1024];
	va_list ap;
	va_start(ap, fmt);
	int n = vsnprintf(tmp, sizeof(tmp), fmt, ap);
	va_end(ap);
	if (n < 0) n = 0;
	if ((size_t) n >= sizeof(tmp)) n = sizeof(tmp) - 1;
	bb_add(b, tmp, (size_t) n);
}
static void
bb_free(bb *b)
{
	free(b->p);
	b->p = NULL;
	b->n = b->cap = 0;
}
static void
bb_reset(bb *b)
{
	b->n = 0;
	if (b->p) b->p[0] = 0;
}

// ================================================================ chunk mode
#define MAXCH 64
typedef struct {
	int      rv;
	size_t   consumed;
	int      nch;
	size_t   size[MAXCH];
	uint32_t crc[MAXCH];
	bool     more_than_max;
} cres;

// feed s[0..len) split at cuts[] (ascending offsets) the way http_rd_buf does:
// unconsumed bytes stay in front of the next window.
static void
chunk_run(const uint8_t *s, size_t len, const size_t *cuts, int ncuts,
    size_t maxsz, cres *out)
{
	nni_http_chunks *cl;
	size_t           consumed = 0;
	int              rv       = NNG_EAGAIN;
	bool             called   = false;
	memset(out, 0, sizeof(*out));
	if (nni_http_chunks_init(&cl, maxsz) != 0) vf_harness_fail("chunks_init");
	for (int i = 0; i <= ncuts; i++) {
		size_t end = i < ncuts ? cuts[i] : len;
		if (end > len) end = len;
		if (end < consumed) continue;
		size_t wl = end - consumed;
		if (wl == 0 && (i < ncuts || called)) continue;
		uint8_t *w = malloc(wl ? wl : 1);
		memcpy(w, s + consumed, wl);
		size_t n = (size_t) -1;
		rv       = nni_http_chunks_parse(cl, w, wl, &n);
		called   = true;
		free(w);
		if (n > wl) {
			vf_violation("C16/chunk-consumed/beyond-input",
			    "nni_http_chunks_parse reports %zu bytes consumed of a %zu byte window", n, wl);
			n = wl;
		}
		consumed += n;
		if (rv != NNG_EAGAIN) break;
	}
	out->rv       = rv;
	out->consumed = consumed;
	nni_http_chunk *ch = NULL;
	while ((ch = nni_http_chunks_iter(cl, ch)) != NULL) {
		if (out->nch >= MAXCH) {
			out->more_than_max = true;
			break;
		}
		out->size[out->nch] = nni_http_chunk_size(ch);
		out->crc[out->nch]  = 0;
		out->nch++;
	}
	// data of complete chunks only: all when rv==0, all but the last else
	int ncomplete = rv == 0 ? out->nch : out->nch - 1;
	int i         = 0;
	ch            = NULL;
	while ((ch = nni_http_chunks_iter(cl, ch)) != NULL && i < ncomplete) {
		out->crc[i] = vf_crc32(nni_http_chunk_data(ch), nni_http_chunk_size(ch));
		i++;
	}
	if (rv == 0) {
		size_t tot = 0;
		for (i = 0; i < out->nch; i++) tot += out->size[i];
		if (tot != nni_http_chunks_size(cl)) {
			vf_violation("C16/chunk-total/size-sum",
			    "nni_http_chunks_size=%zu but the chunks add up to %zu", nni_http_chunks_size(cl), tot);
		}
	}
	nni_http_chunks_free(cl);
}

static bool
cres_same(const cres *a, const cres *b, char *why, size_t wsz)
{
	if (a->rv != b->rv) {
		snprintf(why, wsz, "error code %d (%s) vs %d (%s)", a->rv, nng_strerror(a->rv), b->rv, nng_strerror(b->rv));
		return false;
	}
	if (a->consumed != b->consumed) {
		snprintf(why, wsz, "consumed %zu vs %zu", a->consumed, b->consumed);
		return false;
	}
	if (a->nch != b->nch) {
		snprintf(why, wsz, "%d chunks vs %d", a->nch, b->nch);
		return false;
	}
	for (int i = 0; i < a->nch; i++) {
		if (a->size[i] != b->size[i]) {
			snprintf(why, wsz, "chunk %d size %zu vs %zu", i, a->size[i], b->size[i]);
			return false;
		}
		if (a->crc[i] != b->crc[i]) {
			snprintf(why, wsz, "chunk %d data differs", i);
			return false;
		}
	}
	return true;
}

// strict reference decoder.  verdicts
enum { REF_OK = 0, REF_MORE, REF_REJECT };
enum {
	RJ_NONE = 0,
	RJ_EMPTY_SIZE,
	RJ_NONHEX,
	RJ_OVERFLOW,
	RJ_TOOBIG,
	RJ_DATA_TERM,
	RJ_CRLF,
	RJ_EXTCHAR,
	RJ_TRAILER,
};
static const char *rj_names[] = { "none", "empty-size", "non-hex-size", "size-overflow", "above-max", "data-not-followed-by-crlf", "bad-crlf", "ext-char", "trailer-char" };

typedef struct {
	int      verdict, reason;
	size_t   consumed;
	int      nch;
	size_t   size[MAXCH];
	uint32_t crc[MAXCH];
} cref;

static int
hexval(int c)
{
	if (c >= '0' && c <= '9') return c - '0';
	if (c >= 'a' && c <= 'f') return c - 'a' + 10;
	if (c >= 'A' && c <= 'F') return c - 'A' + 10;
	return -1;
}

static void
chunk_ref(const uint8_t *s, size_t len, size_t maxsz, cref *r)
{
	size_t pos = 0, total = 0;
	memset(r, 0, sizeof(*r));
#define RJ(x) do { r->verdict = REF_REJECT; r->reason = (x); return; } while (0)
#define MORE() do { r->verdict = REF_MORE; return; } while (0)
	for (;;) {
		size_t val = 0;
		int    nd  = 0;
		while (pos < len && hexval(s[pos]) >= 0) {
			size_t d = (size_t) hexval(s[pos]);
			if (val > (SIZE_MAX - d) / 16) RJ(RJ_OVERFLOW);
			val = val * 16 + d;
			nd++;
			pos++;
		}
		if (pos >= len) MORE();
		if (nd == 0) {
			if (s[pos] == '\r' || s[pos] == ';' || s[pos] == '\n') RJ(RJ_EMPTY_SIZE);
			RJ(RJ_NONHEX);
		}
		if (s[pos] == ';') {
			pos++;
			while (pos < len && s[pos] != '\r') {
				if (s[pos] < 0x20 || s[pos] > 0x7e) RJ(RJ_EXTCHAR);
				pos++;
			}
			if (pos >= len) MORE();
		} else if (s[pos] != '\r') {
			RJ(RJ_NONHEX);
		}
		pos++; // CR
		if (pos >= len) MORE();
		if (s[pos] != '\n') RJ(RJ_CRLF);
		pos++;
		if (val == 0) {
			// trailer section
			for (;;) {
				size_t ll = 0;
				while (pos < len && s[pos] != '\r') {
					if (s[pos] < 0x20 || s[pos] > 0x7e) RJ(RJ_TRAILER);
					pos++;
					ll++;
				}
				if (pos >= len) MORE();
				pos++;
				if (pos >= len) MORE();
				if (s[pos] != '\n') RJ(RJ_CRLF);
				pos++;
				if (ll == 0) {
					r->verdict  = REF_OK;
					r->consumed = pos;
					return;
				}
			}
		}
		if (val > SIZE_MAX - 2 || val > SIZE_MAX - total) RJ(RJ_TOOBIG);
		if (maxsz > 0 && (total > maxsz || val > maxsz - total)) RJ(RJ_TOOBIG);
		if (len - pos < val || len - pos - val < 2) MORE();
		if (s[pos + val] != '\r' || s[pos + val + 1] != '\n') RJ(RJ_DATA_TERM);
		if (r->nch < MAXCH) {
			r->size[r->nch] = val;
			r->crc[r->nch]  = vf_crc32(s + pos, val);
			r->nch++;
		}
		total += val;
		pos += val + 2;
	}
#undef RJ
#undef MORE
}

static const size_t chunk_sizes[] = { 1, 1, 2, 3, 7, 9, 10, 15, 16, 17, 31, 32, 33, 100, 255, 256, 257, 1000, 4095, 4096, 4097 };
#define NCHUNK_SIZES ((int) (sizeof(chunk_sizes) / sizeof(chunk_sizes[0])))

static void
gen_printable(vf_rng *r, bb *b, int n, const char *exclude)
{
	for (int i = 0; i < n; i++) {
		int c;
		do {
			c = (int) vf_range(r, 0x21, 0x7e);
		} while (strchr(exclude, c) != NULL);
		bb_ch(b, c);
	}
}

// write a chunk-size line for 'val' with formatting variations; records the
// offset of the first size digit
static void
gen_size_line(vf_rng *r, bb *b, size_t val, bool allow_ext)
{
	char dig[40];
	int  z = vf_chance(r, 1, 4) ? (int) vf_range(r, 1, 3) : 0;
	while (z--) bb_ch(b, '0');
	snprintf(dig, sizeof(dig), vf_chance(r, 1, 2) ? "%zx" : "%zX", val);
	if (vf_chance(r, 1, 4)) {
		for (char *p = dig; *p; p++) *p = vf_chance(r, 1, 2) ? (char) toupper((unsigned char) *p) : (char) tolower((unsigned char) *p);
	}
	bb_str(b, dig);
	if (allow_ext && vf_chance(r, 1, 3)) {
		int ne = (int) vf_range(r, 1, 2);
		for (int i = 0; i < ne; i++) {
			bb_ch(b, ';');
			gen_printable(r, b, (int) vf_range(r, 0, 6), ";=\"");
			if (vf_chance(r, 1, 2)) {
				bb_ch(b, '=');
				gen_printable(r, b, (int) vf_range(r, 0, 8), ";\"");
			}
		}
	}
	bb_str(b, "\r\n");
}

#define MAXMARK 256
typedef struct {
	size_t off[MAXMARK];
	int    n;
} marks;
static void
mark(marks *m, size_t o)
{
	if (m->n < MAXMARK) m->off[m->n++] = o;
}

// valid chunked body.  sizeline_off[i] = offset of the i-th size line
static void
gen_chunked(vf_rng *r, bb *b, marks *m, bool big, size_t *sizeline_off, size_t *datalen, int *nchunks)
{
	int k = (int) vf_below(r, 6);
	*nchunks = k;
	for (int i = 0; i < k; i++) {
		size_t sz = chunk_sizes[vf_below(r, (uint32_t) (big ? NCHUNK_SIZES : 12))];
		if (big && vf_chance(r, 1, 40)) sz = vf_range(r, 60000, 70000);
		if (vf_chance(r, 1, 4)) sz = vf_range(r, 1, 40);
		mark(m, b->n);
		sizeline_off[i] = b->n;
		datalen[i]      = sz;
		gen_size_line(r, b, sz, true);
		mark(m, b->n);
		size_t at = b->n;
		bb_add(b, NULL, 0);
		for (size_t j = 0; j < sz; j++) {
			// bias toward bytes that look like framing
			static const char hot[] = "\r\n0;aF";
			bb_ch(b, vf_chance(r, 1, 5) ? hot[vf_below(r, 6)] : (int) vf_below(r, 256));
		}
		(void) at;
		mark(m, b->n);
		bb_str(b, "\r\n");
	}
	mark(m, b->n);
	sizeline_off[k] = b->n;
	gen_size_line(r, b, 0, true);
	mark(m, b->n);
	int nt = vf_chance(r, 1, 3) ? (int) vf_range(r, 1, 3) : 0;
	for (int i = 0; i < nt; i++) {
		gen_printable(r, b, (int) vf_range(r, 1, 8), ":");
		bb_str(b, ": ");
		gen_printable(r, b, (int) vf_range(r, 0, 12), "");
		bb_str(b, "\r\n");
		mark(m, b->n);
	}
	bb_str(b, "\r\n");
	mark(m, b->n);
}

static void
bb_splice(bb *b, size_t at, size_t del, const void *ins, size_t inslen)
{
	bb out = { 0 };
	bb_add(&out, b->p, at);
	bb_add(&out, ins, inslen);
	bb_add(&out, b->p + at + del, b->n - at - del);
	bb_free(b);
	*b = out;
}

static size_t
line_len(const bb *b, size_t at) // bytes up to (not including) CR
{
	size_t e = at;
	while (e < b->n && b->p[e] != '\r' && b->p[e] != ';') e++;
	return e - at;
}

static long chunk_splits;

static void
chunk_compare(const char *kind, const uint8_t *s, size_t len, size_t maxsz,
    const cres *whole, const size_t *cuts, int ncuts, const char *plan)
{
	cres sp;
	char why[160];
	chunk_run(s, len, cuts, ncuts, maxsz, &sp);
	chunk_splits++;
	if (!cres_same(whole, &sp, why, sizeof(why))) {
		vf_violation("C16/chunk-split-differs", "%s stream of %zu bytes (max %zu): whole vs %s split (first cut %zu): %s",
		    kind, len, maxsz, plan, ncuts ? cuts[0] : 0, why);
	}
}

static void
chunk_case(long idx)
{
	vf_rng r;
	bb     b = { 0 };
	marks  m = { .n = 0 };
	size_t sl[8], dl[8];
	int    nch   = 0;
	size_t maxsz = 0;
	int    must  = RJ_NONE; // rule mutant: must be rejected
	const char *kind = "valid";
	vf_rng_seed(&r, vf_seed, (uint64_t) idx);
	int  what = (int) vf_below(&r, 10);
	bool big  = vf_chance(&r, 1, 6);
	gen_chunked(&r, &b, &m, big, sl, dl, &nch);
	size_t total = 0;
	for (int i = 0; i < nch; i++) total += dl[i];
	// (a stream of its own for the later additions: the cases above stay what they were)
	vf_rng r2;
	vf_rng_seed(&r2, vf_seed ^ 0xC16C0DEC5ULL, (uint64_t) idx);
	if (vf_chance(&r2, 1, 12)) what = 10;

	if (what == 10) {
		// line terminator rules: a CR that is not followed by LF (size line,
		// last line of the trailer section), a size line that ends in a bare LF
		int    which = (int) vf_below(&r2, (uint32_t) (nch + 1));
		size_t at    = sl[which];
		size_t cr    = at;
		while (cr < b.n && b.p[cr] != '\r') cr++;
		if (cr + 1 >= b.n) vf_harness_fail("chunk generator: size line without CRLF idx=%ld", idx);
		maxsz = 1 << 20;
		int v = (int) vf_below(&r2, 4);
		if (v == 2 && b.p[at + line_len(&b, at)] != '\r') v = 0; // (an extension would swallow the LF as a bad extension character)
		switch (v) {
		case 0: {
			static const char repl[] = "X\r0 \t;a";
			kind          = "size-cr-no-lf";
			must          = RJ_CRLF;
			b.p[cr + 1]   = (uint8_t) repl[vf_below(&r2, (uint32_t) sizeof(repl) - 1)];
			break;
		}
		case 1:
			kind = "size-cr-cr-lf";
			must = RJ_CRLF;
			bb_splice(&b, cr, 0, "\r", 1);
			break;
		case 2:
			kind = "size-lf-only";
			must = RJ_NONHEX;
			bb_splice(&b, cr, 1, "", 0);
			break;
		default: {
			static const char repl[] = "X\r0 :a";
			kind          = "trailer-cr-no-lf";
			must          = RJ_CRLF;
			b.p[b.n - 1]  = (uint8_t) repl[vf_below(&r2, (uint32_t) sizeof(repl) - 1)];
			break;
		}
		}
	} else if (what <= 3) {
		// valid, possibly with a limit that fits and trailing bytes
		if (vf_chance(&r, 1, 2)) maxsz = total + vf_below(&r, 3) + (total == 0 ? 1 : 0);
		if (vf_chance(&r, 1, 3)) {
			kind = "valid+tail";
			int nx = (int) vf_range(&r, 1, 9);
			for (int i = 0; i < nx; i++) bb_ch(&b, vf_chance(&r, 1, 2) ? "HTTP/1.1 200\r\n"[vf_below(&r, 14)] : (int) vf_below(&r, 256));
		}
	} else if (what <= 6) {
		// exactly one size-rule violation
		int    which = (int) vf_below(&r, (uint32_t) (nch + 1));
		size_t at    = sl[which];
		size_t ll    = line_len(&b, at);
		maxsz        = 1 << 20;
		switch (vf_below(&r, nch > 0 ? 6 : 4)) {
		case 0:
			kind = "empty-size";
			must = RJ_EMPTY_SIZE;
			bb_splice(&b, at, ll, "", 0);
			break;
		case 1: {
			static const char *bad[] = { "g", "x", " ", "-", "+", "0x", "G", "z", "@", "`", "/", ":" };
			const char *ins = bad[vf_below(&r, 12)];
			size_t      p   = vf_below(&r, (uint32_t) ll + 1);
			kind            = "non-hex-size";
			must            = RJ_NONHEX;
			// "0x" etc. placed at the very front of a line whose first
			// character stays a hex digit would still be non-hex later on
			bb_splice(&b, at + p, 0, ins, strlen(ins));
			break;
		}
		case 2: {
			static const char *ovf[] = { "10000000000000000", "FFFFFFFFFFFFFFFFF", "fffffffffffffffff0", "123456789abcdef01", "100000000000000000000" };
			const char *ins = ovf[vf_below(&r, 5)];
			kind            = "size-overflow";
			must            = RJ_OVERFLOW;
			bb_splice(&b, at, ll, ins, strlen(ins));
			break;
		}
		case 3: {
			// a size the limit cannot hold (data need not follow)
			char   tmp[40];
			size_t v = vf_chance(&r, 1, 2) ? (size_t) (maxsz + 1 + vf_below(&r, 5)) : (vf_chance(&r, 1, 2) ? SIZE_MAX - vf_below(&r, 3) : ((size_t) 1 << vf_range(&r, 21, 62)));
			snprintf(tmp, sizeof(tmp), "%zx", v);
			kind = "above-max";
			must = RJ_TOOBIG;
			bb_splice(&b, at, ll, tmp, strlen(tmp));
			break;
		}
		case 4:
			// total above max through the limit: shrink max
			if (total >= 2) {
				kind  = "above-max-total";
				must  = RJ_TOOBIG;
				maxsz = vf_range(&r, 1, (uint32_t) total - 1);
			}
			break;
		default: {
			// declared size differs from the data that follows
			if (which >= nch) which = nch - 1;
			char   tmp[40];
			size_t real = dl[which];
			size_t v    = vf_chance(&r, 1, 2) ? real + vf_range(&r, 1, 3) : (real > 1 ? real - 1 : real + 1);
			at          = sl[which];
			ll          = line_len(&b, at);
			snprintf(tmp, sizeof(tmp), "%zx", v);
			kind = "wrong-size";
			must = -1; // reference decides (data may by chance still line up)
			bb_splice(&b, at, ll, tmp, strlen(tmp));
			break;
		}
		}
	} else {
		// random byte mutations: only the differential and the reference's
		// accept verdict are judged
		kind  = "mutated";
		maxsz = 1 << 20;
		int nm = (int) vf_range(&r, 1, 3);
		for (int i = 0; i < nm && b.n > 0; i++) {
			size_t at = vf_chance(&r, 2, 3) && m.n > 0 ? m.off[vf_below(&r, (uint32_t) m.n)] : vf_below(&r, (uint32_t) b.n);
			if (at > 0 && vf_chance(&r, 1, 2)) at -= vf_below(&r, 3) > at ? 0 : vf_below(&r, 3);
			if (at >= b.n) at = b.n - 1;
			uint8_t c = vf_chance(&r, 1, 2) ? (uint8_t) "\r\n;0 f\t=:"[vf_below(&r, 10)] : (uint8_t) vf_below(&r, 256);
			switch (vf_below(&r, 4)) {
			case 0: b.p[at] = c; break;
			case 1: bb_splice(&b, at, 0, &c, 1); break;
			case 2: bb_splice(&b, at, 1, "", 0); break;
			default: b.n = at; break; // truncate
			}
		}
	}

	vf_case_begin(idx, "chunk %s len=%zu max=%zu", kind, b.n, maxsz);
	size_t   len = b.n;
	uint8_t *s   = malloc(len ? len : 1);
	memcpy(s, b.p, len);

	cres whole;
	cref ref;
	chunk_run(s, len, NULL, 0, maxsz, &whole);
	chunk_ref(s, len, maxsz, &ref);

	if (whole.rv == 0 && maxsz > 0) {
		size_t tot = 0;
		for (int i = 0; i < whole.nch; i++) tot += whole.size[i];
		if (tot > maxsz) {
			vf_violation("C16/chunk-rule/above-max", "%s stream: accepted %zu body bytes with limit %zu", kind, tot, maxsz);
		}
	}
	if (ref.verdict == REF_OK) {
		bool same = whole.rv == 0 && whole.consumed == ref.consumed && whole.nch == ref.nch;
		for (int i = 0; same && i < ref.nch; i++) same = whole.size[i] == ref.size[i] && whole.crc[i] == ref.crc[i];
		if (!same) {
			vf_violation("C16/chunk-reference/valid-stream", "%s stream of %zu bytes (max %zu): reference decodes %d chunks, %zu bytes consumed; nng rv=%d (%s) %d chunks consumed=%zu",
			    kind, len, maxsz, ref.nch, ref.consumed, whole.rv, nng_strerror(whole.rv), whole.nch, whole.consumed);
		} else {
			vf_stat("chunk_valid_equal", 1);
		}
	} else if (ref.verdict == REF_REJECT && ref.reason >= RJ_EMPTY_SIZE && ref.reason <= RJ_CRLF) {
		// (RJ_CRLF: the line that carries the chunk size, or the one that ends
		// the body, has a CR that is not followed by LF)
		if (whole.rv == 0 || whole.rv == NNG_EAGAIN) {
			vf_violation("C16/chunk-rule/accepted", "%s stream (%s) of %zu bytes: reference rejects, nng returned %d (%s) after %zu bytes",
			    kind, rj_names[ref.reason], len, whole.rv, nng_strerror(whole.rv), whole.consumed);
			// distinct key per rule
			char key[96];
			snprintf(key, sizeof(key), "C16/chunk-rule/%s", rj_names[ref.reason]);
			vf_violation(key, "%s accepted", rj_names[ref.reason]);
		} else {
			vf_stat("chunk_rule_rejected", 1);
		}
	}
	if (must > 0 && ref.verdict != REF_REJECT) {
		// generator and reference disagree: harness bug
		vf_harness_fail("chunk generator: %s mutant not rejected by the reference (verdict %d) idx=%ld", kind, ref.verdict, idx);
	}
	if (what == 10) {
		if (ref.reason < RJ_EMPTY_SIZE || ref.reason > RJ_CRLF) vf_harness_fail("chunk generator: %s mutant: reference reason %s idx=%ld", kind, rj_names[ref.reason], idx);
		vf_stat("chunk_crlf_rule_cases", 1);
	}
	vf_class("chunk/%s/ref=%s/%s/rv=%d", kind, ref.verdict == REF_OK ? "ok" : ref.verdict == REF_MORE ? "more" : "reject", rj_names[ref.reason], whole.rv);

	// --- splits
	size_t cuts[3];
	if (len >= 2) {
		if (len <= 600) {
			for (size_t k = 1; k < len; k++) {
				cuts[0] = k;
				chunk_compare(kind, s, len, maxsz, &whole, cuts, 1, "2-way");
			}
			vf_stat("chunk_exhaustive_2way", 1);
		} else {
			for (int i = 0; i < m.n; i++) {
				for (int d = -2; d <= 2; d++) {
					long k = (long) m.off[i] + d;
					if (k < 1 || (size_t) k >= len) continue;
					cuts[0] = (size_t) k;
					chunk_compare(kind, s, len, maxsz, &whole, cuts, 1, "2-way@boundary");
				}
			}
			for (int i = 0; i < 64; i++) {
				cuts[0] = vf_range(&r, 1, (uint32_t) len - 1);
				chunk_compare(kind, s, len, maxsz, &whole, cuts, 1, "2-way");
			}
		}
		int n3 = len <= 40 ? 0 : 48;
		if (len >= 3 && len <= 40) {
			for (size_t a = 1; a < len; a++)
				for (size_t c = a + 1; c < len; c++) {
					cuts[0] = a;
					cuts[1] = c;
					chunk_compare(kind, s, len, maxsz, &whole, cuts, 2, "3-way");
				}
			vf_stat("chunk_exhaustive_3way", 1);
		}
		for (int i = 0; i < n3 && len >= 3; i++) {
			size_t a = vf_range(&r, 1, (uint32_t) len - 2);
			size_t c = vf_chance(&r, 1, 2) ? a + 1 + vf_below(&r, 4) : vf_range(&r, (uint32_t) a + 1, (uint32_t) len - 1);
			if (c >= len) c = len - 1;
			if (c <= a) continue;
			cuts[0] = a;
			cuts[1] = c;
			chunk_compare(kind, s, len, maxsz, &whole, cuts, 2, "3-way");
		}
		// dribble and random chunking
		if (len <= 3000) {
			size_t *dc = malloc(sizeof(size_t) * len);
			for (size_t k = 1; k < len; k++) dc[k - 1] = k;
			chunk_compare(kind, s, len, maxsz, &whole, dc, (int) len - 1, "1-byte dribble");
			free(dc);
		}
		for (int p = 0; p < 3; p++) {
			size_t  *rc = malloc(sizeof(size_t) * (len + 1));
			int      n  = 0;
			size_t   at = 0;
			uint32_t mx = p == 0 ? 3 : p == 1 ? 17 : 700;
			while ((at += vf_range(&r, 1, mx)) < len) rc[n++] = at;
			chunk_compare(kind, s, len, maxsz, &whole, rc, n, "random");
			free(rc);
		}
	}
	if ((idx % 997) == 0) {
		char hex[200];
		size_t hn = len < 48 ? len : 48;
		for (size_t i = 0; i < hn; i++) snprintf(hex + 2 * i, 3, "%02x", s[i]);
		vf_sample("{\"mode\":\"chunk\",\"kind\":\"%s\",\"len\":%zu,\"max\":%zu,\"rv\":%d,\"consumed\":%zu,\"chunks\":%d,\"head_hex\":\"%s\"}", kind, len, maxsz, whole.rv, whole.consumed, whole.nch, hex);
	}
	vf_stat("cases", 1);
	vf_stat("chunk_streams", 1);
	free(s);
	bb_free(&b);
}

static void
chunk_selftest(void)
{
	static const char ok[] = "5;x=y\r\nhello\r\n06\r\n world\r\n0\r\nT: v\r\n\r\nXX";
	cref r;
	chunk_ref((const uint8_t *) ok, sizeof(ok) - 1, 0, &r);
	if (r.verdict != REF_OK || r.nch != 2 || r.size[0] != 5 || r.size[1] != 6 || r.consumed != sizeof(ok) - 3) vf_harness_fail("chunk reference self-test (valid)");
	chunk_ref((const uint8_t *) "\r\nabc", 5, 0, &r);
	if (r.verdict != REF_REJECT || r.reason != RJ_EMPTY_SIZE) vf_harness_fail("chunk reference self-test (empty)");
	chunk_ref((const uint8_t *) "5\r\nhelloXX", 10, 0, &r);
	if (r.verdict != REF_REJECT || r.reason != RJ_DATA_TERM) vf_harness_fail("chunk reference self-test (term)");
	chunk_ref((const uint8_t *) "5\r\nhel", 6, 0, &r);
	if (r.verdict != REF_MORE) vf_harness_fail("chunk reference self-test (more)");
	static const char crx[] = "5\rXhello\r\n0\r\n\r\n", endx[] = "1\r\nx\r\n0\r\n\rX", lfo[] = "5\nhello\r\n0\r\n\r\n";
	chunk_ref((const uint8_t *) crx, sizeof(crx) - 1, 0, &r);
	if (r.verdict != REF_REJECT || r.reason != RJ_CRLF) vf_harness_fail("chunk reference self-test (CR without LF in a size line)");
	chunk_ref((const uint8_t *) endx, sizeof(endx) - 1, 0, &r);
	if (r.verdict != REF_REJECT || r.reason != RJ_CRLF) vf_harness_fail("chunk reference self-test (CR without LF at the end)");
	chunk_ref((const uint8_t *) lfo, sizeof(lfo) - 1, 0, &r);
	if (r.verdict != REF_REJECT || r.reason != RJ_NONHEX) vf_harness_fail("chunk reference self-test (bare LF)");
}

static void
chunk_main(void)
{
	chunk_selftest();
	for (long i = 0; i < vf_cases; i++) {
		if (!vf_want_case(i)) continue;
		chunk_case(i);
		if ((i & 255) == 0) vf_watchdog(120);
	}
	vf_stat("chunk_splits", chunk_splits);
}

// ============================================================ raw peer I/O
typedef struct {
	int    fd;
	bb     in;  // everything read so far
	size_t pos; // parse position
	bool   eof;
} rpeer;

// read more bytes; 1 = got some, 0 = EOF/reset, -1 = timeout
static int
rp_fill(rpeer *p, int timeout_ms)
{
	struct pollfd pfd = { p->fd, POLLIN, 0 };
	uint8_t       tmp[65536];
	if (p->eof) return 0;
	for (;;) {
		int r = poll(&pfd, 1, timeout_ms);
		if (r < 0 && errno == EINTR) continue;
		if (r <= 0) return -1;
		break;
	}
	ssize_t n = read(p->fd, tmp, sizeof(tmp));
	if (n <= 0) {
		p->eof = true;
		return 0;
	}
	bb_add(&p->in, tmp, (size_t) n);
	return 1;
}

static void
rp_close(rpeer *p)
{
	if (p->fd >= 0) {
		// abortive close: thousands of short connections must not pile up
		// in TIME_WAIT on a machine shared with other checks
		struct linger lg = { 1, 0 };
		setsockopt(p->fd, SOL_SOCKET, SO_LINGER, &lg, sizeof(lg));
		close(p->fd);
	}
	p->fd = -1;
	bb_free(&p->in);
	p->pos = 0;
	p->eof = false;
}

// --------------------------------------------- strict HTTP message head parser
#define MAXH 40
#define MAXLINES 1200 // header lines of one echoed / decoded message (big-head cases)
typedef struct {
	bool   is_req;
	char   method[64], target[2048], version[16];
	int    status;
	char   reason[256];
	int    nh;
	char   hn[MAXH][64];
	char   hv[MAXH][600];
	long   clen; // -1 none
	bool   chunked;
	size_t head_len;
	char   err[160];
} hmsg;

static bool
is_tchar(int c)
{
	return isalnum(c) || (c != 0 && strchr("!#$%&'*+-.^_`|~", c) != NULL);
}

// returns 1 complete head parsed, 0 need more bytes, -1 malformed (m->err)
static int
parse_head(const uint8_t *b, size_t len, bool is_req, hmsg *m)
{
	size_t pos = 0;
	int    lineno = 0;
	memset(m, 0, sizeof(*m));
	m->is_req = is_req;
	m->clen   = -1;
#define BAD(...) do { snprintf(m->err, sizeof(m->err), __VA_ARGS__); return -1; } while (0)
	for (;;) {
		size_t e = pos;
		while (e < len && b[e] != '\r' && b[e] != '\n') {
			if (b[e] < 0x20 && b[e] != '\t') BAD("control byte 0x%02x in line %d", b[e], lineno);
			if (b[e] == 0x7f) BAD("DEL in line %d", lineno);
			e++;
		}
		if (e >= len) return 0;
		if (b[e] == '\n') BAD("bare LF ends line %d", lineno);
		if (e + 1 >= len) return 0;
		if (b[e + 1] != '\n') BAD("CR not followed by LF in line %d", lineno);
		size_t      ll = e - pos;
		const char *l  = (const char *) b + pos;
		pos            = e + 2;
		if (lineno == 0) {
			if (ll == 0) BAD("empty start line");
			if (is_req) {
				size_t i = 0, j;
				while (i < ll && is_tchar((unsigned char) l[i])) i++;
				if (i == 0 || i >= sizeof(m->method) || i >= ll || l[i] != ' ') BAD("request line: bad method");
				memcpy(m->method, l, i);
				j = ++i;
				while (i < ll && (unsigned char) l[i] > 0x20 && l[i] != 0x7f) i++;
				if (i == j || i - j >= sizeof(m->target) || i >= ll || l[i] != ' ') BAD("request line: bad target");
				memcpy(m->target, l + j, i - j);
				i++;
				if (ll - i != 8 || memcmp(l + i, "HTTP/1.", 7) != 0 || !isdigit((unsigned char) l[i + 7])) BAD("request line: bad version '%.*s'", (int) (ll - i), l + i);
				memcpy(m->version, l + i, 8);
			} else {
				if (ll < 12 || memcmp(l, "HTTP/", 5) != 0 || !isdigit((unsigned char) l[5]) || l[6] != '.' || !isdigit((unsigned char) l[7]) || l[8] != ' ') BAD("status line: bad version '%.*s'", (int) (ll < 10 ? ll : 10), l);
				memcpy(m->version, l, 8);
				if (!isdigit((unsigned char) l[9]) || !isdigit((unsigned char) l[10]) || !isdigit((unsigned char) l[11])) BAD("status line: status code not 3 digits");
				m->status = (l[9] - '0') * 100 + (l[10] - '0') * 10 + (l[11] - '0');
				if (ll == 12) BAD("status line: no SP after the status code");
				if (l[12] != ' ') BAD("status line: junk after the status code");
				snprintf(m->reason, sizeof(m->reason), "%.*s", (int) (ll - 13), l + 13);
			}
		} else if (ll == 0) {
			m->head_len = pos;
			return 1;
		} else {
			size_t i = 0;
			while (i < ll && is_tchar((unsigned char) l[i])) i++;
			if (i == 0) BAD("header line %d: empty or invalid field name", lineno);
			if (i >= ll || l[i] != ':') BAD("header line %d: field name not followed by ':'", lineno);
			if (m->nh >= MAXH) BAD("too many headers");
			snprintf(m->hn[m->nh], sizeof(m->hn[0]), "%.*s", (int) i, l);
			size_t vs = i + 1, ve = ll;
			while (vs < ve && (l[vs] == ' ' || l[vs] == '\t')) vs++;
			while (ve > vs && (l[ve - 1] == ' ' || l[ve - 1] == '\t')) ve--;
			snprintf(m->hv[m->nh], sizeof(m->hv[0]), "%.*s", (int) (ve - vs), l + vs);
			if (strcasecmp(m->hn[m->nh], "Content-Length") == 0) {
				const char *v = m->hv[m->nh];
				if (*v == 0) BAD("empty Content-Length");
				for (const char *q = v; *q; q++)
					if (!isdigit((unsigned char) *q)) BAD("Content-Length '%s' is not a number", v);
				long c = atol(v);
				if (m->clen >= 0 && m->clen != c) BAD("conflicting Content-Length");
				m->clen = c;
			}
			if (strcasecmp(m->hn[m->nh], "Transfer-Encoding") == 0 && strstr(m->hv[m->nh], "chunked")) m->chunked = true;
			m->nh++;
		}
		lineno++;
	}
#undef BAD
}

static const char *
hmsg_get(const hmsg *m, const char *name)
{
	for (int i = 0; i < m->nh; i++)
		if (strcasecmp(m->hn[i], name) == 0) return m->hv[i];
	return NULL;
}

// read one complete response from the peer (strictly parsed).  Returns 1 and
// the [start,end) range in p->in, 0 on EOF before any byte of it, -1 timeout,
// -2 malformed (violation reported by the caller using m->err), -3 EOF inside.
static int
rp_read_response(rpeer *p, bool head_req, hmsg *m, size_t *start, size_t *end, int timeout_ms)
{
	*start = p->pos;
	for (;;) {
		int r = parse_head(p->in.p + p->pos, p->in.n - p->pos, false, m);
		if (r < 0) return -2;
		if (r == 1) {
			size_t body = 0;
			bool   nobody = head_req || m->status / 100 == 1 || m->status == 204 || m->status == 304;
			if (!nobody) {
				if (m->clen < 0) {
					snprintf(m->err, sizeof(m->err), "response %d without Content-Length", m->status);
					return -2;
				}
				body = (size_t) m->clen;
			}
			if (p->in.n - p->pos >= m->head_len + body) {
				p->pos += m->head_len + body;
				*end = p->pos;
				return 1;
			}
		}
		int f = rp_fill(p, timeout_ms);
		if (f == 0) return p->in.n == *start ? 0 : -3;
		if (f < 0) return -1;
	}
}

// =============================================================== server mode
static atomic_long handler_calls;

static void
echo_handler(nng_http *conn, void *arg, nng_aio *aio)
{
	bb          out = { 0 };
	const char *k, *v;
	void       *it = NULL;
	void       *body;
	size_t      blen;
	(void) arg;
	atomic_fetch_add(&handler_calls, 1);
	bb_printf(&out, "M %s\nU ", nng_http_get_method(conn));
	bb_str(&out, nng_http_get_uri(conn));
	bb_str(&out, "\n");
	while (nng_http_next_header(conn, &k, &v, &it)) {
		bb_str(&out, "H ");
		bb_str(&out, k);
		bb_str(&out, ": ");
		bb_str(&out, v);
		bb_str(&out, "\n");
	}
	nng_http_get_body(conn, &body, &blen);
	bb_printf(&out, "B %zu\n", blen);
	if (blen) bb_add(&out, body, blen);
	nng_http_set_status(conn, NNG_HTTP_STATUS_OK, NULL);
	nng_http_set_header(conn, "X-Echo", "1");
	if (nng_http_copy_body(conn, out.p, out.n) != 0) {
		bb_free(&out);
		nng_aio_finish(aio, NNG_ENOMEM);
		return;
	}
	bb_free(&out);
	nng_aio_finish(aio, 0);
}

static nng_http_server *srv;
static int              srv_port;

static void
server_up(void)
{
	nng_url          *url;
	nng_http_handler *h;
	int               rv;
	if ((rv = nng_url_parse(&url, "http://127.0.0.1:0")) != 0) vf_harness_fail("url: %s", nng_strerror(rv));
	// (a kernel short of ephemeral ports can hand out one that cannot be
	// listened on; that is the machine's state, not nng's: retry)
	for (int attempt = 0;; attempt++) {
		if ((rv = nng_http_server_hold(&srv, url)) != 0) vf_harness_fail("server_hold: %s", nng_strerror(rv));
		if ((rv = nng_http_handler_alloc(&h, "/", echo_handler)) != 0) vf_harness_fail("handler_alloc");
		nng_http_handler_set_method(h, NULL);
		nng_http_handler_set_tree(h);
		nng_http_handler_collect_body(h, true, 1 << 20);
		if ((rv = nng_http_server_add_handler(srv, h)) != 0) vf_harness_fail("add_handler: %s", nng_strerror(rv));
		// same echo below /nobody, but the request body is left to the server
		// to discard (read-discard path, resumed across reads like any other)
		if ((rv = nng_http_handler_alloc(&h, "/nobody", echo_handler)) != 0) vf_harness_fail("handler_alloc");
		nng_http_handler_set_method(h, NULL);
		nng_http_handler_set_tree(h);
		nng_http_handler_collect_body(h, false, 0);
		if ((rv = nng_http_server_add_handler(srv, h)) != 0) vf_harness_fail("add_handler: %s", nng_strerror(rv));
		if ((rv = nng_http_server_start(srv)) == 0) break;
		nng_http_server_release(srv);
		if (rv != NNG_EADDRINUSE || attempt >= 100) vf_harness_fail("server_start: %s", nng_strerror(rv));
		vf_msleep(100);
	}
	if ((rv = nng_http_server_get_port(srv, &srv_port)) != 0 || srv_port == 0) vf_harness_fail("get_port: %s", nng_strerror(rv));
	nng_url_free(url);
}

static void
server_down(void)
{
	nng_http_server_stop(srv);
	nng_http_server_release(srv);
	srv = NULL;
}

typedef struct {
	bb   wire;
	bb   expect; // canonical echo (empty when not modelled)
	bool modelled;
	bool closing; // server will close after the response
	bool head;
	bool discard; // body goes to the handler that does not collect it
	bool big;     // head of 8-20 KB made of short lines (more than nng's 8160-byte HTTP buffer)
	char desc[96];
	marks m;
} hreq;

static int
cmp_str(const void *a, const void *b)
{
	return strcmp(*(char *const *) a, *(char *const *) b);
}

// canonical form of an echo body: header lines sorted
static bool
canon_echo(const uint8_t *b, size_t len, bb *out)
{
	static char *lines[MAXLINES];
	int    nl  = 0;
	size_t pos = 0;
	int    stage = 0;
	bb_reset(out);
	while (pos < len) {
		size_t e = pos;
		while (e < len && b[e] != '\n') e++;
		if (e >= len) return false;
		if (b[pos] == 'H' && stage == 2) {
			if (nl >= MAXLINES) return false;
			lines[nl] = strndup((const char *) b + pos, e - pos);
			nl++;
		} else if (b[pos] == 'B' && stage == 2) {
			qsort(lines, (size_t) nl, sizeof(char *), cmp_str);
			for (int i = 0; i < nl; i++) {
				bb_str(out, lines[i]);
				bb_ch(out, '\n');
				free(lines[i]);
			}
			bb_add(out, b + pos, len - pos);
			return true;
		} else if (stage < 2 && b[pos] == "MU"[stage]) {
			bb_add(out, b + pos, e - pos + 1);
			stage++;
		} else {
			break;
		}
		pos = e + 1;
	}
	for (int i = 0; i < nl; i++) free(lines[i]);
	return false;
}

static const char *hdr_names[] = { "X-A", "x-a", "X-Bee", "Accept", "X-Long-Header-Name-0123456789", "User-Agent", "X-C", "x-bee", "Cookie", "X-A" };

static void
gen_value(vf_rng *r, char *out, size_t max)
{
	size_t n = vf_chance(r, 1, 12) ? vf_range(r, 100, 300) : vf_below(r, 30);
	if (n >= max) n = max - 1;
	for (size_t i = 0; i < n; i++) {
		int c = vf_chance(r, 1, 7) ? ' ' : (int) vf_range(r, 0x21, 0x7e);
		if ((i == 0 || i == n - 1) && c == ' ') c = 'v';
		out[i] = (char) c;
	}
	out[n] = 0;
}

static void
gen_request(vf_rng *r, hreq *q)
{
	static const char *methods[] = { "GET", "GET", "POST", "PUT", "DELETE", "OPTIONS", "FROB", "PATCH", "HEAD" };
	char        mn[MAXH][64], mv[MAXH][2400];
	int         nm = 0;
	const char *method = methods[vf_below(r, 9)];
	char        uri[400];
	bool        plain = true;
	int         minor = vf_chance(r, 1, 25) ? 0 : 1;
	bool        conn_close = vf_chance(r, 1, 25);
	bb          body = { 0 };
	memset(q, 0, sizeof(*q));
	q->head = strcmp(method, "HEAD") == 0;

	// target
	size_t un = 0;
	int    nseg = (int) vf_below(r, 5);
	if (vf_chance(r, 1, 20)) nseg = 30;
	uri[un++] = '/';
	for (int s = 0; s < nseg && un < 330; s++) {
		int sl = (int) vf_range(r, 1, 9);
		for (int i = 0; i < sl; i++) {
			static const char cs[] = "abcdefghijklmnopqrstuvwxyzABCXYZ0123456789_~-.";
			int c = cs[vf_below(r, (uint32_t) (i == 0 ? 44 : 46))];
			uri[un++] = (char) c;
		}
		if (s + 1 < nseg) uri[un++] = '/';
	}
	if (vf_chance(r, 1, 3)) {
		uri[un++] = '?';
		int nq = (int) vf_range(r, 1, 3);
		for (int i = 0; i < nq; i++) {
			if (i) uri[un++] = '&';
			un += (size_t) snprintf(uri + un, sizeof(uri) - un, "k%u=v%u", vf_below(r, 100), vf_below(r, 1000));
		}
	}
	uri[un] = 0;
	if (vf_chance(r, 1, 8)) {
		// escapes and dot segments: judged only by the differential
		static const char *odd[] = { "/%41%62c", "/a%2fb", "/a//b", "/a/./b", "/a/../b", "/%7Euser/%e2%82%ac", "/x%3Fy?z=%20" };
		snprintf(uri, sizeof(uri), "%s", odd[vf_below(r, 7)]);
		plain = false;
	}

	// body
	bool has_body = !q->head && (strcmp(method, "POST") == 0 || strcmp(method, "PUT") == 0 || strcmp(method, "FROB") == 0 || strcmp(method, "PATCH") == 0) && vf_chance(r, 5, 6);
	if (has_body) {
		size_t bl = vf_chance(r, 1, 10) ? vf_range(r, 1000, 9000) : vf_below(r, 120);
		for (size_t i = 0; i < bl; i++) bb_ch(&body, vf_chance(r, 1, 6) ? "\r\n: GET"[vf_below(r, 7)] : (int) vf_below(r, 256));
	}

	bool discard = has_body && plain && vf_chance(r, 1, 4);
	if (discard) {
		char tmp[420];
		snprintf(tmp, sizeof(tmp), "/nobody%.380s", strcmp(uri, "/") == 0 ? "" : uri);
		snprintf(uri, sizeof(uri), "%.390s", tmp);
	}
	bb_printf(&q->wire, "%s %s HTTP/1.%d\r\n", method, uri, minor);
	mark(&q->m, q->wire.n);

	// header list in wire order
	int  nh = (int) vf_below(r, 6);
	int  host_at = (int) vf_below(r, (uint32_t) nh + 1);
	int  ct_at = vf_chance(r, 1, 3) ? (int) vf_below(r, (uint32_t) nh + 1) : -1;
	int  cl_at = has_body ? (int) vf_below(r, (uint32_t) nh + 1) : -1;
	int  cc_at = conn_close ? (int) vf_below(r, (uint32_t) nh + 1) : -1;
	for (int i = 0; i <= nh; i++) {
		char name[64], val[700];
		for (int special = 0; special < 5; special++) {
			name[0] = 0;
			if (special == 0 && i == host_at) {
				snprintf(name, sizeof(name), "%s", vf_chance(r, 1, 4) ? "host" : "Host");
				snprintf(val, sizeof(val), vf_chance(r, 1, 2) ? "127.0.0.1:%d" : "example-%d.test", srv_port);
			} else if (special == 1 && i == ct_at) {
				snprintf(name, sizeof(name), "%s", vf_chance(r, 1, 3) ? "content-type" : "Content-Type");
				snprintf(val, sizeof(val), "%s", vf_chance(r, 1, 2) ? "application/octet-stream" : "text/plain; charset=utf-8");
			} else if (special == 2 && i == cl_at) {
				snprintf(name, sizeof(name), "%s", vf_chance(r, 1, 3) ? "CONTENT-LENGTH" : "Content-Length");
				snprintf(val, sizeof(val), "%zu", body.n);
			} else if (special == 3 && i == cc_at) {
				snprintf(name, sizeof(name), "Connection");
				snprintf(val, sizeof(val), "close");
			} else if (special == 4 && i < nh) {
				snprintf(name, sizeof(name), "%s", hdr_names[vf_below(r, 10)]);
				gen_value(r, val, 320);
			}
			if (name[0] == 0) continue;
			// wire
			bb_str(&q->wire, name);
			bb_ch(&q->wire, ':');
			for (int k = (int) vf_below(r, 3); k > 0; k--) bb_ch(&q->wire, ' ');
			bb_str(&q->wire, val);
			for (int k = vf_chance(r, 1, 4) ? (int) vf_range(r, 1, 2) : 0; k > 0; k--) bb_ch(&q->wire, ' ');
			bb_str(&q->wire, "\r\n");
			mark(&q->m, q->wire.n);
			// model
			const char *canon = strcasecmp(name, "Host") == 0 ? "Host" : strcasecmp(name, "Content-Type") == 0 ? "Content-Type" : strcasecmp(name, "Content-Length") == 0 ? "Content-Length" : NULL;
			int         at = -1;
			for (int k = 0; k < nm; k++)
				if (strcasecmp(mn[k], name) == 0) at = k;
			if (at >= 0 && canon == NULL) {
				size_t l = strlen(mv[at]);
				snprintf(mv[at] + l, sizeof(mv[0]) - l, ", %s", val);
			} else if (nm < MAXH) {
				snprintf(mn[nm], sizeof(mn[0]), "%s", canon ? canon : name);
				snprintf(mv[nm], sizeof(mv[0]), "%s", val);
				nm++;
			}
		}
	}
	bb_str(&q->wire, "\r\n");
	mark(&q->m, q->wire.n);
	bb_add(&q->wire, body.p, body.n);

	q->closing  = minor == 0 || conn_close;
	q->modelled = plain && !q->head;
	snprintf(q->desc, sizeof(q->desc), "%s%s%s%s%s len=%zu", method, plain ? "" : "+odd-uri", minor == 0 ? "+http1.0" : "", conn_close ? "+close" : "", discard ? "+body-discarded" : "", q->wire.n);
	q->discard = discard;
	if (q->modelled) {
		char *lines[MAXH];
		bb_printf(&q->expect, "M %s\nU ", method);
		bb_str(&q->expect, uri);
		bb_str(&q->expect, "\n");
		for (int k = 0; k < nm; k++) {
			size_t l = strlen(mn[k]) + strlen(mv[k]) + 8;
			lines[k] = malloc(l);
			snprintf(lines[k], l, "H %s: %s", mn[k], mv[k]);
		}
		qsort(lines, (size_t) nm, sizeof(char *), cmp_str);
		for (int k = 0; k < nm; k++) {
			bb_str(&q->expect, lines[k]);
			bb_ch(&q->expect, '\n');
			free(lines[k]);
		}
		bb_printf(&q->expect, "B %zu\n", discard ? (size_t) 0 : body.n);
		if (!discard) bb_add(&q->expect, body.p, body.n);
	}
	bb_free(&body);
}

// nng's HTTP connection buffer (http_conn.c HTTP_BUFSIZE): heads larger than
// this are parsed in several buffer fills with consumed lines pulled up
#define NNG_HTTP_BUF 8160

// many short, uniquely named header lines until the head reaches 'target'
// bytes; 'exp' gets the sorted "H name: value" lines of the model
static void
gen_many_headers(vf_rng *r, bb *wire, size_t target, bb *exp)
{
	static char *lines[MAXLINES];
	int          nl = 0;
	for (int i = 0; wire->n < target && nl < MAXLINES - 8; i++) {
		char name[40], val[80];
		snprintf(name, sizeof(name), "X-B%d-%u", i, vf_below(r, 100000));
		size_t vl = vf_below(r, 60);
		for (size_t k = 0; k < vl; k++) {
			int c = vf_chance(r, 1, 8) ? ' ' : (int) vf_range(r, 0x21, 0x7e);
			if ((k == 0 || k == vl - 1) && c == ' ') c = 'w';
			val[k] = (char) c;
		}
		val[vl] = 0;
		bb_printf(wire, "%s:%s%s\r\n", name, vf_chance(r, 1, 2) ? " " : "", val);
		size_t l = strlen(name) + vl + 8;
		lines[nl] = malloc(l);
		snprintf(lines[nl], l, "H %s: %s", name, val);
		nl++;
	}
	qsort(lines, (size_t) nl, sizeof(char *), cmp_str);
	for (int i = 0; i < nl; i++) {
		bb_str(exp, lines[i]);
		bb_ch(exp, '\n');
		free(lines[i]);
	}
}

static void
gen_big_request(vf_rng *r, hreq *q)
{
	bb     hl = { 0 };
	size_t target = vf_chance(r, 1, 3) ? vf_range(r, NNG_HTTP_BUF + 1, NNG_HTTP_BUF + 400) : vf_range(r, 8300, 20000);
	bool   post = vf_chance(r, 1, 2);
	size_t bl   = post ? vf_below(r, 80) : 0;
	char   uri[64];
	memset(q, 0, sizeof(*q));
	q->big = q->modelled = true;
	snprintf(uri, sizeof(uri), "/big/%u", vf_below(r, 100000));
	bb_printf(&q->wire, "%s %s HTTP/1.1\r\n", post ? "POST" : "GET", uri);
	// names sort after "Content-Length" / "Host" in neither case reliably: the
	// model text is assembled from sorted lines below
	gen_many_headers(r, &q->wire, target - 60, &hl);
	bb_str(&q->wire, "Host: big.test\r\n");
	if (post) bb_printf(&q->wire, "Content-Length: %zu\r\n", bl);
	bb_str(&q->wire, "\r\n");
	size_t head = q->wire.n;
	bb body = { 0 };
	for (size_t i = 0; i < bl; i++) bb_ch(&body, (int) vf_below(r, 256));
	bb_add(&q->wire, body.p, body.n);
	// expected canonical echo: all H lines sorted together
	bb all = { 0 };
	bb_add(&all, hl.p, hl.n);
	bb_str(&all, "H Host: big.test\n");
	if (post) bb_printf(&all, "H Content-Length: %zu\n", bl);
	{
		static char *lines[MAXLINES];
		int          nl = 0;
		char        *save = NULL;
		for (char *ln = strtok_r((char *) all.p, "\n", &save); ln != NULL && nl < MAXLINES; ln = strtok_r(NULL, "\n", &save)) lines[nl++] = ln;
		qsort(lines, (size_t) nl, sizeof(char *), cmp_str);
		bb_printf(&q->expect, "M %s\nU %s\n", post ? "POST" : "GET", uri);
		for (int i = 0; i < nl; i++) {
			bb_str(&q->expect, lines[i]);
			bb_ch(&q->expect, '\n');
		}
	}
	bb_printf(&q->expect, "B %zu\n", bl);
	bb_add(&q->expect, body.p, body.n);
	snprintf(q->desc, sizeof(q->desc), "%s big-head=%zu len=%zu", post ? "POST" : "GET", head, q->wire.n);
	bb_free(&all);
	bb_free(&hl);
	bb_free(&body);
}

// read cuts that matter for a head larger than the buffer: around multiples
// of the buffer size and at the line ends next to them
static int
big_cuts(const bb *w, size_t *out, int max)
{
	int n = 0;
	for (size_t base = NNG_HTTP_BUF; base < w->n + 2 && n + 12 < max; base += NNG_HTTP_BUF) {
		for (int d = -2; d <= 2; d++) out[n++] = base + (size_t) d;
		size_t e = base < w->n ? base : w->n - 1;
		while (e > 0 && w->p[e] != '\n') e--; // line end before the boundary
		out[n++] = e;
		out[n++] = e + 1;
		e = base;
		while (e < w->n && w->p[e] != '\n') e++; // and after it
		out[n++] = e;
		out[n++] = e + 1;
	}
	return n;
}

static rpeer sp = { .fd = -1 };

static void
sp_connect(void)
{
	rp_close(&sp);
	sp.fd = vf_tcp_connect((uint16_t) srv_port, 5000);
	if (sp.fd < 0) vf_harness_fail("raw client cannot connect to the nng http server");
}

enum { SEG_WHOLE = 0, SEG_CUT, SEG_DRIBBLE, SEG_RANDOM, SEG_PACED, SEG_WDRIBBLE, SEG_WRANDOM, SEG_WCUT, SEG_PIECES };

// send one request under a segmentation, read the response.  Returns 1 with
// response range, <=0 as rp_read_response
static int
server_exchange(hreq *q, int seg, size_t a, size_t b2, uint64_t key, hmsg *m, size_t *rs, size_t *re)
{
	if (sp.fd < 0 || sp.eof || q->closing) sp_connect();
	// drop consumed input to keep the buffer small
	if (sp.pos == sp.in.n) {
		sp.pos = 0;
		bb_reset(&sp.in);
	}
	switch (seg) {
	case SEG_CUT: vf_io_plan(VF_IO_FULL, 0, VF_IO_CUT_ONCE, (long) a, key); break;
	case SEG_DRIBBLE: vf_io_plan(VF_IO_FULL, 0, VF_IO_DRIBBLE, (long) a, key); break;
	case SEG_RANDOM: vf_io_plan(VF_IO_FULL, 0, VF_IO_RANDOM, (long) a, key); break;
	// nng's own writes shortened (its response / its request)
	case SEG_WDRIBBLE: vf_io_plan(VF_IO_DRIBBLE, (long) a, VF_IO_FULL, 0, key); break;
	case SEG_WRANDOM: vf_io_plan(VF_IO_RANDOM, (long) a, VF_IO_FULL, 0, key); break;
	case SEG_WCUT: vf_io_plan(VF_IO_CUT_ONCE, (long) a, VF_IO_FULL, 0, key); break;
	default: vf_io_plan(VF_IO_FULL, 0, VF_IO_FULL, 0, key); break;
	}
	int wr;
	if (seg == SEG_PACED) {
		size_t c1 = a, c2 = b2 > a ? b2 : a;
		wr = vf_fd_write_all(sp.fd, q->wire.p, c1, 5000);
		vf_quiesce(1, 2000);
		if (wr == 0 && c2 > c1) {
			wr = vf_fd_write_all(sp.fd, q->wire.p + c1, c2 - c1, 5000);
			vf_quiesce(1, 2000);
		}
		if (wr == 0) wr = vf_fd_write_all(sp.fd, q->wire.p + c2, q->wire.n - c2, 5000);
	} else if (seg == SEG_PIECES) {
		// the peer writes pieces of 'a' bytes and lets nng consume each
		wr = 0;
		for (size_t o = 0; o < q->wire.n && wr == 0; o += a) {
			wr = vf_fd_write_all(sp.fd, q->wire.p + o, q->wire.n - o < a ? q->wire.n - o : a, 5000);
			if (o + a < q->wire.n) vf_quiesce(1, 2000);
		}
	} else {
		wr = vf_fd_write_all(sp.fd, q->wire.p, q->wire.n, 5000);
	}
	(void) wr; // a failed write shows up as EOF on the read side
	uint64_t t0 = vf_now_ns();
	int      rv = rp_read_response(&sp, q->head, m, rs, re, 100000);
	if (vf_now_ns() - t0 > 10000000000ULL) vf_stat("http_slow_exchanges", 1);
	vf_io_plan(VF_IO_FULL, 0, VF_IO_FULL, 0, 0);
	if (q->closing && sp.fd >= 0) {
		// the server closes after this response; the buffer stays valid
		close(sp.fd);
		sp.fd = -1;
	}
	return rv;
}

static long srv_exchanges;

static bool
server_check(hreq *q, const char *plan, int rv, hmsg *m, size_t rs, size_t re, bb *baseline)
{
	if (rv == -2) {
		vf_violation("C16/http-emit/response-malformed", "request {%s} plan %s: response does not parse strictly: %s", q->desc, plan, m->err);
		rp_close(&sp);
		return false;
	}
	if (rv != 1) {
		vf_violation("C16/http-server-segmentation/no-response", "request {%s} plan %s: %s instead of a response", q->desc, plan, rv == -1 ? "timeout" : "connection closed");
		rp_close(&sp);
		return false;
	}
	srv_exchanges++;
	if (baseline->n == 0) {
		bb_add(baseline, sp.in.p + rs, re - rs);
		if (m->status != 200) {
			vf_violation("C16/http-server-valid-rejected", "valid request {%s} answered with status %d %s", q->desc, m->status, m->reason);
			return false;
		}
		if (q->modelled) {
			bb got = { 0 };
			bool ok = canon_echo(sp.in.p + rs + m->head_len, re - rs - m->head_len, &got);
			if (!ok || got.n != q->expect.n || memcmp(got.p, q->expect.p, got.n) != 0) {
				size_t o = 0;
				while (ok && o < got.n && o < q->expect.n && got.p[o] == q->expect.p[o]) o++;
				vf_violation("C16/http-server-decode/differs-from-reference", "request {%s}: handler saw something else than was sent (canonical echo differs at offset %zu; got %zu bytes, expected %zu)", q->desc, o, got.n, q->expect.n);
				bb_free(&got);
				return false;
			}
			bb_free(&got);
			vf_stat("http_server_model_equal", 1);
		}
		return true;
	}
	if (re - rs != baseline->n || memcmp(sp.in.p + rs, baseline->p, baseline->n) != 0) {
		vf_violation("C16/http-server-segmentation/response-differs", "request {%s}: response under plan %s differs from the response to the unsplit request (status %d, %zu vs %zu bytes)", q->desc, plan, m->status, re - rs, baseline->n);
		return false;
	}
	return true;
}

static void
server_valid_case(long idx, vf_rng *r)
{
	hreq   q;
	hmsg   m;
	size_t rs, re;
	bb     base = { 0 };
	char   plan[64];
	if (vf_chance(r, 1, 20)) gen_big_request(r, &q); else gen_request(r, &q);
	vf_case_begin(idx, "http server valid {%s}", q.desc);
	uint64_t key = vf_rand(r);
	long     h0  = atomic_load(&handler_calls);
	long     n   = 0;
	int rv = server_exchange(&q, SEG_WHOLE, 0, 0, key, &m, &rs, &re);
	bool ok = server_check(&q, "whole", rv, &m, rs, re, &base);
	n++;
	size_t len = q.wire.n;
	if (ok && len >= 2) {
		if (!q.closing && len <= 300) {
			for (size_t k = 1; k < len && ok; k++) {
				snprintf(plan, sizeof(plan), "read-cut@%zu", k);
				rv = server_exchange(&q, SEG_CUT, k, 0, key, &m, &rs, &re);
				ok = server_check(&q, plan, rv, &m, rs, re, &base);
				n++;
			}
			if (ok) vf_stat("http_server_exhaustive_cut", 1);
		} else {
			int nc = q.closing ? 6 : q.big ? 8 : 40;
			for (int i = 0; i < nc && ok; i++) {
				size_t k = i < q.m.n * 2 && !q.closing ? q.m.off[i / 2] - (size_t) (i & 1) : vf_range(r, 1, (uint32_t) len - 1);
				if (k < 1 || k >= len) continue;
				snprintf(plan, sizeof(plan), "read-cut@%zu", k);
				rv = server_exchange(&q, SEG_CUT, k, 0, key, &m, &rs, &re);
				ok = server_check(&q, plan, rv, &m, rs, re, &base);
				n++;
			}
		}
		if (ok && q.big) {
			size_t cuts[64];
			int    ncut = big_cuts(&q.wire, cuts, 64);
			for (int i = 0; i < ncut && ok; i++) {
				if (cuts[i] < 1 || cuts[i] >= len) continue;
				snprintf(plan, sizeof(plan), "read-cut@%zu(buffer-boundary)", cuts[i]);
				rv = server_exchange(&q, SEG_CUT, cuts[i], 0, key, &m, &rs, &re);
				ok = server_check(&q, plan, rv, &m, rs, re, &base);
				n++;
			}
			static const size_t rnd[] = { 600, 4096, 8160, 9000 };
			for (int i = 0; i < 4 && ok; i++) {
				snprintf(plan, sizeof(plan), "read-random%zu", rnd[i]);
				rv = server_exchange(&q, SEG_RANDOM, rnd[i], 0, key + 7 + (uint64_t) i, &m, &rs, &re);
				ok = server_check(&q, plan, rv, &m, rs, re, &base);
				n++;
			}
			static const size_t pcs[] = { 600, 1460, 8160, 8161 };
			for (int i = 0; i < 4 && ok; i++) {
				snprintf(plan, sizeof(plan), "pieces-of-%zu", pcs[i]);
				rv = server_exchange(&q, SEG_PIECES, pcs[i], 0, key, &m, &rs, &re);
				ok = server_check(&q, plan, rv, &m, rs, re, &base);
				n++;
			}
			vf_stat("http_big_head_cases", 1);
			vf_stat("http_server_big_head_cases", 1);
		}
		if (ok && (len <= 1200 || (q.big && len <= 10500))) {
			rv = server_exchange(&q, SEG_DRIBBLE, 1, 0, key, &m, &rs, &re);
			ok = server_check(&q, "read-dribble1", rv, &m, rs, re, &base);
			n++;
		}
		for (int i = 0; i < 2 && ok; i++) {
			long p = i == 0 ? 7 : 64;
			snprintf(plan, sizeof(plan), "read-random%ld", p);
			rv = server_exchange(&q, SEG_RANDOM, (size_t) p, 0, key + (uint64_t) i, &m, &rs, &re);
			ok = server_check(&q, plan, rv, &m, rs, re, &base);
			n++;
		}
		long ss0 = vf_io_short_sends();
		for (int i = 0; i < 3 && ok; i++) {
			size_t a = i == 0 ? vf_range(r, 1, 3) : i == 1 ? vf_range(r, 2, 300) : vf_range(r, 1, (uint32_t) base.n - 1);
			snprintf(plan, sizeof(plan), "%s%zu", i == 0 ? "write-dribble" : i == 1 ? "write-random" : "write-cut@", a);
			rv = server_exchange(&q, i == 0 ? SEG_WDRIBBLE : i == 1 ? SEG_WRANDOM : SEG_WCUT, a, 0, key + (uint64_t) i, &m, &rs, &re);
			ok = server_check(&q, plan, rv, &m, rs, re, &base);
			n++;
		}
		vf_stat("http_server_short_writes", vf_io_short_sends() - ss0);
		int np = q.closing ? 1 : 3;
		for (int i = 0; i < np && ok; i++) {
			size_t a = vf_range(r, 1, (uint32_t) len - 1);
			size_t b = vf_chance(r, 1, 2) ? a : vf_range(r, (uint32_t) a, (uint32_t) len - 1);
			if (i == 0 && q.m.n > 0) a = b = q.m.off[vf_below(r, (uint32_t) q.m.n)] - (vf_chance(r, 1, 2) ? 1 : 0);
			if (a < 1 || a >= len) a = b = 1;
			snprintf(plan, sizeof(plan), "paced-write@%zu,%zu", a, b);
			rv = server_exchange(&q, SEG_PACED, a, b, key, &m, &rs, &re);
			ok = server_check(&q, plan, rv, &m, rs, re, &base);
			n++;
			vf_stat("http_server_paced", 1);
		}
	}
	long hc = atomic_load(&handler_calls) - h0;
	if (ok && hc != n) {
		vf_violation("C16/http-server-segmentation/handler-count", "request {%s}: %ld exchanges but %ld handler invocations", q.desc, n, hc);
	}
	vf_stat("http_server_exchanges", n);
	if (q.discard) vf_stat("http_server_body_discarded", n);
	vf_class("http-server/valid/%s%s%s%s/%s", q.head ? "HEAD" : q.discard ? "body-discarded" : "non-HEAD", q.modelled ? "/modelled" : "/differential", q.closing ? "/closing" : "/keepalive", q.big ? "/big-head" : "", len <= 300 ? "exhaustive-cuts" : "sampled-cuts");
	if ((idx % 61) == 0) vf_sample("{\"mode\":\"server\",\"request\":\"%s\",\"exchanges\":%ld,\"baseline_response_bytes\":%zu}", q.desc, n, base.n);
	bb_free(&base);
	bb_free(&q.wire);
	bb_free(&q.expect);
}

typedef struct {
	const char *cls;
	const char *text; // NULL: generated
} badreq;

static const badreq badreqs[] = {
	{ "reqline-no-space", "GET/HTTP/1.1\r\nHost: a\r\n\r\n" },
	{ "reqline-no-version", "GET /\r\nHost: a\r\n\r\n" },
	{ "reqline-no-target", "GET HTTP/1.1\r\nHost: a\r\n\r\n" },
	{ "reqline-extra-token", "GET / extra HTTP/1.1\r\nHost: a\r\n\r\n" },
	{ "reqline-empty-method", " / HTTP/1.1\r\nHost: a\r\n\r\n" },
	{ "reqline-control-byte", "GET /a\x01" "b HTTP/1.1\r\nHost: a\r\n\r\n" },
	{ "reqline-bare-cr", "GET /a\rb HTTP/1.1\r\nHost: a\r\n\r\n" },
	{ "reqline-relative-target", "GET foo HTTP/1.1\r\nHost: a\r\n\r\n" },
	{ "version-0.9", "GET / HTTP/0.9\r\nHost: a\r\n\r\n" },
	{ "version-2.0", "GET / HTTP/2.0\r\nHost: a\r\n\r\n" },
	{ "version-2", "GET / HTTP/2\r\nHost: a\r\n\r\n" },
	{ "version-1.2", "GET / HTTP/1.2\r\nHost: a\r\n\r\n" },
	{ "version-lowercase", "GET / http/1.1\r\nHost: a\r\n\r\n" },
	{ "version-junk", "GET / HTTP/1.1x\r\nHost: a\r\n\r\n" },
	{ "version-missing-minor", "GET / HTTP/1.\r\nHost: a\r\n\r\n" },
	{ "escape-nonhex", "GET /a%zzb HTTP/1.1\r\nHost: a\r\n\r\n" },
	{ "escape-truncated", "GET /a%4 HTTP/1.1\r\nHost: a\r\n\r\n" },
	{ "escape-lone-percent", "GET /% HTTP/1.1\r\nHost: a\r\n\r\n" },
	{ "escape-half-hex", "GET /a%4g HTTP/1.1\r\nHost: a\r\n\r\n" },
	{ "header-no-colon", "GET / HTTP/1.1\r\nHost: a\r\nBadHeaderWithoutColon\r\n\r\n" },
	{ "header-no-colon-first", "GET / HTTP/1.1\r\nNoColonHere\r\nHost: a\r\n\r\n" },
	{ "header-no-colon-last-with-body", "POST / HTTP/1.1\r\nHost: a\r\nContent-Length: 3\r\nnocolon\r\n\r\nabc" },
	{ "header-huge", NULL },
	{ "header-huge-20k", NULL },
	{ "target-huge", NULL },
	{ "header-control-byte", "GET / HTTP/1.1\r\nHost: a\r\nX-A: b\x02" "c\r\n\r\n" },
	// a request body in chunked transfer coding (not supported by the server:
	// error status, and the chunk data - a complete request - is not data)
	{ "te-chunked", NULL },
	{ "te-chunked+content-length", NULL },
	{ "te-gzip-chunked", NULL },
};
#define NBADREQ ((int) (sizeof(badreqs) / sizeof(badreqs[0])))

static void
server_bad_case(long idx, vf_rng *r)
{
	const badreq *b = &badreqs[(idx / 4) % NBADREQ];
	bb            w = { 0 };
	hmsg          m;
	size_t        rs, re;
	if (b->text != NULL) {
		bb_str(&w, b->text);
	} else if (!strncmp(b->cls, "te-", 3)) {
		static const char smuggled[] = "GET /smuggled HTTP/1.1\r\nHost: a\r\n\r\n";
		bool              both = strstr(b->cls, "content-length") != NULL;
		bool              gzip = strstr(b->cls, "gzip") != NULL;
		bb_printf(&w, "POST /te%u HTTP/1.1\r\nHost: a\r\n", vf_below(r, 1000));
		if (both && vf_chance(r, 1, 2)) bb_printf(&w, "Content-Length: %zu\r\n", vf_chance(r, 1, 2) ? (size_t) 0 : sizeof(smuggled) - 1);
		bb_printf(&w, "%s: %s\r\n", vf_chance(r, 1, 3) ? "transfer-encoding" : "Transfer-Encoding", gzip ? "gzip, chunked" : vf_chance(r, 1, 3) ? "Chunked" : "chunked");
		if (both && w.n > 0 && strstr((char *) w.p, "Content-Length") == NULL) bb_printf(&w, "Content-Length: %zu\r\n", vf_chance(r, 1, 2) ? (size_t) 0 : sizeof(smuggled) - 1);
		bb_str(&w, "\r\n");
		bb_printf(&w, "%zx\r\n%s\r\n0\r\n\r\n", sizeof(smuggled) - 1, smuggled);
		vf_stat("http_server_te_requests", 1);
	} else if (!strcmp(b->cls, "target-huge")) {
		bb_str(&w, "GET /");
		for (int i = 0; i < 9000 + (int) vf_below(r, 3000); i++) bb_ch(&w, 'a' + (i % 26));
		bb_str(&w, " HTTP/1.1\r\nHost: a\r\n\r\n");
	} else {
		int n = !strcmp(b->cls, "header-huge") ? 8200 + (int) vf_below(r, 800) : 20000 + (int) vf_below(r, 5000);
		bb_str(&w, "GET / HTTP/1.1\r\nHost: a\r\nX-Big: ");
		for (int i = 0; i < n; i++) bb_ch(&w, 'A' + (i % 26));
		bb_str(&w, "\r\n\r\n");
	}
	vf_case_begin(idx, "http server malformed %s", b->cls);
	// one of: whole / one cut / dribble / paced
	int      seg = (int) vf_below(r, 4);
	size_t   a   = w.n > 1 ? vf_range(r, 1, (uint32_t) w.n - 1) : 1;
	hreq     q;
	memset(&q, 0, sizeof(q));
	q.wire = w;
	snprintf(q.desc, sizeof(q.desc), "malformed:%s", b->cls);
	sp_connect();
	long h0 = atomic_load(&handler_calls);
	int  rv = server_exchange(&q, seg == 0 ? SEG_WHOLE : seg == 1 ? SEG_CUT : seg == 2 ? SEG_DRIBBLE : SEG_PACED, seg == 2 ? 1 + vf_below(r, 3) : a, a, vf_rand(r), &m, &rs, &re);
	char key[128];
	const char *outcome = "closed";
	if (rv == -2) {
		vf_violation("C16/http-emit/response-malformed", "request {%s}: response does not parse strictly: %s", q.desc, m.err);
		outcome = "bad-response";
	} else if (rv == -1) {
		snprintf(key, sizeof(key), "C16/http-malformed-no-verdict/%s", b->cls);
		vf_violation(key, "complete but malformed request (%s): neither an error status nor a closed connection within 100 s", b->cls);
		outcome = "timeout";
	} else if (rv == 1) {
		if (m.status < 400) {
			snprintf(key, sizeof(key), "C16/http-malformed-accepted/%s", b->cls);
			vf_violation(key, "malformed request (%s) answered with status %d %s", b->cls, m.status, m.reason);
		} else {
			vf_stat("http_server_malformed_status", 1);
		}
		outcome = m.status >= 500 ? "5xx" : m.status >= 400 ? "4xx" : "accepted";
	} else {
		vf_stat("http_server_malformed_closed", 1);
	}
	// give a wrongly dispatched handler the chance to show up
	vf_quiesce(1, 1000);
	long hc = atomic_load(&handler_calls) - h0;
	if (hc != 0) {
		snprintf(key, sizeof(key), "C16/http-malformed-handler-invoked/%s", b->cls);
		vf_violation(key, "malformed request (%s): the handler was invoked %ld time(s)", b->cls, hc);
	}
	vf_stat("http_server_malformed", 1);
	vf_class("http-server/malformed/%s/%s", b->cls, outcome);
	rp_close(&sp);
	bb_free(&w);
}

static void
server_main(void)
{
	vf_nng_init(4, 1, 2);
	server_up();
	for (long i = 0; i < vf_cases; i++) {
		if (!vf_want_case(i)) continue;
		vf_rng r;
		vf_rng_seed(&r, vf_seed, (uint64_t) i);
		vf_watchdog(400);
		if (i % 4 == 3) {
			server_bad_case(i, &r);
		} else {
			server_valid_case(i, &r);
		}
		vf_stat("cases", 1);
		if ((i % 200) == 199) {
			rp_close(&sp);
			server_down();
			vf_quiesce(2, 5000); /* nng_fini racing a poller-driven reap is C10's business */ vf_nng_fini("C16");
			vf_nng_init(4, 1, 2);
			server_up();
		}
	}
	rp_close(&sp);
	server_down();
	vf_stat("io_short_recvs", vf_io_short_recvs());
	vf_quiesce(2, 5000); /* nng_fini racing a poller-driven reap is C10's business */ vf_nng_fini("C16");
}

// =============================================================== client mode
static int              cl_lfd = -1;
static uint16_t         cl_port;
static nng_http_client *cl_cli;
static nng_http        *cl_conn;
static nng_aio         *cl_aio;
static rpeer            cp = { .fd = -1 };
static const char      *cl_way = ""; // how the last exchange read the body: key suffix of decode verdicts

static void
client_up(void)
{
	char     u[64];
	nng_url *url;
	cl_port = 0;
	for (int attempt = 0; (cl_lfd = vf_tcp_listen(&cl_port)) < 0; attempt++) {
		if (attempt >= 100) vf_harness_fail("raw server cannot listen");
		cl_port = 0;
		vf_msleep(100);
	}
	snprintf(u, sizeof(u), "http://127.0.0.1:%u", cl_port);
	if (nng_url_parse(&url, u) != 0) vf_harness_fail("url");
	if (nng_http_client_alloc(&cl_cli, url) != 0) vf_harness_fail("client_alloc");
	nng_url_free(url);
	if (nng_aio_alloc(&cl_aio, NULL, NULL) != 0) vf_harness_fail("aio");
	nng_aio_set_timeout(cl_aio, 100000); // (a verdict needs "never", not "slow": see http_slow_exchanges)
}

static void
client_disconnect(void)
{
	if (cl_conn != NULL) {
		nng_http_close(cl_conn);
		cl_conn = NULL;
	}
	rp_close(&cp);
}

static void
client_down(void)
{
	client_disconnect();
	nng_http_client_free(cl_cli);
	nng_aio_free(cl_aio);
	close(cl_lfd);
	cl_lfd = -1;
}

static void
client_connect(void)
{
	client_disconnect();
	nng_http_client_connect(cl_cli, cl_aio);
	cp.fd = vf_tcp_accept(cl_lfd, 5000);
	nng_aio_wait(cl_aio);
	if (cp.fd < 0 || nng_aio_result(cl_aio) != 0) vf_harness_fail("nng http client could not connect to the raw server: %s", nng_strerror(nng_aio_result(cl_aio)));
	cl_conn = nng_aio_get_output(cl_aio, 0);
}

typedef struct {
	char method[16];
	char uri[1600];
	int  nh;
	char hn[16][32], hv[16][600];
	long sweep_pred; // > 0: request head aimed at the size of nng's fixed buffer; predicted length without the unknown extras
	bb   body;
	bb   resp;   // wire bytes of the response
	bb   expect; // canonical decode (empty if not modelled)
	marks m;
	bool head;
	bool manual; // nng_http_write_request / read_response / read_all instead of nng_http_transact
	bool big;    // response head of 8-20 KB made of short lines
	char desc[96];
} ctxn;

static long sweep_n, sweep_extra;
static bool sweep_extra_known;

static void
gen_txn(vf_rng *r, ctxn *t)
{
	static const char *methods[] = { "GET", "GET", "POST", "PUT", "DELETE", "HEAD" };
	static const int   codes[]   = { 200, 200, 201, 202, 299, 400, 404, 500, 503, 301, 600, 999 };
	static const char *reasons[] = { NULL, NULL, "Fine", "", "Very Custom Reason-Phrase 42", "OK" };
	char mn[MAXH][64], mv[MAXH][2400];
	int  nm = 0;
	memset(t, 0, sizeof(*t));
	snprintf(t->method, sizeof(t->method), "%s", methods[vf_below(r, 6)]);
	t->head = strcmp(t->method, "HEAD") == 0;
	snprintf(t->uri, sizeof(t->uri), "/c%u/x%u%s", vf_below(r, 100), vf_below(r, 1000), vf_chance(r, 1, 3) ? "?q=1" : "");
	t->nh = (int) vf_below(r, 4);
	for (int i = 0; i < t->nh; i++) {
		snprintf(t->hn[i], sizeof(t->hn[i]), "X-Req-%d", i);
		snprintf(t->hv[i], sizeof(t->hv[i]), "val%u", vf_below(r, 100000));
	}
	if (vf_chance(r, 1, 10)) {
		// the head nng has to EMIT is aimed at the size of its fixed buffer
		// (8160 bytes): every length from 30 below to 30 above, in turn.  What
		// nng adds on its own (Host, ...) is learnt from the first such request.
		// (the buffer size itself first - twice, the first one teaches the
		// extras - then alternately below and above it)
		long k      = sweep_n++ % 62;
		long target = 8160 + (k < 2 ? 0 : (k / 2) * ((k & 1) ? 1 : -1));
		snprintf(t->method, sizeof(t->method), "GET");
		t->head = false;
		size_t ul = 1400;
		memcpy(t->uri, "/sweep/", 7);
		memset(t->uri + 7, 'u', ul);
		t->uri[7 + ul] = 0;
		t->nh = 12;
		long pred = 4 + (long) strlen(t->uri) + 11 + 2; // request line, final CRLF
		for (int i = 0; i < 11; i++) {
			snprintf(t->hn[i], sizeof(t->hn[i]), "X-Pad-%02d", i);
			memset(t->hv[i], 'p', 560);
			t->hv[i][560] = 0;
			pred += 8 + 2 + 560 + 2;
		}
		long extra = sweep_extra_known ? sweep_extra : 23;
		long v     = target - pred - extra - (6 + 2 + 2);
		if (v < 1) v = 1;
		if (v > 590) v = 590;
		snprintf(t->hn[11], sizeof(t->hn[11]), "X-Tune");
		memset(t->hv[11], 't', (size_t) v);
		t->hv[11][v] = 0;
		t->sweep_pred = pred + 6 + 2 + v + 2;
	}
	if (!strcmp(t->method, "POST") || !strcmp(t->method, "PUT")) {
		size_t bl = vf_chance(r, 1, 8) ? vf_range(r, 8000, 20000) : vf_below(r, 200);
		for (size_t i = 0; i < bl; i++) bb_ch(&t->body, (int) vf_below(r, 256));
	}
	// response
	int         code = codes[vf_below(r, 12)];
	const char *rs   = reasons[vf_below(r, 6)];
	int         minor = vf_chance(r, 1, 10) ? 0 : 1;
	int         framing = t->head ? 4 : (int) vf_below(r, 4); // 0 clen, 1 chunked, 2 clen 0, 3 none, 4 head
	char        rbuf[64];
	if (rs == NULL) {
		snprintf(rbuf, sizeof(rbuf), "%s", code == 200 ? "OK" : code == 404 ? "Not Found" : code == 500 ? "Internal Server Error" : "Whatever");
		rs = rbuf;
	}
	bb_printf(&t->resp, "HTTP/1.%d %d %s\r\n", minor, code, rs);
	mark(&t->m, t->resp.n);
	bb   body = { 0 };
	bb   chunked = { 0 };
	if (framing == 0 || framing == 4) {
		size_t bl = vf_chance(r, 1, 8) ? vf_range(r, 8000, 30000) : vf_range(r, 1, 200);
		for (size_t i = 0; i < bl; i++) bb_ch(&body, vf_chance(r, 1, 6) ? "\r\nHTTP/1.1 200"[vf_below(r, 14)] : (int) vf_below(r, 256));
	} else if (framing == 1) {
		marks  cm = { .n = 0 };
		size_t sl[8], dl[8];
		int    nch;
		gen_chunked(r, &chunked, &cm, vf_chance(r, 1, 5), sl, dl, &nch);
		cref ref;
		chunk_ref(chunked.p, chunked.n, 0, &ref);
		if (ref.verdict != REF_OK) vf_harness_fail("generated chunked body not valid");
		// body = concatenation of the data
		size_t pos = 0;
		for (int i = 0; i < nch; i++) {
			pos = sl[i];
			while (chunked.p[pos] != '\n') pos++;
			bb_add(&body, chunked.p + pos + 1, dl[i]);
		}
	}
	int nh = (int) vf_below(r, 5);
	int fr_at = (int) vf_below(r, (uint32_t) nh + 1);
	int ct_at = vf_chance(r, 1, 2) ? (int) vf_below(r, (uint32_t) nh + 1) : -1;
	for (int i = 0; i <= nh; i++) {
		for (int special = 0; special < 3; special++) {
			char name[64], val[700];
			name[0] = 0;
			if (special == 0 && i == fr_at) {
				if (framing == 0 || framing == 4) {
					snprintf(name, sizeof(name), "%s", vf_chance(r, 1, 3) ? "content-length" : "Content-Length");
					snprintf(val, sizeof(val), "%zu", body.n);
				} else if (framing == 1) {
					snprintf(name, sizeof(name), "%s", vf_chance(r, 1, 3) ? "transfer-encoding" : "Transfer-Encoding");
					snprintf(val, sizeof(val), "chunked");
				} else if (framing == 2) {
					snprintf(name, sizeof(name), "Content-Length");
					snprintf(val, sizeof(val), "0");
				}
			} else if (special == 1 && i == ct_at) {
				snprintf(name, sizeof(name), "%s", vf_chance(r, 1, 3) ? "content-type" : "Content-Type");
				snprintf(val, sizeof(val), "text/x-test; n=%u", vf_below(r, 100));
			} else if (special == 2 && i < nh) {
				snprintf(name, sizeof(name), "%s", hdr_names[vf_below(r, 10)]);
				gen_value(r, val, 320);
			}
			if (name[0] == 0) continue;
			bb_str(&t->resp, name);
			bb_ch(&t->resp, ':');
			for (int k = (int) vf_below(r, 3); k > 0; k--) bb_ch(&t->resp, ' ');
			bb_str(&t->resp, val);
			for (int k = vf_chance(r, 1, 4) ? (int) vf_range(r, 1, 2) : 0; k > 0; k--) bb_ch(&t->resp, ' ');
			bb_str(&t->resp, "\r\n");
			mark(&t->m, t->resp.n);
			const char *canon = strcasecmp(name, "Content-Type") == 0 ? "Content-Type" : strcasecmp(name, "Content-Length") == 0 ? "Content-Length" : NULL;
			int         at = -1;
			for (int k = 0; k < nm; k++)
				if (strcasecmp(mn[k], name) == 0) at = k;
			if (at >= 0 && canon == NULL) {
				size_t l = strlen(mv[at]);
				snprintf(mv[at] + l, sizeof(mv[0]) - l, ", %s", val);
			} else if (nm < MAXH) {
				snprintf(mn[nm], sizeof(mn[0]), "%s", canon ? canon : name);
				snprintf(mv[nm], sizeof(mv[0]), "%s", val);
				nm++;
			}
		}
	}
	bb_str(&t->resp, "\r\n");
	mark(&t->m, t->resp.n);
	if (framing == 0) bb_add(&t->resp, body.p, body.n);
	if (framing == 1) {
		bb_add(&t->resp, chunked.p, chunked.n);
		mark(&t->m, t->resp.n - 2);
	}
	// model
	char *lines[MAXH];
	bb_printf(&t->expect, "S %d\nR %s\n", code, rs);
	for (int k = 0; k < nm; k++) {
		size_t l = strlen(mn[k]) + strlen(mv[k]) + 8;
		lines[k] = malloc(l);
		snprintf(lines[k], l, "H %s: %s", mn[k], mv[k]);
	}
	qsort(lines, (size_t) nm, sizeof(char *), cmp_str);
	for (int k = 0; k < nm; k++) {
		bb_str(&t->expect, lines[k]);
		bb_ch(&t->expect, '\n');
		free(lines[k]);
	}
	size_t ebl = (framing == 0 || framing == 1) ? body.n : 0;
	bb_printf(&t->expect, "B %zu\n", ebl);
	if (ebl) bb_add(&t->expect, body.p, ebl);
	static const char *fn[] = { "content-length", "chunked", "content-length-0", "no-body", "head" };
	t->manual = (framing == 0 || framing == 2 || framing == 3) && vf_chance(r, 1, 3);
	snprintf(t->desc, sizeof(t->desc), "%s -> %d %s http1.%d resp=%zu%s", t->method, code, fn[framing], minor, t->resp.n, t->manual ? " manual-api" : "");
	bb_free(&body);
	bb_free(&chunked);
}

// response with a head of 8-20 KB made of short lines
static void
gen_big_txn(vf_rng *r, ctxn *t)
{
	bb     hl = { 0 }, body = { 0 };
	size_t target = vf_chance(r, 1, 3) ? vf_range(r, NNG_HTTP_BUF + 1, NNG_HTTP_BUF + 400) : vf_range(r, 8300, 20000);
	size_t bl     = vf_below(r, 120);
	memset(t, 0, sizeof(*t));
	t->big = true;
	snprintf(t->method, sizeof(t->method), "GET");
	snprintf(t->uri, sizeof(t->uri), "/bigresp/%u", vf_below(r, 100000));
	t->manual = vf_chance(r, 1, 3);
	bb_str(&t->resp, "HTTP/1.1 200 OK\r\n");
	gen_many_headers(r, &t->resp, target - 40, &hl);
	bb_printf(&t->resp, "Content-Length: %zu\r\n\r\n", bl);
	size_t head = t->resp.n;
	for (size_t i = 0; i < bl; i++) bb_ch(&body, (int) vf_below(r, 256));
	bb_add(&t->resp, body.p, body.n);
	bb all = { 0 };
	bb_add(&all, hl.p, hl.n);
	bb_printf(&all, "H Content-Length: %zu\n", bl);
	{
		static char *lines[MAXLINES];
		int          nl = 0;
		char        *save = NULL;
		for (char *ln = strtok_r((char *) all.p, "\n", &save); ln != NULL && nl < MAXLINES; ln = strtok_r(NULL, "\n", &save)) lines[nl++] = ln;
		qsort(lines, (size_t) nl, sizeof(char *), cmp_str);
		bb_str(&t->expect, "S 200\nR OK\n");
		for (int i = 0; i < nl; i++) {
			bb_str(&t->expect, lines[i]);
			bb_ch(&t->expect, '\n');
		}
	}
	bb_printf(&t->expect, "B %zu\n", bl);
	bb_add(&t->expect, body.p, body.n);
	snprintf(t->desc, sizeof(t->desc), "GET -> 200 content-length big-head=%zu resp=%zu%s", head, t->resp.n, t->manual ? " manual-api" : "");
	bb_free(&all);
	bb_free(&hl);
	bb_free(&body);
}

static void
txn_free(ctxn *t)
{
	bb_free(&t->body);
	bb_free(&t->resp);
	bb_free(&t->expect);
}

// read the request nng emits and check it strictly against what was set
static bool
client_read_request(ctxn *t, const char *plan)
{
	hmsg m;
	if (cp.pos == cp.in.n) {
		cp.pos = 0;
		bb_reset(&cp.in);
	}
	for (;;) {
		int r = parse_head(cp.in.p + cp.pos, cp.in.n - cp.pos, true, &m);
		if (r < 0) {
			vf_violation("C16/http-emit/request-malformed", "txn {%s} plan %s: request emitted by nng does not parse strictly: %s", t->desc, plan, m.err);
			return false;
		}
		if (r == 1) {
			size_t bl = m.clen > 0 ? (size_t) m.clen : 0;
			if (cp.in.n - cp.pos >= m.head_len + bl) {
				const uint8_t *body = cp.in.p + cp.pos + m.head_len;
				bool           ok   = true;
				if (strcmp(m.method, t->method) || strcmp(m.target, t->uri) || strcmp(m.version, "HTTP/1.1")) ok = false;
				for (int i = 0; i < t->nh && ok; i++) {
					const char *v = hmsg_get(&m, t->hn[i]);
					if (v == NULL || strcmp(v, t->hv[i])) ok = false;
				}
				if (hmsg_get(&m, "Host") == NULL) ok = false;
				if (bl != t->body.n || (bl && memcmp(body, t->body.p, bl))) ok = false;
				if (t->body.n > 0 && m.clen < 0) ok = false;
				if (!ok) {
					vf_violation("C16/http-emit/request-differs", "txn {%s}: emitted request line '%s %s %s', %d headers, body %zu bytes does not match what the application set (%s %s, body %zu)", t->desc, m.method, m.target, m.version, m.nh, bl, t->method, t->uri, t->body.n);
				}
				cp.pos += m.head_len + bl;
				if (cp.pos != cp.in.n) {
					vf_violation("C16/http-emit/request-trailing-bytes", "txn {%s}: %zu bytes after the end of the emitted request", t->desc, cp.in.n - cp.pos);
					cp.pos = cp.in.n;
				}
				vf_stat("http_client_requests_parsed", 1);
				if (t->sweep_pred > 0) {
					sweep_extra       = (long) m.head_len - t->sweep_pred; // what nng added on its own
					sweep_extra_known = true;
					if (m.head_len >= 8130 && m.head_len <= 8190) {
						vf_stat("http_emitted_request_heads_around_buffer_size", 1);
						vf_class("emit-head/request/%zu", m.head_len);
					}
					if (m.head_len == 8160) vf_stat("http_emitted_request_heads_of_exactly_buffer_size", 1);
				}
				return ok;
			}
		}
		int f = rp_fill(&cp, 10000);
		if (f <= 0) {
			vf_violation("C16/http-emit/request-incomplete", "txn {%s} plan %s: nng's request never completed (%s)", t->desc, plan, f == 0 ? "connection closed" : "timeout");
			return false;
		}
	}
}

// one transaction; result canonical text in out; returns nng rv
static int
client_exchange(ctxn *t, int seg, size_t a, size_t b2, uint64_t key, const char *plan, bb *out)
{
	bb_reset(out);
	cl_way = "";
	if (cl_conn == NULL) client_connect();
	nng_http_reset(cl_conn);
	nng_http_set_method(cl_conn, t->method);
	nng_http_set_uri(cl_conn, t->uri, NULL);
	for (int i = 0; i < t->nh; i++) nng_http_set_header(cl_conn, t->hn[i], t->hv[i]);
	if (t->body.n) nng_http_copy_body(cl_conn, t->body.p, t->body.n);
	// plans that shorten nng's writes must be in force while it sends the request
	if (seg == SEG_WDRIBBLE) vf_io_plan(VF_IO_DRIBBLE, (long) a, VF_IO_FULL, 0, key);
	if (seg == SEG_WRANDOM) vf_io_plan(VF_IO_RANDOM, (long) a, VF_IO_FULL, 0, key);
	if (seg == SEG_WCUT) vf_io_plan(VF_IO_CUT_ONCE, (long) a, VF_IO_FULL, 0, key);
	if (t->manual) nng_http_write_request(cl_conn, cl_aio); else nng_http_transact(cl_conn, cl_aio);
	if (!client_read_request(t, plan)) {
		vf_io_plan(VF_IO_FULL, 0, VF_IO_FULL, 0, 0);
		nng_aio_cancel(cl_aio);
		nng_aio_wait(cl_aio);
		client_disconnect();
		return -1;
	}
	switch (seg) {
	case SEG_CUT: vf_io_plan(VF_IO_FULL, 0, VF_IO_CUT_ONCE, (long) a, key); break;
	case SEG_DRIBBLE: vf_io_plan(VF_IO_FULL, 0, VF_IO_DRIBBLE, (long) a, key); break;
	case SEG_RANDOM: vf_io_plan(VF_IO_FULL, 0, VF_IO_RANDOM, (long) a, key); break;
	// nng's own writes shortened (its response / its request)
	case SEG_WDRIBBLE: vf_io_plan(VF_IO_DRIBBLE, (long) a, VF_IO_FULL, 0, key); break;
	case SEG_WRANDOM: vf_io_plan(VF_IO_RANDOM, (long) a, VF_IO_FULL, 0, key); break;
	case SEG_WCUT: vf_io_plan(VF_IO_CUT_ONCE, (long) a, VF_IO_FULL, 0, key); break;
	default: vf_io_plan(VF_IO_FULL, 0, VF_IO_FULL, 0, key); break;
	}
	if (t->manual) {
		// the request is out; now read the response head through the public API
		nng_aio_wait(cl_aio);
		if (nng_aio_result(cl_aio) != 0) {
			int wrv = nng_aio_result(cl_aio);
			vf_io_plan(VF_IO_FULL, 0, VF_IO_FULL, 0, 0);
			client_disconnect();
			return wrv;
		}
		nng_http_read_response(cl_conn, cl_aio);
	}
	if (seg == SEG_PACED) {
		size_t c1 = a, c2 = b2 > a ? b2 : a;
		vf_fd_write_all(cp.fd, t->resp.p, c1, 5000);
		vf_quiesce(1, 2000);
		if (c2 > c1) {
			vf_fd_write_all(cp.fd, t->resp.p + c1, c2 - c1, 5000);
			vf_quiesce(1, 2000);
		}
		vf_fd_write_all(cp.fd, t->resp.p + c2, t->resp.n - c2, 5000);
	} else if (seg == SEG_PIECES) {
		for (size_t o = 0; o < t->resp.n; o += a) {
			vf_fd_write_all(cp.fd, t->resp.p + o, t->resp.n - o < a ? t->resp.n - o : a, 5000);
			if (o + a < t->resp.n) vf_quiesce(1, 2000);
		}
	} else {
		vf_fd_write_all(cp.fd, t->resp.p, t->resp.n, 5000);
	}
	uint64_t t0 = vf_now_ns();
	nng_aio_wait(cl_aio);
	if (vf_now_ns() - t0 > 10000000000ULL) vf_stat("http_slow_exchanges", 1);
	int      rv    = nng_aio_result(cl_aio);
	uint8_t *mbody = NULL;
	size_t   mlen  = 0;
	if (rv == 0 && t->manual) {
		// entity body: the application's job with this API
		const char *cl = nng_http_get_header(cl_conn, "Content-Length");
		mlen = cl != NULL ? (size_t) strtoul(cl, NULL, 10) : 0;
		if (mlen > 0) {
			// three ways to read it (the way is a function of the plan, the
			// decode must not depend on it): nng_http_read_all into one buffer;
			// into 2-4 separately allocated buffers of 1, 7, 2, rest bytes;
			// nng_http_read (completes with whatever is there) until done
			uint64_t hsh = key ^ (uint64_t) a * 0x9E3779B97F4A7C15ULL ^ (uint64_t) seg * 0xC2B2AE3D27D4EB4FULL;
			int      way = (int) ((hsh >> 20) % 3);
			mbody        = malloc(mlen);
			cl_way       = way == 2 ? "/body-read-with-nng_http_read" : way == 1 && mlen >= 2 ? "/body-read-into-several-buffers" : "";
			if (way == 2) {
				size_t have = 0;
				long   calls = 0;
				while (have < mlen && rv == 0) {
					nng_iov iov[2];
					size_t  want = mlen - have;
					int     ni   = 1;
					// sometimes ask for less than is left, sometimes with two buffers
					if (((hsh >> (calls & 15)) & 3) == 1 && want > 3) want = 1 + (size_t) ((hsh >> 7) % (want - 1));
					iov[0].iov_buf = mbody + have;
					iov[0].iov_len = want;
					if (((hsh >> (calls & 15)) & 3) == 2 && want >= 2) {
						iov[0].iov_len = 1;
						iov[1].iov_buf = mbody + have + 1;
						iov[1].iov_len = want - 1;
						ni             = 2;
					}
					nng_aio_set_iov(cl_aio, (unsigned) ni, iov);
					nng_http_read(cl_conn, cl_aio);
					nng_aio_wait(cl_aio);
					rv = nng_aio_result(cl_aio);
					size_t c = nng_aio_count(cl_aio);
					if (rv == 0 && (c == 0 || c > want)) {
						vf_violation("C16/http-client-api/read-count", "txn {%s} plan %s: nng_http_read of up to %zu bytes completed with count %zu", t->desc, plan, want, c);
						rv = NNG_EINTERNAL;
						break;
					}
					if (rv == 0) have += c;
					calls++;
				}
				vf_stat("http_client_raw_reads", calls);
				if (calls > 1) vf_stat("http_client_raw_read_partial", 1);
			} else if (way == 1 && mlen >= 2) {
				static const size_t want[4] = { 1, 7, 2, 0 };
				nng_iov  iov[4];
				uint8_t *part[4];
				int      ni = 2 + (int) ((hsh >> 9) % 3);
				size_t   left = mlen;
				if ((size_t) ni > mlen) ni = (int) mlen;
				for (int i = 0; i < ni; i++) {
					size_t l = i == ni - 1 ? left : want[i];
					if (l > left - (size_t) (ni - 1 - i)) l = left - (size_t) (ni - 1 - i);
					part[i]        = malloc(l); // (of its own: writing past one of them is an ASan report)
					memset(part[i], 0xEE, l);
					iov[i].iov_buf = part[i];
					iov[i].iov_len = l;
					left -= l;
				}
				nng_aio_set_iov(cl_aio, (unsigned) ni, iov);
				nng_http_read_all(cl_conn, cl_aio);
				nng_aio_wait(cl_aio);
				rv = nng_aio_result(cl_aio);
				if (rv == 0 && nng_aio_count(cl_aio) != mlen) {
					vf_violation("C16/http-client-api/read-all-count", "txn {%s} plan %s: nng_http_read_all of %zu bytes into %d buffers completed with count %zu", t->desc, plan, mlen, ni, nng_aio_count(cl_aio));
				}
				size_t o = 0;
				for (int i = 0; i < ni; i++) {
					memcpy(mbody + o, part[i], iov[i].iov_len);
					o += iov[i].iov_len;
					free(part[i]);
				}
				vf_stat("http_client_scatter_reads", 1);
			} else {
				nng_iov iov;
				iov.iov_buf = mbody;
				iov.iov_len = mlen;
				nng_aio_set_iov(cl_aio, 1, &iov);
				nng_http_read_all(cl_conn, cl_aio);
				nng_aio_wait(cl_aio);
				rv = nng_aio_result(cl_aio);
				if (rv == 0 && nng_aio_count(cl_aio) != mlen) {
					vf_violation("C16/http-client-api/read-all-count", "txn {%s} plan %s: nng_http_read_all of %zu bytes completed with count %zu", t->desc, plan, mlen, nng_aio_count(cl_aio));
				}
			}
		}
		vf_stat("http_client_manual_exchanges", 1);
	}
	vf_io_plan(VF_IO_FULL, 0, VF_IO_FULL, 0, 0);
	if (rv != 0) {
		free(mbody);
		client_disconnect();
		return rv;
	}
	static char *lines[MAXLINES];
	int         nl = 0;
	const char *k, *v;
	void       *it = NULL;
	void       *body;
	size_t      blen;
	bb_printf(out, "S %d\nR ", (int) nng_http_get_status(cl_conn));
	bb_str(out, nng_http_get_reason(cl_conn));
	bb_ch(out, '\n');
	while (nng_http_next_header(cl_conn, &k, &v, &it) && nl < MAXLINES) {
		size_t l = strlen(k) + strlen(v) + 8;
		lines[nl] = malloc(l);
		snprintf(lines[nl], l, "H %s: %s", k, v);
		nl++;
	}
	qsort(lines, (size_t) nl, sizeof(char *), cmp_str);
	for (int i = 0; i < nl; i++) {
		bb_str(out, lines[i]);
		bb_ch(out, '\n');
		free(lines[i]);
	}
	nng_http_get_body(cl_conn, &body, &blen);
	if (t->manual) {
		body = mbody;
		blen = mlen;
	}
	bb_printf(out, "B %zu\n", blen);
	if (blen) bb_add(out, body, blen);
	free(mbody);
	return 0;
}

static bool
client_check(ctxn *t, const char *plan, int rv, bb *got, bb *baseline, bool first)
{
	if (rv == -1) return false; // already reported
	if (rv != 0) {
		if (first) {
			vf_violation("C16/http-client-valid-rejected", "txn {%s}: valid response refused: %s", t->desc, nng_strerror(rv));
		} else {
			vf_violation("C16/http-client-segmentation/result-differs", "txn {%s}: accepted when sent whole, but plan %s yields %s", t->desc, plan, nng_strerror(rv));
		}
		return false;
	}
	if (first) {
		bb_add(baseline, got->p, got->n);
		if (got->n != t->expect.n || memcmp(got->p, t->expect.p, got->n) != 0) {
			size_t o = 0;
			while (o < got->n && o < t->expect.n && got->p[o] == t->expect.p[o]) o++;
			char key[128];
			snprintf(key, sizeof(key), "C16/http-client-decode/differs-from-reference%s", cl_way);
			vf_violation(key, "txn {%s}: decoded response differs from what was sent (canonical form differs at offset %zu: got %zu bytes, expected %zu)", t->desc, o, got->n, t->expect.n);
			return false;
		}
		vf_stat("http_client_model_equal", 1);
		return true;
	}
	if (got->n != baseline->n || memcmp(got->p, baseline->p, got->n) != 0) {
		size_t o = 0;
		while (o < got->n && o < baseline->n && got->p[o] == baseline->p[o]) o++;
		char key[128];
		snprintf(key, sizeof(key), "C16/http-client-segmentation/decode-differs%s", cl_way);
		vf_violation(key, "txn {%s}: response decoded under plan %s differs from the unsplit decode (%zu vs %zu canonical bytes, first difference at %zu: 0x%02x vs 0x%02x)", t->desc, plan, got->n, baseline->n, o, o < got->n ? got->p[o] : 0, o < baseline->n ? baseline->p[o] : 0);
		return false;
	}
	return true;
}

static void
client_valid_case(long idx, vf_rng *r)
{
	ctxn t;
	bb   got = { 0 }, base = { 0 };
	char plan[64];
	long n = 0;
	if (vf_chance(r, 1, 20)) gen_big_txn(r, &t); else gen_txn(r, &t);
	vf_case_begin(idx, "http client valid {%s}", t.desc);
	uint64_t key = vf_rand(r);
	int      rv  = client_exchange(&t, SEG_WHOLE, 0, 0, key, "whole", &got);
	bool     ok  = client_check(&t, "whole", rv, &got, &base, true);
	size_t   len = t.resp.n;
	n++;
	if (ok && len >= 2) {
		if (len <= 300) {
			for (size_t k = 1; k < len && ok; k++) {
				snprintf(plan, sizeof(plan), "read-cut@%zu", k);
				rv = client_exchange(&t, SEG_CUT, k, 0, key, plan, &got);
				ok = client_check(&t, plan, rv, &got, &base, false);
				n++;
			}
			if (ok) vf_stat("http_client_exhaustive_cut", 1);
		} else {
			for (int i = 0; i < (t.big ? 8 : 40) && ok; i++) {
				size_t k = i < t.m.n * 2 ? t.m.off[i / 2] - (size_t) (i & 1) : vf_range(r, 1, (uint32_t) len - 1);
				if (k < 1 || k >= len) continue;
				snprintf(plan, sizeof(plan), "read-cut@%zu", k);
				rv = client_exchange(&t, SEG_CUT, k, 0, key, plan, &got);
				ok = client_check(&t, plan, rv, &got, &base, false);
				n++;
			}
		}
		if (ok && t.big) {
			size_t cuts[64];
			int    ncut = big_cuts(&t.resp, cuts, 64);
			for (int i = 0; i < ncut && ok; i++) {
				if (cuts[i] < 1 || cuts[i] >= len) continue;
				snprintf(plan, sizeof(plan), "read-cut@%zu(buffer-boundary)", cuts[i]);
				rv = client_exchange(&t, SEG_CUT, cuts[i], 0, key, plan, &got);
				ok = client_check(&t, plan, rv, &got, &base, false);
				n++;
			}
			static const size_t rnd[] = { 600, 4096, 8160, 9000 };
			for (int i = 0; i < 4 && ok; i++) {
				snprintf(plan, sizeof(plan), "read-random%zu", rnd[i]);
				rv = client_exchange(&t, SEG_RANDOM, rnd[i], 0, key + 7 + (uint64_t) i, plan, &got);
				ok = client_check(&t, plan, rv, &got, &base, false);
				n++;
			}
			static const size_t pcs[] = { 600, 1460, 8160, 8161 };
			for (int i = 0; i < 4 && ok; i++) {
				snprintf(plan, sizeof(plan), "pieces-of-%zu", pcs[i]);
				rv = client_exchange(&t, SEG_PIECES, pcs[i], 0, key, plan, &got);
				ok = client_check(&t, plan, rv, &got, &base, false);
				n++;
			}
			vf_stat("http_big_head_cases", 1);
			vf_stat("http_client_big_head_cases", 1);
		}
		if (ok && (len <= 1500 || (t.big && len <= 10500))) {
			rv = client_exchange(&t, SEG_DRIBBLE, 1, 0, key, "read-dribble1", &got);
			ok = client_check(&t, "read-dribble1", rv, &got, &base, false);
			n++;
		}
		for (int i = 0; i < 2 && ok; i++) {
			long p = i == 0 ? 5 : 90;
			snprintf(plan, sizeof(plan), "read-random%ld", p);
			rv = client_exchange(&t, SEG_RANDOM, (size_t) p, 0, key + (uint64_t) i, plan, &got);
			ok = client_check(&t, plan, rv, &got, &base, false);
			n++;
		}
		long ss0 = vf_io_short_sends();
		for (int i = 0; i < 3 && ok; i++) {
			size_t a = i == 0 ? vf_range(r, 1, 3) : i == 1 ? vf_range(r, 2, 300) : vf_range(r, 1, (uint32_t) (60 + t.body.n));
			snprintf(plan, sizeof(plan), "%s%zu", i == 0 ? "write-dribble" : i == 1 ? "write-random" : "write-cut@", a);
			rv = client_exchange(&t, i == 0 ? SEG_WDRIBBLE : i == 1 ? SEG_WRANDOM : SEG_WCUT, a, 0, key + (uint64_t) i, plan, &got);
			ok = client_check(&t, plan, rv, &got, &base, false);
			n++;
		}
		vf_stat("http_client_short_writes", vf_io_short_sends() - ss0);
		for (int i = 0; i < 3 && ok; i++) {
			size_t a = vf_range(r, 1, (uint32_t) len - 1);
			size_t b = vf_chance(r, 1, 2) ? a : vf_range(r, (uint32_t) a, (uint32_t) len - 1);
			if (i == 0 && t.m.n > 0) a = b = t.m.off[vf_below(r, (uint32_t) t.m.n)] - (vf_chance(r, 1, 2) ? 1 : 0);
			if (a < 1 || a >= len) a = b = 1;
			snprintf(plan, sizeof(plan), "paced-write@%zu,%zu", a, b);
			rv = client_exchange(&t, SEG_PACED, a, b, key, plan, &got);
			ok = client_check(&t, plan, rv, &got, &base, false);
			n++;
			vf_stat("http_client_paced", 1);
		}
	}
	vf_stat("http_client_exchanges", n);
	const char *fr = t.big ? "clen" : strstr(t.desc, "chunked") ? "chunked" : strstr(t.desc, "head") ? "head" : strstr(t.desc, "content-length-0") ? "clen0" : strstr(t.desc, "no-body") ? "nobody" : "clen";
	vf_class("http-client/valid/%s%s%s/%s", fr, t.manual ? "/manual-api" : "", t.big ? "/big-head" : "", len <= 300 ? "exhaustive-cuts" : "sampled-cuts");
	if ((idx % 61) == 0) vf_sample("{\"mode\":\"client\",\"txn\":\"%s\",\"exchanges\":%ld}", t.desc, n);
	bb_free(&got);
	bb_free(&base);
	txn_free(&t);
}

typedef struct {
	const char *cls;
	const char *text;
} badres;

#define TAIL "Content-Length: 2\r\n\r\nok"
static const badres badress[] = {
	{ "status-no-space", "HTTP/1.1\r\n" TAIL },
	{ "status-no-code", "HTTP/1.1 OK\r\n" TAIL },
	{ "status-code-alpha", "HTTP/1.1 abc OK\r\n" TAIL },
	{ "status-code-2-digits", "HTTP/1.1 99 OK\r\n" TAIL },
	{ "status-code-4-digits", "HTTP/1.1 2000 OK\r\n" TAIL },
	{ "status-code-trailing-junk", "HTTP/1.1 200abc OK\r\n" TAIL },
	{ "status-code-signed", "HTTP/1.1 +200 OK\r\n" TAIL },
	{ "status-code-leading-space", "HTTP/1.1  200 OK\r\n" TAIL },
	{ "status-version-scheme", "HTTQ/1.1 200 OK\r\n" TAIL },
	{ "status-version-junk", "HTTP/1.1x 200 OK\r\n" TAIL },
	{ "status-version-lowercase", "http/1.1 200 OK\r\n" TAIL },
	{ "status-version-missing", " 200 OK\r\n" TAIL },
	{ "status-version-1.7", "HTTP/1.7 200 OK\r\n" TAIL },
	{ "status-control-byte", "HTTP/1.1 200 O\x01K\r\n" TAIL },
	{ "status-bare-cr", "HTTP/1.1 200 O\rK\r\n" TAIL },
	{ "header-no-colon", "HTTP/1.1 200 OK\r\nNoColonHere\r\n" TAIL },
	{ "header-no-colon-last", "HTTP/1.1 200 OK\r\nContent-Length: 2\r\nNoColonHere\r\n\r\nok" },
	{ "header-control-byte", "HTTP/1.1 200 OK\r\nX-A: b\x02" "c\r\n" TAIL },
	{ "chunk-size-empty", "HTTP/1.1 200 OK\r\nTransfer-Encoding: chunked\r\n\r\n3\r\nabc\r\n\r\nabc\r\n0\r\n\r\n" },
	{ "chunk-size-non-hex", "HTTP/1.1 200 OK\r\nTransfer-Encoding: chunked\r\n\r\n3\r\nabc\r\n3x\r\nabc\r\n0\r\n\r\n" },
	{ "chunk-size-non-hex-first", "HTTP/1.1 200 OK\r\nTransfer-Encoding: chunked\r\n\r\nxyz\r\nabc\r\n0\r\n\r\n" },
	{ "chunk-size-negative", "HTTP/1.1 200 OK\r\nTransfer-Encoding: chunked\r\n\r\n-3\r\nabc\r\n0\r\n\r\n" },
	{ "chunk-size-overflow", "HTTP/1.1 200 OK\r\nTransfer-Encoding: chunked\r\n\r\n3\r\nabc\r\n10000000000000003\r\nabc\r\n0\r\n\r\n" },
	{ "chunk-size-too-small", "HTTP/1.1 200 OK\r\nTransfer-Encoding: chunked\r\n\r\n2\r\nabc\r\n0\r\n\r\n" },
	{ "chunk-size-too-large", "HTTP/1.1 200 OK\r\nTransfer-Encoding: chunked\r\n\r\n4\r\nabc\r\n0\r\n\r\n0\r\n\r\n" },
};
#define NBADRES ((int) (sizeof(badress) / sizeof(badress[0])))

static void
client_bad_case(long idx, vf_rng *r)
{
	const badres *b = &badress[(idx / 4) % NBADRES];
	ctxn          t;
	bb            got = { 0 };
	char          key[128];
	memset(&t, 0, sizeof(t));
	snprintf(t.method, sizeof(t.method), "GET");
	snprintf(t.uri, sizeof(t.uri), "/bad");
	bb_str(&t.resp, b->text);
	snprintf(t.desc, sizeof(t.desc), "malformed:%s", b->cls);
	vf_case_begin(idx, "http client malformed %s", b->cls);
	int    seg = (int) vf_below(r, 4);
	size_t a   = vf_range(r, 1, (uint32_t) t.resp.n - 1);
	client_connect();
	int rv = client_exchange(&t, seg == 0 ? SEG_WHOLE : seg == 1 ? SEG_CUT : seg == 2 ? SEG_DRIBBLE : SEG_PACED, seg == 2 ? 1 + vf_below(r, 3) : a, a, vf_rand(r), "malformed", &got);
	const char *outcome;
	if (rv == 0) {
		snprintf(key, sizeof(key), "C16/http-client-malformed-accepted/%s", b->cls);
		vf_violation(key, "malformed response (%s) was accepted by nng_http_transact: decoded as %.40s", b->cls, (char *) got.p);
		outcome = "accepted";
	} else if (rv == NNG_ETIMEDOUT) {
		snprintf(key, sizeof(key), "C16/http-client-malformed-no-verdict/%s", b->cls);
		vf_violation(key, "complete malformed response (%s): transaction neither failed nor completed within 100 s", b->cls);
		outcome = "timeout";
	} else if (rv == -1) {
		outcome = "request-problem";
	} else {
		vf_stat("http_client_malformed_rejected", 1);
		outcome = nng_strerror(rv);
	}
	vf_stat("http_client_malformed", 1);
	vf_class("http-client/malformed/%s/%s", b->cls, outcome);
	client_disconnect();
	bb_free(&got);
	txn_free(&t);
}

static void
client_main(void)
{
	vf_nng_init(4, 1, 2);
	client_up();
	for (long i = 0; i < vf_cases; i++) {
		if (!vf_want_case(i)) continue;
		vf_rng r;
		vf_rng_seed(&r, vf_seed, (uint64_t) i);
		vf_watchdog(400);
		if (i % 4 == 3) {
			client_bad_case(i, &r);
		} else {
			client_valid_case(i, &r);
		}
		vf_stat("cases", 1);
		if ((i % 200) == 199) {
			client_down();
			vf_quiesce(2, 5000); /* nng_fini racing a poller-driven reap is C10's business */ vf_nng_fini("C16");
			vf_nng_init(4, 1, 2);
			client_up();
		}
	}
	client_down();
	vf_stat("io_short_recvs", vf_io_short_recvs());
	vf_quiesce(2, 5000); /* nng_fini racing a poller-driven reap is C10's business */ vf_nng_fini("C16");
}


int
main(int argc, char **argv)
{
	signal(SIGPIPE, SIG_IGN);
	vf_init(argc, argv);
	vf_watchdog(120);
	if (!strcmp(vf_mode, "chunk")) {
		vf_nng_init(2, 1, 1);
		chunk_main();
		vf_quiesce(2, 5000); /* nng_fini racing a poller-driven reap is C10's business */ vf_nng_fini("C16");
	} else if (!strcmp(vf_mode, "server")) {
		server_main();
	} else if (!strcmp(vf_mode, "client")) {
		client_main();
	} else {
		vf_harness_fail("unknown mode '%s'", vf_mode);
	}
	return vf_finish();
}
