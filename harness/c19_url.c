// C19: URL parsing - strict acceptance, canonical and idempotent output.
//
// Every input string is judged by an independent strict reference (scheme
// table with exact match + "://", authority/port rules, percent-escape
// validity, strict UTF-8 validator, reference canonicaliser) and by nng
// (nng_url_parse + accessors, nng_url_sprintf, nng_url_clone).  Oracles:
//   strict/*     nng accepted a string the strict predicate rejects
//   component/*  an accessor differs from the reference component
//   canon/*      an accepted URL is not in canonical form
//   sprintf/*    formatting length / termination inconsistent
//   roundtrip/*  parse(sprintf(parse(x))) differs in scheme/host/port/path/
//                query/fragment, or is rejected
//   clone/*      nng_url_clone fails, differs, shares storage, or crashes
// Memory safety is watched by ASan/UBSan: the input and every output buffer
// are exact-size heap blocks.
//
// "Well-formed authority" is judged where every host grammar in use (RFC 3986,
// RFC 1123 host names, WHATWG) agrees: no blank or control byte (<= 0x20,
// 0x7f) in the user info or host (strict/authority-blank-or-control), and
// what stands in brackets is an IPv6 address with an optional non-empty zone,
// or an IPvFuture literal (strict/authority-bracket-not-an-address); an
// unreserved escape left in a registered name is canon/unreserved-escape-kept/
// host.  What the reference deliberately does NOT demand (statement is not
// specific enough): which other characters a registered name / userinfo / zone
// may contain (sub-delims, stray brackets, raw bytes >= 0x80, "<>\^`{|} -
// only invalid %XX in the user info or a registered name is judged).  For
// these the current behaviour is pinned as a differential baseline: mode enum
// counts them per class (stats base_*_driven / base_*_accepted, exact floors
// on both the accepted and the rejected count), so that any drift of the
// accepted set is inconclusive and gets looked at, without claiming a
// violation.  Also not demanded:
// UTF-8 validity of query/fragment, the case of kept hex digits,
// whether %80-%FF are kept or decoded, whether "/a/." keeps its trailing
// slash, the order of slash-collapsing vs dot-segment removal, and any
// validation for the host-less schemes (ipc, unix, abstract, inproc,
// socket), whose remainder nng documents as an opaque string.  Rejecting a
// string the reference would accept is counted (stat "overstrict"), not
// flagged: the property is "accepts only if".
//
// Modes: "enum"  deterministic enumerations (percent-encoded/raw UTF-8
//                lead x continuation spaces, scheme variants, length sweep
//                around the 128-byte inline buffer, authority/port matrix,
//                literal corpus), sharded by index;
//        "gram"  seeded grammar-based generator with byte mutations.
#include "vfh.h"

#include "core/nng_impl.h" // white-box: struct nng_url (storage ranges)

#include <ctype.h>
#include <errno.h>
#include <arpa/inet.h>
#include <netdb.h>
#include <signal.h>
#include <sys/wait.h>
#include <unistd.h>

#define MAXIN 1536
#define NB (MAXIN * 3 + 16)

// ---------------------------------------------------------------- tables
// Copied from the scheme list in url.c (nni_schemes); if the library learns
// a new scheme this table must follow.
static const char *const ref_schemes[] = { "http", "https", "tcp", "tcp4",
	"tcp6", "tls+tcp", "tls+tcp4", "tls+tcp6", "socket", "inproc", "ipc",
	"unix", "abstract", "ws", "ws4", "ws6", "wss", "wss4", "wss6", "udp",
	"udp4", "udp6", "dtls", "dtls4", "dtls6", "file", "mailto", "gopher",
	"ftp", "ssh", "git", "telnet", "irc", "imap", "imaps" };
#define NSCHEMES ((int) (sizeof(ref_schemes) / sizeof(ref_schemes[0])))

static const struct {
	const char *s;
	uint32_t    port;
} ref_defports[] = { { "git", 9418 }, { "gopher", 70 }, { "http", 80 },
	{ "https", 443 }, { "ssh", 22 }, { "telnet", 23 }, { "ws", 80 },
	{ "ws4", 80 }, { "ws6", 80 }, { "wss", 443 }, { "wss4", 443 },
	{ "wss6", 443 } };

static bool
scheme_hostless(const char *s)
{
	return !strcmp(s, "ipc") || !strcmp(s, "unix") || !strcmp(s, "abstract") ||
	    !strcmp(s, "inproc") || !strcmp(s, "socket");
}

static uint32_t
ref_default_port(const char *s)
{
	for (size_t i = 0; i < sizeof(ref_defports) / sizeof(ref_defports[0]); i++) {
		if (!strcmp(ref_defports[i].s, s)) {
			return ref_defports[i].port;
		}
	}
	return 0;
}

static bool
is_hex(unsigned char c)
{
	return (c >= '0' && c <= '9') || (c >= 'a' && c <= 'f') || (c >= 'A' && c <= 'F');
}
static unsigned
hexv(unsigned char c)
{
	return c <= '9' ? c - '0' : (c | 0x20) - 'a' + 10;
}
static bool
is_unres(unsigned char c)
{
	return (c >= 'a' && c <= 'z') || (c >= 'A' && c <= 'Z') ||
	    (c >= '0' && c <= '9') || c == '.' || c == '~' || c == '_' || c == '-';
}

// printable rendering of arbitrary bytes for details / samples
static const char *
esc(const char *s)
{
	static char bufs[4][700];
	static int  k;
	char       *o = bufs[k++ & 3];
	size_t      n = 0;
	for (; *s && n < 680; s++) {
		unsigned char c = (unsigned char) *s;
		if (c >= 0x20 && c < 0x7f && c != '"' && c != '\\') {
			o[n++] = (char) c;
		} else {
			n += (size_t) snprintf(o + n, 6, "\\x%02x", c);
		}
	}
	if (*s) {
		n += (size_t) snprintf(o + n, 8, "...");
	}
	o[n] = 0;
	return o;
}

// ---------------------------------------------------------------- UTF-8
enum { U_OK = 0, U_STRAY, U_OVERLONG2, U_OVERLONG3, U_OVERLONG4, U_SURROGATE,
	U_ABOVE, U_BADLEAD, U_TRUNC };
static const char *const u_names[] = { "ok", "stray-continuation", "overlong-2byte",
	"overlong-3byte", "overlong-4byte", "surrogate", "above-10ffff",
	"invalid-lead", "truncated" };

#define CONT(b) (((b) & 0xc0) == 0x80)
// Unicode 15 table 3-7 (well-formed UTF-8 byte sequences)
static int
utf8_check(const uint8_t *s, size_t len)
{
	size_t i = 0;
	while (i < len) {
		uint8_t b = s[i];
		if (b < 0x80) {
			i++;
		} else if (b < 0xc0) {
			return U_STRAY;
		} else if (b < 0xc2) {
			return U_OVERLONG2;
		} else if (b < 0xe0) {
			if (i + 1 >= len || !CONT(s[i + 1])) return U_TRUNC;
			i += 2;
		} else if (b < 0xf0) {
			if (i + 1 >= len || !CONT(s[i + 1])) return U_TRUNC;
			if (b == 0xe0 && s[i + 1] < 0xa0) return U_OVERLONG3;
			if (b == 0xed && s[i + 1] >= 0xa0) return U_SURROGATE;
			if (i + 2 >= len || !CONT(s[i + 2])) return U_TRUNC;
			i += 3;
		} else if (b < 0xf5) {
			if (i + 1 >= len || !CONT(s[i + 1])) return U_TRUNC;
			if (b == 0xf0 && s[i + 1] < 0x90) return U_OVERLONG4;
			if (b == 0xf4 && s[i + 1] >= 0x90) return U_ABOVE;
			if (i + 2 >= len || !CONT(s[i + 2])) return U_TRUNC;
			if (i + 3 >= len || !CONT(s[i + 3])) return U_TRUNC;
			i += 4;
		} else if (b < 0xf8) {
			return U_ABOVE;
		} else {
			return U_BADLEAD;
		}
	}
	return U_OK;
}

// decode every valid %XX; returns length (may contain NUL bytes)
static size_t
decode_all(const char *in, uint8_t *out)
{
	size_t n = 0;
	for (size_t i = 0; in[i]; i++) {
		unsigned char c = (unsigned char) in[i];
		if (c == '%' && is_hex((unsigned char) in[i + 1]) &&
		    is_hex((unsigned char) in[i + 2])) {
			out[n++] = (uint8_t) (hexv((unsigned char) in[i + 1]) * 16 + hexv((unsigned char) in[i + 2]));
			i += 2;
		} else {
			out[n++] = c;
		}
	}
	return n;
}

// first invalid escape? ('%' not followed by two hex digits inside [s,s+n))
static bool
escapes_valid(const char *s, size_t n)
{
	for (size_t i = 0; i < n; i++) {
		if (s[i] == '%') {
			if (i + 2 >= n) return false;
			if (!is_hex((unsigned char) s[i + 1]) || !is_hex((unsigned char) s[i + 2])) return false;
			i += 2;
		}
	}
	return true;
}

// Normal form used for comparison only: unreserved escapes decoded, every
// other escape upper-case, raw bytes >= 0x80 written as %XX.  Independent of
// the things the statement leaves open (hex case, high-byte decoding).
static size_t
norm(const char *in, size_t n, char *out)
{
	static const char H[] = "0123456789ABCDEF";
	size_t            o = 0;
	for (size_t i = 0; i < n; i++) {
		unsigned char c = (unsigned char) in[i];
		bool          e = false;
		if (c == '%' && i + 2 < n &&
		    is_hex((unsigned char) in[i + 1]) && is_hex((unsigned char) in[i + 2])) {
			c = (unsigned char) (hexv((unsigned char) in[i + 1]) * 16 + hexv((unsigned char) in[i + 2]));
			i += 2;
			e = true;
		}
		if (is_unres(c) || (!e && c < 0x80)) {
			out[o++] = (char) c;
		} else {
			out[o++] = '%';
			out[o++] = H[c >> 4];
			out[o++] = H[c & 15];
		}
	}
	out[o] = 0;
	return o;
}

static void
collapse(char *s)
{
	size_t d = 0;
	for (size_t i = 0; s[i]; i++) {
		if (s[i] == '/' && d > 0 && s[d - 1] == '/') continue;
		s[d++] = s[i];
	}
	s[d] = 0;
}

// RFC 3986 5.2.4 on an absolute (or empty) path.  *lastdot: the last input
// segment was "." or ".." (then the trailing slash is left open).
static void
rmdots(const char *in, char *out, bool *lastdot)
{
	size_t      olen = 0;
	const char *p = in;
	*lastdot = false;
	while (*p) {
		const char *seg = p + 1;
		size_t      sl = strcspn(seg, "/");
		bool        last = seg[sl] == 0;
		if (*p != '/') { // cannot happen for a path; copy verbatim
			sl = strcspn(p, "/");
			memcpy(out + olen, p, sl);
			olen += sl;
			p += sl;
			continue;
		}
		if (sl == 1 && seg[0] == '.') {
			if (last) { out[olen++] = '/'; *lastdot = true; }
		} else if (sl == 2 && seg[0] == '.' && seg[1] == '.') {
			while (olen > 0 && out[--olen] != '/') {
			}
			if (last) { out[olen++] = '/'; *lastdot = true; }
		} else {
			out[olen++] = '/';
			memcpy(out + olen, seg, sl);
			olen += sl;
		}
		p = seg + sl;
	}
	out[olen] = 0;
}

// ---------------------------------------------------------------- reference
enum { HK_NONE, HK_EMPTY, HK_NAME, HK_V4, HK_V6, HK_ODD };
enum { PK_NONE, PK_NUM, PK_SVC, PK_BAD };
#define PF_DOT 1u
#define PF_DUP 2u
#define PF_EUNRES 4u
#define PF_EKEPT 8u
#define PF_EHIGH 16u
#define PF_RAWHIGH 32u
#define PF_UPPER 64u

typedef struct {
	bool        accept;
	char        reason[64];
	int         scheme; // index, -1 if none
	bool        hostless;
	const char *rest; // after "://"
	bool        has_userinfo;
	char        userinfo[MAXIN];
	char        host[MAXIN];
	uint32_t    port;
	int         npath;
	char        path[4][NB];
	bool        has_query, has_frag;
	char        query[NB], frag[NB];
	int         path_utf8;  // U_* of the decoded canonical path
	bool        qf_utf8_ok; // decoded query and fragment are valid UTF-8
	int         hostkind, portkind;
	unsigned    pf;
	bool        auth_ctl; // blank / control byte in the user info or host (judged)
	bool        v6_bad;   // bracketed host that is neither an IPv6 address (inet_pton) + optional zone nor IPvFuture (judged)
	bool        bracketed;
	// open verdicts (statement not specific; baseline-pinned in mode enum, never flagged)
	unsigned    open; // OP_* bits
	bool        host_unres_esc; // registered name carries an escape of an unreserved character
} ref_url;

#define OP_REG_SUBDELIM 1u  // registered name with sub-delims, '_', '~' or an escape (RFC 3986 allows, DNS does not)
#define OP_REG_BRACKET 2u   // '[' or ']' in a registered name
#define OP_REG_HIGH 4u      // raw byte >= 0x80 in a registered name
#define OP_REG_ASCII 8u     // other ASCII that RFC 3986 excludes from a registered name: "<>\^`{|}
#define OP_UI_ODD 16u       // user info with anything but unreserved / escapes / sub-delims / ':'
#define OP_ZONE_ODD 32u     // zone identifier with anything but unreserved / escapes
#define OP_IPVFUTURE 64u    // [v1.x]
#define N_OPEN 7
static const char *const op_names[N_OPEN] = { "regname_subdelim_or_escape", "regname_bracket", "regname_high_byte", "regname_excluded_ascii",
	"userinfo_odd", "zone_odd", "ipvfuture" };

static uint8_t dec_tmp[NB];
static char    tmp_a[NB], tmp_b[NB];

static void
rej(ref_url *r, const char *why)
{
	r->accept = false;
	snprintf(r->reason, sizeof(r->reason), "%s", why);
}

static unsigned
path_features(const char *s, size_t n)
{
	unsigned f = 0;
	for (size_t i = 0; i < n; i++) {
		unsigned char c = (unsigned char) s[i];
		if (c == '/' && i + 1 < n && s[i + 1] == '/') f |= PF_DUP;
		if (c == '/' && i + 1 < n && s[i + 1] == '.') f |= PF_DOT;
		if (c >= 0x80) f |= PF_RAWHIGH;
		if (c == '%' && i + 2 < n && is_hex((unsigned char) s[i + 1]) && is_hex((unsigned char) s[i + 2])) {
			unsigned v = hexv((unsigned char) s[i + 1]) * 16 + hexv((unsigned char) s[i + 2]);
			if (v >= 0x80) f |= PF_EHIGH;
			else if (is_unres((unsigned char) v)) f |= PF_EUNRES;
			else f |= PF_EKEPT;
			if (v == '.') f |= PF_DOT;
		}
	}
	return f;
}

static void
ref_parse(const char *in, ref_url *r)
{
	r->accept = true;
	r->reason[0] = 0;
	r->scheme = -1;
	r->hostless = false;
	r->rest = NULL;
	r->has_userinfo = r->has_query = r->has_frag = false;
	r->userinfo[0] = r->host[0] = 0;
	r->port = 0;
	r->npath = 0;
	r->path_utf8 = U_OK;
	r->qf_utf8_ok = true;
	r->hostkind = HK_NONE;
	r->portkind = PK_NONE;
	r->pf = 0;
	r->auth_ctl = r->v6_bad = r->bracketed = r->host_unres_esc = false;
	r->open = 0;

	for (int i = 0; i < NSCHEMES; i++) {
		size_t l = strlen(ref_schemes[i]);
		if (strncmp(in, ref_schemes[i], l) == 0 && strncmp(in + l, "://", 3) == 0) {
			r->scheme = i;
			r->rest = in + l + 3;
			break;
		}
	}
	if (r->scheme < 0) {
		size_t len = strcspn(in, ":");
		if (strncmp(in + len, "://", 3) != 0) {
			rej(r, "scheme-no-separator");
		} else if (len == 0) {
			rej(r, "scheme-empty");
		} else {
			bool pre = false;
			for (int i = 0; i < NSCHEMES; i++) {
				if (strlen(ref_schemes[i]) > len && strncmp(ref_schemes[i], in, len) == 0) pre = true;
			}
			rej(r, pre ? "scheme-is-proper-prefix" : "scheme-unknown");
		}
		return;
	}
	if (scheme_hostless(ref_schemes[r->scheme])) {
		r->hostless = true;
		return;
	}

	const char *rest = r->rest;
	size_t      alen = strcspn(rest, "/?#");
	const char *tail = rest + alen;
	char        auth[MAXIN];
	memcpy(auth, rest, alen);
	auth[alen] = 0;

	// userinfo
	char *hp = auth;
	char *at = strchr(auth, '@');
	if (at != NULL) {
		if (strchr(at + 1, '@') != NULL) {
			rej(r, "authority-multiple-at");
			return;
		}
		*at = 0;
		r->has_userinfo = true;
		strcpy(r->userinfo, auth);
		hp = at + 1;
	}
	// host and port
	char *portstr = NULL;
	if (hp[0] == '[') {
		char *q = strchr(hp, ']');
		if (q == NULL) {
			rej(r, "authority-bracket-unclosed");
			return;
		}
		*q = 0;
		r->bracketed = true;
		strcpy(r->host, hp + 1);
		if (q[1] == ':') {
			portstr = q + 2;
		} else if (q[1] != 0) {
			rej(r, "authority-junk-after-bracket");
			return;
		}
		r->hostkind = (strchr(r->host, ':') && !strchr(r->host, '[')) ? HK_V6 : HK_ODD;
		{ // is the literal an IP address at all?  (open verdict)
			char   lit[64];
			size_t ll = strcspn(r->host, "%");
			struct in6_addr a6;
			bool   ok = false;
			if (ll < sizeof(lit)) {
				memcpy(lit, r->host, ll);
				lit[ll] = 0;
				ok = inet_pton(AF_INET6, lit, &a6) == 1 && (r->host[ll] == 0 || r->host[ll + 1] != 0);
				if (!ok && (lit[0] == 'v' || lit[0] == 'V') && r->host[ll] == 0) { // IPvFuture
					size_t i = 1;
					while (is_hex((unsigned char) lit[i])) i++;
					if (i > 1 && lit[i] == '.' && lit[i + 1] != 0) {
						ok = true;
						for (i++; lit[i]; i++) {
							if (!is_unres((unsigned char) lit[i]) && strchr("!$&'()*+,;=:", lit[i]) == NULL) ok = false;
						}
						if (ok) r->open |= OP_IPVFUTURE;
					}
				}
				if (ok && r->host[ll] == '%') { // zone identifier
					const char *z = r->host + ll + 1;
					for (size_t i = 0; z[i]; i++) {
						if (z[i] == '%' && is_hex((unsigned char) z[i + 1]) && is_hex((unsigned char) z[i + 2])) i += 2;
						else if (!is_unres((unsigned char) z[i])) r->open |= OP_ZONE_ODD;
					}
				}
			}
			r->v6_bad = !ok;
		}
	} else {
		char *c = strchr(hp, ':');
		if (c != NULL) {
			*c = 0;
			portstr = c + 1;
		}
		strcpy(r->host, hp);
		bool v4 = r->host[0] != 0, odd = false;
		for (char *h = r->host; *h; h++) {
			if (!isdigit((unsigned char) *h) && *h != '.') v4 = false;
			if (!isalnum((unsigned char) *h) && *h != '.' && *h != '-') odd = true;
		}
		r->hostkind = r->host[0] == 0 ? HK_EMPTY : odd ? HK_ODD : v4 ? HK_V4 : HK_NAME;
	}
	for (char *h = r->host; *h; h++) {
		if (*h >= 'A' && *h <= 'Z') {
			*h = (char) (*h + 32);
			r->pf |= PF_UPPER;
		}
	}
	// "well-formed authority": no host grammar admits a blank or a control
	// byte in the user info or host (the port text has its own rules below)
	for (const char *c = r->userinfo; *c; c++) {
		if ((unsigned char) *c <= 0x20 || *c == 0x7f) r->auth_ctl = true;
	}
	for (const char *c = r->host; *c; c++) {
		if ((unsigned char) *c <= 0x20 || *c == 0x7f) r->auth_ctl = true;
	}
	if (r->auth_ctl) {
		rej(r, "authority-blank-or-control");
		return;
	}
	if (r->v6_bad) {
		rej(r, "authority-bracket-not-an-address");
		return;
	}
	// open classes (counted / baseline-pinned, never flagged)
	if (!r->bracketed) {
		for (const char *c = r->host; *c; c++) {
			unsigned char b = (unsigned char) *c;
			if (b == '[' || b == ']') r->open |= OP_REG_BRACKET;
			else if (b >= 0x80) r->open |= OP_REG_HIGH;
			else if (strchr("\"<>\\^`{|}", b) != NULL) r->open |= OP_REG_ASCII;
			else if (!isalnum(b) && b != '.' && b != '-') r->open |= OP_REG_SUBDELIM;
		}
	}
	for (const char *c = r->userinfo; *c; c++) {
		unsigned char b = (unsigned char) *c;
		if (!is_unres(b) && b != '%' && b != ':' && strchr("!$&'()*+,;=", b) == NULL) r->open |= OP_UI_ODD;
	}
	// "valid percent-escapes" is unqualified in the statement: a '%' in the
	// user info or in a registered name must start %XX.  A bracketed
	// literal is exempt: its '%' introduces the zone identifier
	// ([fe80::1%eth0]), which nng passes on to getaddrinfo.
	if (r->has_userinfo && !escapes_valid(r->userinfo, strlen(r->userinfo))) {
		rej(r, "escape-invalid/userinfo");
		return;
	}
	if (hp[0] != '[' && !escapes_valid(r->host, strlen(r->host))) {
		rej(r, "escape-invalid/host");
		return;
	}
	if (!r->bracketed) { // canonical registered name: unreserved escapes decoded, lower case
		size_t d = 0;
		for (size_t i = 0; r->host[i]; i++) {
			if (r->host[i] == '%') {
				unsigned v = hexv((unsigned char) r->host[i + 1]) * 16 + hexv((unsigned char) r->host[i + 2]);
				if (v < 0x80 && is_unres((unsigned char) v)) {
					r->host[d++] = (char) tolower((int) v);
					r->host_unres_esc = true;
					i += 2;
					continue;
				}
			}
			r->host[d++] = r->host[i];
		}
		r->host[d] = 0;
	}
	if (strlen(r->host) >= 256) { // of the canonical name
		rej(r, "host-too-long");
		return;
	}
	if (portstr != NULL) {
		if (portstr[0] == 0) {
			rej(r, "port-empty");
			return;
		}
		char   low[MAXIN];
		size_t pl = strlen(portstr);
		bool   digits = true;
		for (size_t i = 0; i <= pl; i++) {
			low[i] = (char) ((portstr[i] >= 'A' && portstr[i] <= 'Z') ? portstr[i] + 32 : portstr[i]);
			if (i < pl && !(portstr[i] >= '0' && portstr[i] <= '9')) digits = false;
		}
		if (digits) {
			unsigned long v = 0;
			for (size_t i = 0; i < pl && v <= 0xffff; i++) v = v * 10 + (unsigned long) (portstr[i] - '0');
			if (v > 0xffff) {
				rej(r, "port-out-of-range");
				r->portkind = PK_BAD;
				return;
			}
			r->port = (uint32_t) v;
			r->portkind = PK_NUM;
		} else {
			struct servent *se = getservbyname(low, "tcp");
			if (se != NULL) {
				r->port = ntohs((uint16_t) se->s_port);
				r->portkind = PK_SVC;
			} else {
				// "+80", " 80", "-0": digits after blanks / one sign
				size_t i = 0;
				while (low[i] == ' ' || (low[i] >= '\t' && low[i] <= '\r')) i++;
				if (low[i] == '+' || low[i] == '-') i++;
				size_t d0 = i;
				while (low[i] >= '0' && low[i] <= '9') i++;
				rej(r, (i > d0 && low[i] == 0) ? "port-signed-or-blank" : "port-not-numeric-or-service");
				r->portkind = PK_BAD;
				return;
			}
		}
	} else {
		r->port = ref_default_port(ref_schemes[r->scheme]);
	}

	// path ? query # fragment
	size_t      plen = strcspn(tail, "?#");
	const char *p = tail + plen;
	const char *q = NULL, *f = NULL;
	size_t      qlen = 0, flen = 0;
	if (*p == '?') {
		q = p + 1;
		qlen = strcspn(q, "#");
		p = q + qlen;
		r->has_query = true;
	}
	if (*p == '#') {
		f = p + 1;
		flen = strlen(f);
		r->has_frag = true;
	}
	r->pf |= path_features(tail, plen);
	if (!escapes_valid(tail, plen)) {
		rej(r, "escape-invalid/path");
		return;
	}
	if (q != NULL && !escapes_valid(q, qlen)) {
		rej(r, "escape-invalid/query");
		return;
	}
	if (f != NULL && !escapes_valid(f, flen)) {
		rej(r, "escape-invalid/fragment");
		return;
	}
	// canonical path alternatives
	bool ld;
	norm(tail, plen, tmp_a);
	// A: collapse slashes, then remove dot segments
	strcpy(tmp_b, tmp_a);
	collapse(tmp_b);
	rmdots(tmp_b, r->path[0], &ld);
	r->npath = 1;
	if (ld) {
		strcpy(r->path[r->npath], r->path[0]);
		r->path[r->npath][strlen(r->path[0]) - 1] = 0;
		r->npath++;
	}
	// B: remove dot segments, then collapse slashes
	rmdots(tmp_a, r->path[r->npath], &ld);
	collapse(r->path[r->npath]);
	r->npath++;
	if (ld) {
		size_t l = strlen(r->path[r->npath - 1]);
		strcpy(r->path[r->npath], r->path[r->npath - 1]);
		if (l > 0) r->path[r->npath][l - 1] = 0;
		r->npath++;
	}
	if (q != NULL) norm(q, qlen, r->query);
	if (f != NULL) norm(f, flen, r->frag);

	size_t dl = decode_all(r->path[0], dec_tmp);
	r->path_utf8 = utf8_check(dec_tmp, dl);
	if (q != NULL) {
		dl = decode_all(r->query, dec_tmp);
		if (utf8_check(dec_tmp, dl) != U_OK) r->qf_utf8_ok = false;
	}
	if (f != NULL) {
		dl = decode_all(r->frag, dec_tmp);
		if (utf8_check(dec_tmp, dl) != U_OK) r->qf_utf8_ok = false;
	}
}

// ---------------------------------------------------------------- snapshots
typedef struct {
	char     scheme[32];
	bool     hu, hh, hp, hq, hf;
	char     userinfo[MAXIN], host[MAXIN], path[MAXIN], query[MAXIN], frag[MAXIN];
	uint32_t port;
} snap;

static void
cpy(char *dst, bool *have, const char *src)
{
	*have = src != NULL;
	if (src != NULL) {
		snprintf(dst, MAXIN, "%s", src);
	} else {
		dst[0] = 0;
	}
}

static void
take_snap(const nng_url *u, snap *s)
{
	snprintf(s->scheme, sizeof(s->scheme), "%s", nng_url_scheme(u) ? nng_url_scheme(u) : "(null)");
	cpy(s->userinfo, &s->hu, nng_url_userinfo(u));
	cpy(s->host, &s->hh, nng_url_hostname(u));
	cpy(s->path, &s->hp, nng_url_path(u));
	cpy(s->query, &s->hq, nng_url_query(u));
	cpy(s->frag, &s->hf, nng_url_fragment(u));
	s->port = nng_url_port(u);
}

// White-box: does the whole string p (including its terminator) lie in the
// storage u owns - the inline array, or the heap buffer of u_bufsz bytes?
// (An overflow of u_static inside a larger object, e.g. a dialer, is not
// visible to ASan; a heap buffer whose recorded size is short is copied
// short by clone.)
static bool
in_own_storage(const nng_url *u, const char *p)
{
	const char *lo, *hi;
	if (u->u_bufsz != 0 && u->u_buffer != NULL) {
		lo = u->u_buffer;
		hi = lo + u->u_bufsz;
	} else {
		lo = u->u_static;
		hi = lo + sizeof(u->u_static);
	}
	return p >= lo && p < hi && memchr(p, 0, (size_t) (hi - p)) != NULL;
}

// Compare u with a snapshot.  Returns the name of the first differing
// component, or NULL.  own: also require string pointers to lie in u's own
// storage (checked before they are dereferenced).
static const char *
cmp_one(const nng_url *u, const char *got, bool have, const char *want, const char *name, bool own, char *why, size_t wsz)
{
	if ((got != NULL) != have) {
		snprintf(why, wsz, "%s is %s, expected %s%s%s", name, got ? "non-NULL" : "NULL",
		    have ? "\"" : "", have ? esc(want) : "NULL", have ? "\"" : "");
		return name;
	}
	if (got == NULL) return NULL;
	if (own && !in_own_storage(u, got)) {
		snprintf(why, wsz, "%s is not a terminated string inside the URL's own storage (%s, %zu bytes)", name,
		    u->u_bufsz ? "heap" : "inline", u->u_bufsz ? u->u_bufsz : sizeof(u->u_static));
		return "storage";
	}
	if (strcmp(got, want) != 0) {
		snprintf(why, wsz, "%s \"%s\" expected \"%s\"", name, esc(got), esc(want));
		return name;
	}
	return NULL;
}

static const char *
cmp_snap(const nng_url *u, const snap *s, bool with_userinfo, bool own, char *why, size_t wsz)
{
	const char *d;
	const char *sc = nng_url_scheme(u);
	if (sc == NULL || strcmp(sc, s->scheme) != 0) {
		snprintf(why, wsz, "scheme \"%s\" expected \"%s\"", sc ? sc : "(null)", s->scheme);
		return "scheme";
	}
	if (with_userinfo && (d = cmp_one(u, nng_url_userinfo(u), s->hu, s->userinfo, "userinfo", own, why, wsz))) return d;
	if ((d = cmp_one(u, nng_url_hostname(u), s->hh, s->host, "hostname", own, why, wsz))) return d;
	if (nng_url_port(u) != s->port) {
		snprintf(why, wsz, "port %u expected %u", nng_url_port(u), s->port);
		return "port";
	}
	if ((d = cmp_one(u, nng_url_path(u), s->hp, s->path, "path", own, why, wsz))) return d;
	if ((d = cmp_one(u, nng_url_query(u), s->hq, s->query, "query", own, why, wsz))) return d;
	if ((d = cmp_one(u, nng_url_fragment(u), s->hf, s->frag, "fragment", own, why, wsz))) return d;
	return NULL;
}

// ---------------------------------------------------------------- the case
static ref_url R;
static snap    S;
static bool    quarantine[4]; // clone class whose canary crashed
static const char *const cls_names[4] = { "hosted-inline", "hosted-heap", "hostless-inline", "hostless-heap" };
static long    n_cases, n_accept, n_reject, n_overstrict, n_round, n_clone, n_clone_heap,
    n_clone_hostless, n_clone_skip, n_heap_urls, n_portmut, n_free_src_first, n_free_clone_first,
    n_ref_compared, n_hostless_acc, n_strict_fired, n_trunc, n_overstrict_unexplained, n_storage,
    n_ep_try, n_ep_ok, n_ep_ok_heap, n_ep_notsup, n_ep_refused, n_ep_form[4];
static nng_socket ep_sock;
static bool       ep_ready;
static long       n_listen_try, n_listen_ok, n_listen_heap, n_listen_fail, n_listen_port, n_listen_dialer;

static void
viol(const char *clause, const char *disc, const char *input, const char *fmt, ...)
{
	char    key[160], msg[1200];
	va_list ap;
	va_start(ap, fmt);
	vsnprintf(msg, sizeof(msg), fmt, ap);
	va_end(ap);
	if (disc != NULL) snprintf(key, sizeof(key), "C19/%s/%s", clause, disc);
	else snprintf(key, sizeof(key), "C19/%s", clause);
	vf_violation(key, "%s; input \"%s\"", msg, esc(input));
}

static const char *
rt_feature(const snap *s)
{
	if (s->hh && strchr(s->host, '[')) return "host-has-open-bracket";
	if (s->hh && strchr(s->host, ']')) return "host-has-close-bracket";
	return "other";
}

// registered name with the escapes of unreserved characters decoded (lower case)
static const char *
host_decode_unres(const char *h)
{
	static char out[MAXIN];
	size_t      d = 0;
	for (size_t i = 0; h[i] && d < MAXIN - 1; i++) {
		if (h[i] == '%' && is_hex((unsigned char) h[i + 1]) && is_hex((unsigned char) h[i + 2])) {
			unsigned v = hexv((unsigned char) h[i + 1]) * 16 + hexv((unsigned char) h[i + 2]);
			if (v < 0x80 && is_unres((unsigned char) v)) {
				out[d++] = (char) tolower((int) v);
				i += 2;
				continue;
			}
		}
		out[d++] = h[i];
	}
	out[d] = 0;
	return out;
}

static long n_host_esc_judged, n_host_esc_unres;

// canonical-form predicates on what nng returned (hosted schemes)
static void
check_canon(const nng_url *u, const char *input)
{
	const char *h = nng_url_hostname(u), *p = nng_url_path(u);
	const char *comp[3] = { p, nng_url_query(u), nng_url_fragment(u) };
	static const char *const cn[3] = { "path", "query", "fragment" };
	if (h != NULL) {
		for (const char *c = h; *c; c++) {
			if (*c >= 'A' && *c <= 'Z') {
				viol("canon/host-uppercase", NULL, input, "hostname \"%s\"", esc(h));
				break;
			}
		}
		// "unreserved escapes decoded" is stated for the components; the host
		// is one.  A bracketed literal is exempt: its raw '%' introduces the
		// zone identifier (R.bracketed: nng has stripped the brackets).
		if (R.accept && !R.bracketed && strchr(h, '%') != NULL) {
			n_host_esc_judged++;
			if (R.host_unres_esc) n_host_esc_unres++;
			for (const char *c = h; *c; c++) {
				if (*c == '%' && is_hex((unsigned char) c[1]) && is_hex((unsigned char) c[2])) {
					unsigned v = hexv((unsigned char) c[1]) * 16 + hexv((unsigned char) c[2]);
					if (v < 0x80 && is_unres((unsigned char) v)) {
						viol("canon/unreserved-escape-kept", "host", input, "hostname \"%s\"", esc(h));
						break;
					}
				}
			}
		} else if (R.accept && R.host_unres_esc) {
			n_host_esc_judged++;
			n_host_esc_unres++;
		}
	}
	for (int k = 0; k < 3; k++) {
		const char *s = comp[k];
		if (s == NULL) continue;
		size_t n = strlen(s);
		if (!escapes_valid(s, n)) {
			viol("strict/escape-invalid-in-output", cn[k], input, "%s \"%s\"", cn[k], esc(s));
			continue;
		}
		for (size_t i = 0; i + 2 < n; i++) {
			if (s[i] == '%') {
				unsigned v = hexv((unsigned char) s[i + 1]) * 16 + hexv((unsigned char) s[i + 2]);
				if (v < 0x80 && is_unres((unsigned char) v)) {
					viol("canon/unreserved-escape-kept", cn[k], input, "%s \"%s\"", cn[k], esc(s));
					break;
				}
				i += 2;
			}
		}
	}
	if (p != NULL) {
		if (strstr(p, "//") != NULL) viol("canon/duplicate-slash", NULL, input, "path \"%s\"", esc(p));
		for (const char *c = p; (c = strchr(c, '/')) != NULL; c++) {
			size_t sl = strcspn(c + 1, "/");
			if ((sl == 1 && c[1] == '.') || (sl == 2 && c[1] == '.' && c[2] == '.')) {
				viol("canon/dot-segment", NULL, input, "path \"%s\"", esc(p));
				break;
			}
		}
	}
}

static void
check_vs_ref(const nng_url *u, const char *input)
{
	const char *sc = nng_url_scheme(u);
	n_ref_compared++;
	if (sc == NULL || strcmp(sc, ref_schemes[R.scheme]) != 0) {
		viol("component/scheme-mismatch", NULL, input, "scheme \"%s\" expected \"%s\"", sc ? sc : "(null)", ref_schemes[R.scheme]);
	}
	if (R.hostless) {
		const char *p = nng_url_path(u);
		if (p == NULL || strcmp(p, R.rest) != 0) {
			viol("component/path-mismatch", "hostless", input, "path \"%s\"", p ? esc(p) : "(null)");
		}
		return;
	}
	const char *ui = nng_url_userinfo(u), *h = nng_url_hostname(u), *p = nng_url_path(u),
	           *q = nng_url_query(u), *f = nng_url_fragment(u);
	if ((ui != NULL) != R.has_userinfo || (ui != NULL && strcmp(ui, R.userinfo) != 0)) {
		viol("component/userinfo-mismatch", NULL, input, "userinfo %s%s expected %s%s", ui ? "=" : "", ui ? esc(ui) : "NULL", R.has_userinfo ? "=" : "", R.has_userinfo ? esc(R.userinfo) : "NULL");
	}
	// (an unreserved escape nng left in a registered name is canon/unreserved-escape-kept/host, not a mismatch)
	if (h == NULL || strcmp(R.bracketed ? h : host_decode_unres(h), R.host) != 0) {
		viol("component/hostname-mismatch", NULL, input, "hostname \"%s\" expected \"%s\"", h ? esc(h) : "(null)", esc(R.host));
	}
	if (nng_url_port(u) != R.port) {
		viol("component/port-mismatch", NULL, input, "port %u expected %u", nng_url_port(u), R.port);
	}
	if (p == NULL) {
		viol("component/path-mismatch", "null", input, "path is NULL");
	} else if (escapes_valid(p, strlen(p))) {
		bool ok = false;
		norm(p, strlen(p), tmp_a);
		for (int i = 0; i < R.npath; i++) {
			if (strcmp(tmp_a, R.path[i]) == 0) ok = true;
		}
		if (!ok) {
			viol("component/path-mismatch", NULL, input, "path \"%s\" (normal form \"%s\") expected \"%s\"", esc(p), esc(tmp_a), esc(R.path[0]));
		}
	}
	if ((q != NULL) != R.has_query) {
		viol("component/query-mismatch", NULL, input, "query is %s", q ? "non-NULL" : "NULL");
	} else if (q != NULL && escapes_valid(q, strlen(q))) {
		norm(q, strlen(q), tmp_a);
		if (strcmp(tmp_a, R.query) != 0) viol("component/query-mismatch", NULL, input, "query \"%s\" expected \"%s\"", esc(q), esc(R.query));
	}
	if ((f != NULL) != R.has_frag) {
		viol("component/fragment-mismatch", NULL, input, "fragment is %s", f ? "non-NULL" : "NULL");
	} else if (f != NULL && escapes_valid(f, strlen(f))) {
		norm(f, strlen(f), tmp_a);
		if (strcmp(tmp_a, R.frag) != 0) viol("component/fragment-mismatch", NULL, input, "fragment \"%s\" expected \"%s\"", esc(f), esc(R.frag));
	}
}

static void
check_roundtrip(const nng_url *u, const char *input, uint64_t h)
{
	char why[900];
	int  n = nng_url_sprintf(NULL, 0, u);
	if (n < 0 || n > 4 * MAXIN) {
		viol("sprintf/length", NULL, input, "nng_url_sprintf(NULL,0) returned %d", n);
		return;
	}
	char *buf = malloc((size_t) n + 1);
	memset(buf, 0x7e, (size_t) n + 1);
	int n2 = nng_url_sprintf(buf, (size_t) n + 1, u);
	if (n2 != n || memchr(buf, 0, (size_t) n + 1) == NULL || strlen(buf) != (size_t) n) {
		viol("sprintf/length", NULL, input, "size query said %d, formatting returned %d, wrote %zu bytes", n, n2,
		    memchr(buf, 0, (size_t) n + 1) ? strlen(buf) : (size_t) n + 1);
		free(buf);
		return;
	}
	if (n > 0) { // truncating call into an exact-size block
		size_t k = 1 + (size_t) (h % (uint64_t) n);
		char  *tb = malloc(k);
		memset(tb, 0x7e, k);
		(void) nng_url_sprintf(tb, k, u);
		if (memchr(tb, 0, k) == NULL) viol("sprintf/unterminated", NULL, input, "buffer of %zu bytes for a %d byte URL not NUL-terminated", k, n);
		free(tb);
		n_trunc++;
	}
	nng_url *u2 = NULL;
	int      rv = nng_url_parse(&u2, buf);
	n_round++;
	if (rv != 0) {
		viol("roundtrip/reparse-rejected", rt_feature(&S), input, "formatted \"%s\" is rejected with %d (%s)", esc(buf), rv, nng_strerror(rv));
	} else {
		const char *d = cmp_snap(u2, &S, false, false, why, sizeof(why));
		if (d != NULL) {
			char disc[48];
			snprintf(disc, sizeof(disc), "%s-differs", d);
			viol("roundtrip", disc, input, "formatted \"%s\" parses with %s", esc(buf), why);
		}
		nng_url_free(u2);
	}
	free(buf);
}

// Takes ownership of u (frees it).
static void
check_clone_and_free(nng_url *u, const char *input, int cls, uint64_t h)
{
	char        why[900], disc[80];
	nng_url    *c = NULL;
	const char *cn = cls_names[cls];
	if (quarantine[cls]) {
		n_clone_skip++;
		nng_url_free(u);
		return;
	}
	int rv = nng_url_clone(&c, u);
	n_clone++;
	if (cls & 1) n_clone_heap++;
	if (cls & 2) n_clone_hostless++;
	if (rv != 0 || c == NULL) {
		viol("clone/failed", cn, input, "nng_url_clone returned %d (%s)", rv, nng_strerror(rv));
		nng_url_free(u);
		return;
	}
	const char *d = cmp_snap(c, &S, true, true, why, sizeof(why));
	if (d != NULL) {
		if (!strcmp(d, "storage")) snprintf(disc, sizeof(disc), "shares-storage/%s", cn);
		else snprintf(disc, sizeof(disc), "%s-differs/%s", d, cn);
		viol("clone", disc, input, "clone: %s", why);
		// do not touch the clone's strings any further
		nng_url_free(c);
		nng_url_free(u);
		return;
	}
	uint32_t exp_u = S.port, exp_c = S.port;
	if (S.port == 0) {
		n_portmut++;
		if (h & 4) {
			nng_url_resolve_port(c, 4242);
			exp_c = 4242;
		} else {
			nng_url_resolve_port(u, 4242);
			exp_u = 4242;
		}
		if (nng_url_port(u) != exp_u || nng_url_port(c) != exp_c) {
			viol("clone/not-independent", "port", input, "after nng_url_resolve_port on the %s: source port %u clone port %u",
			    (h & 4) ? "clone" : "source", nng_url_port(u), nng_url_port(c));
		}
	}
	if (h & 2) {
		n_free_src_first++;
		nng_url_free(u);
		S.port = exp_c;
		d = cmp_snap(c, &S, true, true, why, sizeof(why));
		if (d != NULL) {
			snprintf(disc, sizeof(disc), "changed-after-source-freed/%s", cn);
			viol("clone", disc, input, "%s", why);
		}
		nng_url_free(c);
	} else {
		n_free_clone_first++;
		nng_url_free(c);
		S.port = exp_u;
		d = cmp_snap(u, &S, true, true, why, sizeof(why));
		if (d != NULL) {
			snprintf(disc, sizeof(disc), "source-changed-after-clone-freed/%s", cn);
			viol("clone", disc, input, "%s", why);
		}
		nng_url_free(u);
	}
}

// every string of a freshly parsed URL lies inside the storage it records
static bool
check_storage(const nng_url *u, const char *input, const char *what)
{
	const char *comp[5] = { nng_url_userinfo(u), nng_url_hostname(u), nng_url_path(u), nng_url_query(u), nng_url_fragment(u) };
	static const char *const cn[5] = { "userinfo", "hostname", "path", "query", "fragment" };
	n_storage++;
	if (u->u_bufsz == 0 && u->u_buffer != u->u_static) {
		viol("storage/inline-buffer-pointer", what, input, "u_bufsz is 0 but u_buffer does not point at u_static");
		return false;
	}
	for (int k = 0; k < 5; k++) {
		if (comp[k] != NULL && !in_own_storage(u, comp[k])) {
			char disc[64];
			snprintf(disc, sizeof(disc), "%s/%s/%s", cn[k], what, u->u_bufsz ? "heap" : "inline");
			viol("storage/string-outside-buffer", disc, input, "%s is not a terminated string inside the %s buffer of %zu bytes",
			    cn[k], u->u_bufsz ? "heap" : "inline", u->u_bufsz ? u->u_bufsz : sizeof(u->u_static));
			return false;
		}
	}
	return true;
}

// The embedded forms: dialers and listeners hold a struct nng_url inside
// their own object, filled by nni_url_clone_inline (create_url) or
// nni_url_parse_inline (create from a string).  What the endpoint reports
// must equal what nng_url_parse gave for the same input.
static const char *const ep_forms[4] = { "dialer-url", "dialer-string", "listener-url", "listener-string" };

static void
check_endpoint(const nng_url *u, const char *input, uint64_t h, bool heap)
{
	char           why[900], disc[96];
	int            form = (int) (h & 3), rv;
	nng_dialer     d = NNG_DIALER_INITIALIZER;
	nng_listener   l = NNG_LISTENER_INITIALIZER;
	const nng_url *eu = NULL;
	if (!ep_ready) return;
	n_ep_try++;
	switch (form) {
	case 0: rv = nng_dialer_create_url(&d, ep_sock, u); break;
	case 1: rv = nng_dialer_create(&d, ep_sock, input); break;
	case 2: rv = nng_listener_create_url(&l, ep_sock, u); break;
	default: rv = nng_listener_create(&l, ep_sock, input); break;
	}
	if (rv == NNG_ENOTSUP) {
		n_ep_notsup++;
		return;
	}
	if (rv != 0) { // the transport does not like this address
		n_ep_refused++;
		vf_class("endpoint|refused|%s|%s|rv=%d", ep_forms[form], S.scheme, rv);
		return;
	}
	rv = form < 2 ? nng_dialer_get_url(d, &eu) : nng_listener_get_url(l, &eu);
	if (rv != 0 || eu == NULL) {
		viol("endpoint/get-url-failed", ep_forms[form], input, "get_url returned %d", rv);
	} else {
		n_ep_ok++;
		n_ep_form[form]++;
		if (heap) n_ep_ok_heap++;
		vf_class("endpoint|ok|%s|%s|%s", ep_forms[form], S.scheme, heap ? "heap" : "inline");
		const char *dd = cmp_snap(eu, &S, true, true, why, sizeof(why));
		if (dd != NULL) {
			snprintf(disc, sizeof(disc), "%s-differs/%s/%s", dd, ep_forms[form], heap ? "heap" : "inline");
			viol("endpoint", disc, input, "%s reports %s", ep_forms[form], why);
		}
	}
	if (form < 2) nng_dialer_close(d);
	else nng_listener_close(l);
}

static const char *const hk_names[] = { "-", "empty", "name", "v4", "v6", "odd" };

// Authority bookkeeping for the case just judged (R is its reference result).
// judged_*: inputs the reference refuses for the two judged authority rules
// (an acceptance is a strict/ violation).  base_*: the open classes among the
// inputs the reference accepts as a whole - in mode enum (deterministic) these
// are the differential baseline the spec pins exactly.
static long n_judged_ctl, n_judged_v6, n_judged_v6_valid_acc, n_judged_v6_valid;
static long n_base_driven[N_OPEN], n_base_acc[N_OPEN], n_base_rej[N_OPEN];

static void
note_authority(bool accepted)
{
	if (R.scheme < 0 || R.hostless) return;
	if (!R.accept) {
		if (!strcmp(R.reason, "authority-blank-or-control")) n_judged_ctl++;
		if (!strcmp(R.reason, "authority-bracket-not-an-address")) n_judged_v6++;
		return;
	}
	if (R.path_utf8 != U_OK || !R.qf_utf8_ok) return;
	if (R.bracketed && !(R.open & (OP_IPVFUTURE | OP_ZONE_ODD))) { // vacuity guard: a plain IPv6 literal must be seen accepted
		n_judged_v6_valid++;
		if (accepted) n_judged_v6_valid_acc++;
	}
	for (int i = 0; i < N_OPEN; i++) {
		if (R.open & (1u << i)) {
			n_base_driven[i]++;
			if (accepted) n_base_acc[i]++;
			else n_base_rej[i]++;
		}
	}
}
static const char *const pk_names[] = { "none", "num", "svc", "bad" };

// Judge one input.  wl: workload tag for classes; cdetail: extra class text
// (may be NULL).  Returns true if nng accepted.
static bool
run_case(const char *in, const char *wl, const char *cdetail)
{
	size_t   len = strlen(in);
	char    *input = malloc(len + 1); // exact size: ASan sees any over-read
	nng_url *u = NULL;
	memcpy(input, in, len + 1);
	uint64_t h = vf_mix64(vf_crc32(input, len) ^ vf_seed);

	n_cases++;
	ref_parse(input, &R);
	const char *sep = strstr(input, "://");
	bool        heap = sep != NULL && strlen(sep) >= 128;
	int         rv = nng_url_parse(&u, input);

	if (rv != 0) {
		n_reject++;
		if (R.accept && (R.hostless || (R.path_utf8 == U_OK && R.qf_utf8_ok))) {
			// which kind of string was refused although the reference accepts it
			bool mb = false;
			for (const char *c = R.hostless ? "" : strpbrk(R.rest, "/?#"); c != NULL && *c; c++) {
				unsigned char b = (unsigned char) *c;
				if (b == '%' && is_hex((unsigned char) c[1]) && is_hex((unsigned char) c[2])) b = (unsigned char) (hexv((unsigned char) c[1]) * 16 + hexv((unsigned char) c[2]));
				if (b >= 0xe0) mb = true;
			}
			n_overstrict++;
			// Explained: the reference is lenient where the statement is
			// not specific (odd characters in a registered name, user info
			// or zone, IPvFuture), so nng may legitimately be stricter
			// there; in mode enum these classes are pinned exactly (base_*).
			// Anything else is an unexplained refusal and
			// makes the "accepts only if" verdict partly vacuous.
			const char *ok = R.hostless ? "other" : (R.open & (OP_REG_SUBDELIM | OP_REG_BRACKET | OP_REG_HIGH | OP_REG_ASCII)) ? "odd-host"
			    : (R.open & OP_IPVFUTURE) ? "ipvfuture-literal" : (R.open & OP_ZONE_ODD) ? "odd-zone" : (R.open & OP_UI_ODD) ? "odd-userinfo" : mb ? "3-4-byte-utf8" : "other";
			bool        unexplained = !strcmp(ok, "other") || !strcmp(ok, "3-4-byte-utf8");
			if (unexplained) n_overstrict_unexplained++;
			vf_stat(!strcmp(ok, "other") ? "overstrict_other" : !strcmp(ok, "3-4-byte-utf8") ? "overstrict_with_3or4_byte_utf8" : "overstrict_explained", 1);
			vf_class("%s|overstrict|rv=%d|%s|%s|%s", wl, rv, ref_schemes[R.scheme], ok, cdetail ? cdetail : "");
			if (n_overstrict <= 2 || unexplained) vf_sample("{\"overstrict_rejected\":\"%s\",\"rv\":%d,\"kind\":\"%s\"}", esc(input), rv, ok);
		} else if (cdetail != NULL) {
			vf_class("%s|rej|%s|%s", wl, R.accept ? u_names[R.path_utf8] : R.reason, cdetail);
		} else {
			vf_class("%s|rej|rv=%d|%s", wl, rv, R.accept ? (R.path_utf8 ? u_names[R.path_utf8] : "qf-utf8") : R.reason);
		}
		note_authority(false);
		free(input);
		return false;
	}
	n_accept++;
	if (heap) n_heap_urls++;
	if (u == NULL) {
		viol("parse/null-result", NULL, input, "nng_url_parse returned 0 but no URL");
		free(input);
		return true;
	}
	take_snap(u, &S);
	note_authority(true);
	if (!check_storage(u, input, "parse")) { // do not read strings that are not strings
		nng_url_free(u);
		free(input);
		return true;
	}

	const char *sc = nng_url_scheme(u);
	bool        nohost = sc != NULL && scheme_hostless(sc);
	if (nohost) n_hostless_acc++;
	if (!R.accept) {
		n_strict_fired++;
		viol("strict", R.reason, input, "accepted (scheme \"%s\" host \"%s\" port %u path \"%s\")", sc ? sc : "(null)",
		    S.hh ? esc(S.host) : "(null)", S.port, S.hp ? esc(S.path) : "(null)");
	} else {
		check_vs_ref(u, input);
	}
	if (!nohost) {
		check_canon(u, input);
		const char *p = nng_url_path(u);
		if (p != NULL) {
			size_t dl = decode_all(p, dec_tmp);
			int    k = utf8_check(dec_tmp, dl);
			if (k != U_OK) {
				char disc[48];
				n_strict_fired++;
				snprintf(disc, sizeof(disc), "utf8-%s", u_names[k]);
				viol("strict", disc, input, "accepted with path \"%s\"", esc(p));
			}
			if (cdetail != NULL) vf_class("%s|acc|%s|%s", wl, u_names[k], cdetail);
		}
	}
	if (cdetail == NULL) {
		if (nohost) {
			vf_class("%s|acc|%s|%s|%s", wl, sc, heap ? "heap" : "inline", R.accept ? "ref-ok" : R.reason);
		} else {
			vf_class("%s|acc|%s|ui%d|h=%s|p=%s|pf=%x|q%d|f%d|%s", wl, heap ? "heap" : "inline", S.hu, hk_names[R.hostkind],
			    pk_names[R.portkind], R.pf, S.hq, S.hf, R.accept ? "ref-ok" : R.reason);
		}
	}
	check_roundtrip(u, input, h >> 8);
	if (((h >> 40) & 15) == 0 || (heap && ((h >> 40) & 3) == 0)) check_endpoint(u, input, h >> 44, heap);
	check_clone_and_free(u, input, (nohost ? 2 : 0) | (heap ? 1 : 0), h);
	free(input);
	return true;
}

// ---------------------------------------------------------------- canaries
// One representative URL per clone class is first cloned in a forked child
// (before nng_init, single threaded): a class whose clone path crashes is
// reported once and then skipped in-process, so that one defect does not
// cost the evidence of the whole worker.  The white-box part clones with the
// destination below and above the source, because UBSan's pointer-overflow
// check depends on the relative placement.
#define CANARY_BASE 1000000000L

static void
canary_child(const char *in)
{
	for (int order = 0; order < 2; order++) {
		nng_url *a = calloc(2, sizeof(*a));
		nng_url *src = &a[order], *dst = &a[1 - order];
		if (nni_url_parse_inline(src, in) == 0) {
			if (nni_url_clone_inline(dst, src) == 0) {
				nni_url_fini(dst);
			}
			nni_url_fini(src);
		}
		free(a);
	}
	run_case(in, "canary", NULL);
}

static void
run_canaries(void)
{
	char big1[400], big2[400];
	snprintf(big1, sizeof(big1), "tcp://user@Host.Example:7/%0150d/x?q=1#f", 7);
	snprintf(big2, sizeof(big2), "inproc://%0200d", 9);
	const char *inputs[4] = { "http://user@Host.Example:8080/a/b?q=1#f", big1, "ipc:///tmp/c19.sock", big2 };
	for (int cls = 0; cls < 4; cls++) {
		long idx = CANARY_BASE + cls;
		if (!vf_want_case(idx)) continue;
		vf_case_begin(idx, "canary %s: %s", cls_names[cls], inputs[cls]);
		int pfd[2];
		if (pipe(pfd) != 0) vf_harness_fail("pipe: %s", strerror(errno));
		fflush(NULL);
		pid_t pid = fork();
		if (pid < 0) vf_harness_fail("fork: %s", strerror(errno));
		if (pid == 0) {
			close(pfd[0]);
			dup2(pfd[1], 2);
			signal(SIGABRT, SIG_DFL);
			alarm(60);
			canary_child(inputs[cls]);
			_exit(0);
		}
		close(pfd[1]);
		static char txt[16384];
		size_t      got = 0;
		ssize_t     r;
		while ((r = read(pfd[0], txt + got, sizeof(txt) - 1 - got)) > 0 || (r < 0 && errno == EINTR)) {
			if (r > 0) got += (size_t) r;
			if (got >= sizeof(txt) - 1) { // drain
				char sink[4096];
				while (read(pfd[0], sink, sizeof(sink)) > 0) {
				}
				break;
			}
		}
		txt[got] = 0;
		close(pfd[0]);
		int st = 0;
		while (waitpid(pid, &st, 0) < 0 && errno == EINTR) {
		}
		vf_stat("canaries", 1);
		if (WIFEXITED(st) && WEXITSTATUS(st) == 0) continue;
		quarantine[cls] = true;
		const char *e = strstr(txt, "runtime error:");
		if (e == NULL) e = strstr(txt, "ERROR: AddressSanitizer");
		if (e == NULL) e = got > 600 ? txt + got - 600 : txt;
		char exc[700];
		snprintf(exc, sizeof(exc), "%s", e);
		char key[96];
		snprintf(key, sizeof(key), "C19/clone/crash/%s", cls_names[cls]);
		vf_violation(key, "cloning \"%s\" in a child process died (%s %d): %s", esc(inputs[cls]),
		    WIFSIGNALED(st) ? "signal" : "exit", WIFSIGNALED(st) ? WTERMSIG(st) : WEXITSTATUS(st), exc);
		if (vf_verbose) fprintf(stderr, "%s\n", txt);
	}
}

// ---------------------------------------------------------------- builders
typedef struct {
	char   s[MAXIN];
	size_t n;
} sb;
static void
sb_init(sb *b)
{
	b->n = 0;
	b->s[0] = 0;
}
static void
sb_addn(sb *b, const char *s, size_t n)
{
	if (b->n + n > MAXIN - 1) n = MAXIN - 1 - b->n;
	memcpy(b->s + b->n, s, n);
	b->n += n;
	b->s[b->n] = 0;
}
static void
sb_add(sb *b, const char *s)
{
	sb_addn(b, s, strlen(s));
}
static void
sb_addc(sb *b, char c)
{
	sb_addn(b, &c, 1);
}
static void
sb_pct(sb *b, unsigned v, bool lower)
{
	char t[4];
	snprintf(t, sizeof(t), lower ? "%%%02x" : "%%%02X", v & 0xff);
	sb_add(b, t);
}
static void
sb_fill(sb *b, char c, size_t n)
{
	while (n-- > 0) sb_addc(b, c);
}

// ---------------------------------------------------------------- enum mode
static long e_idx;
static long e_done;
static long n_utf8_enum, n_utf8_valid[3], n_utf8_valid_acc[3];

static bool
e_take(void)
{
	long i = e_idx++;
	if ((i % vf_nshards) != vf_shard || !vf_want_case(i)) return false;
	if ((++e_done & 0x3ff) == 0) vf_watchdog(120);
	return true;
}

static const char *const followers_pct[4] = { "", "z", "%C3%A9", "?k" };
static const char *const followers_raw[4] = { "", "z", "\xc3\xa9", "?k" };
static const char *const fol_names[4] = { "end", "ascii", "seq", "query" };

// Where the sequence stands (audit r2 gap 4): the validator runs after the
// escape, slash and dot-segment passes, so the sequence is also placed right
// behind a removed dot segment, behind a collapsed "//", across offset 128 of
// the remainder (inline vs heap copy), in a host-less scheme (must NOT be
// validated) and split by a kept escape (never valid).
enum { UP_PLAIN, UP_DOTSEG, UP_DUPSLASH, UP_AT128, UP_HOSTLESS, UP_SPLIT, N_UP };
static const char *const up_names[N_UP] = { "plain", "after-dot-segment", "after-dup-slash", "across-128", "hostless", "split-by-kept-escape" };
static int  utf8_pos = UP_PLAIN;
static long n_up_cases[N_UP], n_up_valid[N_UP], n_up_valid_acc[N_UP], n_up_hostless, n_up_hostless_acc;

// bytes b[0..n) placed at the end of the path, percent-encoded or raw
static void
utf8_case(const int *b, int n, int fol, bool raw, const char *wl)
{
	sb   u;
	char cd[64], desc[80];
	int  dl = 0;
	for (int i = 0; i < n; i++) {
		if (raw && b[i] == 0) return; // cannot be written raw
		dl += snprintf(desc + dl, sizeof(desc) - (size_t) dl, "%02X", b[i]);
	}
	vf_case_begin(e_idx - 1, "%s %s %s follower=%s pos=%s", wl, desc, raw ? "raw" : "pct", fol_names[fol], up_names[utf8_pos]);
	sb_init(&u);
	switch (utf8_pos) {
	case UP_DOTSEG: sb_add(&u, "http://h/x/../"); break;
	case UP_DUPSLASH: sb_add(&u, "http://h/a//"); break;
	case UP_AT128: sb_add(&u, "http://h/"); sb_fill(&u, 'a', 120); sb_addc(&u, '/'); break; // 126 bytes after the scheme
	case UP_HOSTLESS: sb_add(&u, "inproc://"); break;
	default: sb_add(&u, "http://h/p/"); break;
	}
	for (int i = 0; i < n; i++) {
		if (raw) sb_addc(&u, (char) b[i]);
		else sb_pct(&u, (unsigned) b[i], (b[i] & 1) != 0);
		if (i == 0 && utf8_pos == UP_SPLIT) sb_add(&u, "%2F");
	}
	sb_add(&u, raw ? followers_raw[fol] : followers_pct[fol]);
	if (utf8_pos != UP_PLAIN) snprintf(cd, sizeof(cd), "%s|%s|%s", raw ? "raw" : "pct", fol_names[fol], up_names[utf8_pos]);
	else snprintf(cd, sizeof(cd), "%s|%s", raw ? "raw" : "pct", fol_names[fol]);
	bool acc = run_case(u.s, wl, cd);
	if (utf8_pos != UP_PLAIN) {
		uint8_t r4[4];
		for (int i = 0; i < n; i++) r4[i] = (uint8_t) b[i];
		n_up_cases[utf8_pos]++;
		if (utf8_pos == UP_HOSTLESS) { // opaque string: whatever the bytes are
			n_up_hostless++;
			if (acc) n_up_hostless_acc++;
		} else if (n >= 2 && b[0] >= 0xc2 && utf8_check(r4, (size_t) n) == U_OK && R.accept && R.path_utf8 == U_OK && R.qf_utf8_ok) {
			n_up_valid[utf8_pos]++;
			if (acc) n_up_valid_acc[utf8_pos]++;
		}
		return;
	}
	n_utf8_enum++;
	// vacuity guard: a well-formed multi-byte sequence (as bytes), in an
	// input the reference accepts as a whole, must be seen accepted -
	// otherwise the strict/utf8-* oracles pass trivially
	uint8_t raw4[4];
	for (int i = 0; i < n; i++) raw4[i] = (uint8_t) b[i];
	if (n >= 2 && b[0] >= 0xc2 && utf8_check(raw4, (size_t) n) == U_OK && R.accept && R.path_utf8 == U_OK && R.qf_utf8_ok) {
		int k = b[0] < 0xe0 ? 0 : b[0] < 0xf0 ? 1 : 2;
		n_utf8_valid[k]++;
		if (acc) n_utf8_valid_acc[k]++;
	}
}

static void
enum_utf8(void)
{
	int b[4];
	// all byte pairs
	for (b[0] = 0; b[0] < 256; b[0]++)
		for (b[1] = 0; b[1] < 256; b[1]++)
			for (int f = 0; f < 4; f++)
				for (int raw = 0; raw < 2; raw++)
					if (e_take()) utf8_case(b, 2, f, raw, "utf8-2");
	// three bytes: every lead E0..EF x every second byte x every third byte
	// (percent-encoded; raw: boundary third bytes in the quick tier)
	static const int t3q[] = { -1, 0x7f, 0x80, 0x8f, 0x90, 0x9f, 0xa0, 0xbf, 0xc0, 0xc2, 0xe0, 0xff };
	for (int raw = 0; raw < 2; raw++) {
		int nt3 = (vf_tier || !raw) ? 257 : (int) (sizeof(t3q) / sizeof(t3q[0]));
		for (b[0] = 0xe0; b[0] < 0xf0; b[0]++)
			for (b[1] = 0; b[1] < 256; b[1]++)
				for (int t = 0; t < nt3; t++)
					for (int f = 0; f < 4; f++) {
						if (!e_take()) continue;
						b[2] = nt3 == 257 ? t - 1 : t3q[t];
						utf8_case(b, b[2] < 0 ? 2 : 3, f, raw, "utf8-3");
					}
	}
	// four bytes: leads F0..FF x every second byte x boundary third/fourth
	static const int t4q[] = { -1, 0x80, 0xbf, 0xc0 };
	static const int t4t[] = { -1, 0x00, 0x7f, 0x80, 0x8f, 0x90, 0xbf, 0xc0, 0xff };
	const int       *t4 = vf_tier ? t4t : t4q;
	int              nt4 = vf_tier ? 9 : 4;
	for (b[0] = 0xf0; b[0] < 256; b[0]++)
		for (b[1] = 0; b[1] < 256; b[1]++)
			for (int t = 0; t < nt4; t++)
				for (int v = 0; v < nt4; v++)
					for (int f = 0; f < 4; f++) {
						if (!e_take()) continue;
						b[2] = t4[t];
						b[3] = t4[v];
						int n = b[2] < 0 ? 2 : b[3] < 0 ? 3 : 4;
						if (b[2] < 0 && b[3] >= 0) continue; // same as n=2
						utf8_case(b, n, f, false, "utf8-4");
					}
}

// all percent-encoded byte pairs and the boundary 3/4-byte tables at the five other positions
static void
enum_utf8_positions(void)
{
	static const int bd[] = { 0x00, 0x7f, 0x80, 0x8f, 0x90, 0x9f, 0xa0, 0xbf, 0xc0 };
	enum { NBD = 9 };
	int b[4];
	for (utf8_pos = UP_DOTSEG; utf8_pos < N_UP; utf8_pos++) {
		for (b[0] = 0; b[0] < 256; b[0]++)
			for (b[1] = 0; b[1] < 256; b[1]++)
				if (e_take()) utf8_case(b, 2, 0, false, "utf8-pos");
		for (b[0] = 0xc2; b[0] < 0xf5; b[0] += (b[0] == 0xc2 ? 0xdf - 0xc2 : 1)) // C2, DF, E0 .. F4 raw as well
			for (int t = 0; t < NBD; t++)
				for (int v = -1; v < NBD; v++)
					for (int w = -1; w < NBD; w++) {
						if (!e_take()) continue;
						if (v < 0 && w >= 0) continue;
						b[1] = bd[t];
						b[2] = v < 0 ? 0 : bd[v];
						b[3] = w < 0 ? 0 : bd[w];
						utf8_case(b, v < 0 ? 2 : w < 0 ? 3 : 4, (t + v + w) & 3, true, "utf8-pos");
					}
		for (b[0] = 0xe0; b[0] < 256; b[0]++)
			for (int t = 0; t < NBD; t++)
				for (int v = 0; v < NBD; v++)
					for (int w = -1; w < NBD; w++) {
						if (!e_take()) continue;
						if (w >= 0 && b[0] < 0xf0) continue; // three-byte leads: no fourth byte
						b[1] = bd[t];
						b[2] = bd[v];
						b[3] = w < 0 ? 0 : bd[w];
						utf8_case(b, w < 0 ? 3 : 4, (t + v) & 3, false, "utf8-pos");
					}
	}
	utf8_pos = UP_PLAIN;
}

static void
enum_schemes(void)
{
	static const char *const seps[] = { "://", ":/", ":", "//", ":///", "", ";//", ":\\\\" };
	static const char *const rems[] = { "host:80/p", "", "/x", "a" };
	for (int i = 0; i < NSCHEMES; i++) {
		const char *s = ref_schemes[i];
		size_t      l = strlen(s);
		char        var[64][24];
		const char *vn[64];
		int         nv = 0;
		snprintf(var[nv], 24, "%s", s); vn[nv++] = "exact";
		for (size_t k = 0; k < l; k++) { snprintf(var[nv], 24, "%.*s", (int) k, s); vn[nv++] = k ? "prefix" : "empty"; }
		static const char ext[] = "x4s+6";
		for (size_t k = 0; k < 5; k++) { snprintf(var[nv], 24, "%s%c", s, ext[k]); vn[nv++] = "extended"; }
		snprintf(var[nv], 24, "%s", s); var[nv][0] = (char) toupper((unsigned char) s[0]); vn[nv++] = "capitalised";
		snprintf(var[nv], 24, "%s", s); for (char *c = var[nv]; *c; c++) *c = (char) toupper((unsigned char) *c); vn[nv++] = "upper";
		snprintf(var[nv], 24, "%s", s); var[nv][l - 1] = (char) toupper((unsigned char) s[l - 1]); vn[nv++] = "last-upper";
		snprintf(var[nv], 24, " %s", s); vn[nv++] = "leading-space";
		snprintf(var[nv], 24, "%s", s); var[nv][l - 1] = 'q'; vn[nv++] = "last-replaced";
		snprintf(var[nv], 24, "%s", s + 1); vn[nv++] = "first-dropped";
		snprintf(var[nv], 24, "%.*s", (int) (l - 1), s); var[nv][0] = (char) toupper((unsigned char) s[0]); vn[nv++] = "prefix-capitalised";
		for (int v = 0; v < nv; v++) {
			for (size_t sp = 0; sp < sizeof(seps) / sizeof(seps[0]); sp++) {
				if (sp > 0 && v > 3) continue; // odd separators only with a few variants
				for (size_t rm = 0; rm < 4; rm++) {
					if (!e_take()) continue;
					sb u;
					sb_init(&u);
					sb_add(&u, var[v]);
					sb_add(&u, seps[sp]);
					sb_add(&u, rems[rm]);
					vf_case_begin(e_idx - 1, "scheme %s of %s: %s", vn[v], s, u.s);
					char cd[64];
					snprintf(cd, sizeof(cd), "%s|sep%zu", vn[v], sp);
					run_case(u.s, "scheme", NULL);
					vf_class("scheme-variant|%s|%s", cd, s);
					vf_stat("scheme_variants", 1);
				}
			}
		}
	}
}

// remainder ("://" + rest) of exactly L bytes, several shapes
static void
enum_lengths(void)
{
	enum { NT = 16 };
	for (int L = 100; L <= 400; L++) {
		for (int t = 0; t < NT; t++) {
			if (!e_take()) continue;
			sb          u;
			const char *scheme = "tcp";
			size_t      want = (size_t) L - 3; // bytes after "://"
			sb_init(&u);
			switch (t) {
			case 0: scheme = "tcp"; sb_add(&u, "h/"); sb_fill(&u, 'a', want - 2); break;
			case 1: scheme = "http"; sb_fill(&u, 'H', want > 300 ? 255 : want - 2); sb_add(&u, "/"); sb_fill(&u, 'b', want - u.n); break;
			case 2: scheme = "ws"; sb_add(&u, "h/p?"); sb_fill(&u, 'q', want - 4); break;
			case 3: scheme = "wss"; sb_add(&u, "h/#"); sb_fill(&u, 'f', want - 3); break;
			case 4: scheme = "tcp"; sb_fill(&u, 'u', want - 4); sb_add(&u, "@h:9"); break;
			case 5: scheme = "http"; sb_add(&u, "h/"); while (u.n + 3 <= want) sb_add(&u, "%41"); sb_fill(&u, 'z', want - u.n); break;
			case 6: scheme = "http"; sb_add(&u, "h"); while (u.n + 5 <= want) sb_add(&u, "/a/.."); sb_fill(&u, 'z', want - u.n); break;
			case 7: scheme = "tls+tcp"; sb_add(&u, "[::1]:65535/"); while (u.n + 2 <= want) sb_add(&u, "\xc3\xa9"); sb_fill(&u, 'z', want - u.n); break;
			case 8: scheme = "ipc"; sb_add(&u, "/tmp/"); sb_fill(&u, 's', want - 5); break;
			case 9: scheme = "inproc"; sb_fill(&u, 'i', want); break;
			case 10: scheme = "abstract"; while (u.n + 3 <= want) sb_add(&u, "%00"); sb_fill(&u, 'z', want - u.n); break;
			case 11: scheme = "socket"; sb_fill(&u, '9', want); break;
			case 12: scheme = "unix"; sb_add(&u, "./"); sb_fill(&u, 'x', want - 2); break;
			case 13: scheme = "http"; sb_add(&u, "h:80"); while (u.n + 2 <= want) sb_add(&u, "//"); sb_fill(&u, 'z', want - u.n); break;
			case 14: scheme = "udp"; sb_add(&u, "U@H.Example/"); sb_fill(&u, 'p', (want - u.n) / 2); sb_add(&u, "?"); sb_fill(&u, 'q', (want - u.n) / 2); sb_add(&u, "#"); sb_fill(&u, 'f', want - u.n); break;
			default: scheme = "http"; sb_fill(&u, 'h', want); break; // host only: < 256 accepted
			}
			char full[MAXIN];
			snprintf(full, sizeof(full), "%s://%s", scheme, u.s);
			vf_case_begin(e_idx - 1, "length %d shape %d scheme %s", L, t, scheme);
			bool acc = run_case(full, "len", NULL);
			vf_class("len|shape%d|%s|%s", t, L < 128 ? "<128" : L == 128 ? "128" : L < 256 ? "129-255" : "256+", acc ? "acc" : "rej");
			vf_stat("length_sweep", 1);
		}
	}
}

static void
enum_authority(void)
{
	static const char *const schemes[] = { "tcp", "http", "wss", "tls+tcp6" };
	static const char *const hosts[] = { "", "h", "Host.Example.COM", "1.2.3.4", "[::1]", "[fe80::1%lo]", "[::FFFF:1.2.3.4]",
		"[]", "[", "[::1", "[::1]x", "]", "a[b]", "[[a]", "[a]]", "u@h", "u:p@h", "u@v@h", "@h", "u@", "u@[::1]", "[a@b]", "h h",
		"h%41", "\xc3\xa9.example", "*" };
	static const char *const ports[] = { "", ":", ":0", ":1", ":80", ":080", ":443", ":65535", ":65536", ":99999", ":4294967296",
		":18446744073709551616", ":-1", ":-0", ":+80", ": 80", ":\t80", ":80 ", ":http", ":HTTP", ":https", ":domain", ":nosuchsvc",
		":8o", ":0x50", ":80:90", "::80", ":00000000000000000080", ":+", ":-", ":65535x", ":0000065536" };
	static const char *const tails[] = { "", "/", "/p?q#f" };
	for (size_t s = 0; s < 4; s++)
		for (size_t h = 0; h < sizeof(hosts) / sizeof(hosts[0]); h++)
			for (size_t p = 0; p < sizeof(ports) / sizeof(ports[0]); p++)
				for (size_t t = 0; t < 3; t++) {
					if (!e_take()) continue;
					char full[256];
					snprintf(full, sizeof(full), "%s://%s%s%s", schemes[s], hosts[h], ports[p], tails[t]);
					vf_case_begin(e_idx - 1, "authority: %s", full);
					bool acc = run_case(full, "auth", NULL);
					vf_class("auth|host%zu|port%zu|%s", h, p, acc ? "acc" : "rej");
					vf_stat("authority_matrix", 1);
				}
}

// Every byte value at every place of the authority (audit r2 gap 1): raw in
// a registered name (start, middle, end), in the user info, inside a bracketed
// literal and inside its zone identifier, and as %XX in the registered name
// and in the user info (gap 2: unreserved escapes in the host).  This is the
// deterministic population on which the judged authority rules must hold and
// on which the open classes are pinned (base_* stats).
static void
enum_hostbytes(void)
{
	static const char *const schemes[] = { "tcp", "http" };
	static const char *const ports[] = { "", ":80" };
	static const char *const tails[] = { "", "/p?q#f" };
	static const char *const tn[] = { "reg-mid", "reg-start", "reg-end", "userinfo", "literal", "zone", "reg-pct", "userinfo-pct" };
	for (int t = 0; t < 8; t++)
		for (int b = 0; b < 256; b++)
			for (int k = 0; k < 8; k++) {
				if (!e_take()) continue;
				if (b == 0 && t < 6) continue; // a raw NUL ends the string
				char a[64], x[8], full[160];
				if (t < 6) snprintf(x, sizeof(x), "%c", b);
				else snprintf(x, sizeof(x), (b & 1) ? "%%%02x" : "%%%02X", b);
				switch (t) {
				case 0: snprintf(a, sizeof(a), "A%sc", x); break;
				case 1: snprintf(a, sizeof(a), "%sac", x); break;
				case 2: snprintf(a, sizeof(a), "ac%s", x); break;
				case 3: snprintf(a, sizeof(a), "u%sv@h", x); break;
				case 4: snprintf(a, sizeof(a), "[::%s1]", x); break;
				case 5: snprintf(a, sizeof(a), "[fe80::1%%e%s0]", x); break;
				case 6: snprintf(a, sizeof(a), "A%sc.Example", x); break;
				default: snprintf(a, sizeof(a), "u%sv@h", x); break;
				}
				snprintf(full, sizeof(full), "%s://%s%s%s", schemes[k & 1], a, ports[(k >> 1) & 1], tails[k >> 2]);
				vf_case_begin(e_idx - 1, "hostbyte %s 0x%02x: %s", tn[t], b, esc(full));
				bool acc = run_case(full, "hostbyte", NULL);
				vf_class("hostbyte|%s|%s|%s|%s", tn[t], b <= 0x20 || b == 0x7f ? "blank-or-control" : b >= 0x80 ? "high" : isalnum(b) ? "alnum" : "punct",
				    acc ? "acc" : "rej", R.accept ? "ref-ok" : R.reason);
				vf_stat("hostbytes", 1);
			}
}

// What may stand between brackets: a table of IPv6 address spellings on both
// sides of the grammar (the reference asks inet_pton), zones, IPvFuture.
static void
enum_literals(void)
{
	static const char *const lits[] = { // addresses
		"::", "::1", "1::", "1:2:3:4:5:6:7:8", "1:2:3:4:5:6:7::", "::2:3:4:5:6:7:8", "1::3:4:5:6:7:8", "1:2:3:4:5:6::8", "1:2:3::6:7:8",
		"::ffff:1.2.3.4", "::FFFF:1.2.3.4", "1:2:3:4:5:6:1.2.3.4", "::1.2.3.4", "1::1.2.3.4", "1:2:3:4:5::1.2.3.4", "::255.255.255.255", "::0.0.0.0",
		"64:ff9b::192.0.2.33", "fe80::1%lo", "fe80::1%25lo", "FE80::A%Eth0", "fe80::1%1", "::1%a.b-c_d~e", "abcd:ef01:2345:6789:abcd:ef01:2345:6789",
		"ABCD:EF01:2345:6789:ABCD:EF01:2345:6789", "0:0:0:0:0:0:0:0", "::0", "1::8", "0000:0000:0000:0000:0000:0000:0000:0001", "::0001", "2001:db8::",
		// not addresses
		"", ":", ":::", "::::", "1", "zz", "a", "g", "1.2.3.4", "1:2", "a:b", "1:2:3:4:5:6:7", "1:2:3:4:5:6:7:8:9", "1:2:3:4:5:6:7:8::", "::1:2:3:4:5:6:7:8",
		"1:2:3:4::5:6:7:8", "1::2::3", "::1::", "12345::", "::12345", "::00001", "g::", "::g", ":1", "1:", "1::2:", ":1::2", "1:::2", "::1.2.3", "::1.2.3.4.5",
		"::256.1.1.1", "::01.2.3.4", "::1.2.3.04", "::1.2.3.4:5", "1.2.3.4::", "1:2:3:4:5:6:7:1.2.3.4", "1:2:3:4:5:6:7:8:1.2.3.4", "::1.2.3.", "::.1.2.3", "::1..2.3",
		"::1.2.3.4.", "::a.2.3.4", "::1.2.3.a", "::1%", "%lo", "%", "::%", "-::1", "+1::", "0x1::", "1::-2", "::1,", "::1;", "::ffff", ":ffff::", "1:2:3:4:5:6:7:",
		"1:2:3:4:5:6:7:8:", ":1:2:3:4:5:6:7:8", "::1\x01", "\x7f::1", ":: 1", " ::1", "::1 ", "::1\t", "fe80::1%l o", "fe80::1% lo", "fe80::1%lo\x1f", "\xc3\xa9::1",
		"::1\xff", "::1%\xc3\xa9", "[::1", "[::1]", "::1[", "fe80::1%[lo", "1:2:3:4:5:6:7::8", "::1:2:3:4:5:6:7", "1:2:3:4:5:6::", "::2:3:4:5:6:7:8:9",
		// IPvFuture
		"v1.x", "V1.X", "vF.a:b", "v1.!$&'()*+,;=", "v1f.~", "v", "v1", "v1.", "v.x", "vg.x", "v1.x y", "v1.x\x01", "v1.a%41", "v1.x]" };
	static const char *const schemes[] = { "tcp", "http", "tls+tcp6" };
	static const char *const ports[] = { "", ":80", ":" };
	static const char *const tails[] = { "", "/p" };
	static const char *const uis[] = { "", "u@" };
	for (size_t l = 0; l < sizeof(lits) / sizeof(lits[0]); l++)
		for (int k = 0; k < 36; k++) {
			if (!e_take()) continue;
			char full[200];
			snprintf(full, sizeof(full), "%s://%s[%s]%s%s", schemes[k % 3], uis[(k / 3) & 1], lits[l], ports[(k / 6) % 3], tails[k / 18]);
			vf_case_begin(e_idx - 1, "literal %zu: %s", l, esc(full));
			bool acc = run_case(full, "literal", NULL);
			vf_class("literal|%zu|port%d|%s|%s", l, (k / 6) % 3, acc ? "acc" : "rej", R.accept ? "ref-ok" : R.reason);
			vf_stat("literals", 1);
		}
}

// Inputs far above MAXIN (audit r2 gap 3): "whatever its length".  The
// reference parser works in fixed arrays, so these cases carry their expected
// result by construction: components, the formatted string, the verdict.
typedef struct {
	bool        accept;
	const char *scheme, *host, *path, *query, *frag; // host NULL: host-less scheme
	uint32_t    port;
	char       *canon; // expected nng_url_sprintf output
} hexp;

static const char *
huge_diff(const nng_url *u, const hexp *e, bool own)
{
	const char *got[4] = { nng_url_hostname(u), nng_url_path(u), nng_url_query(u), nng_url_fragment(u) };
	const char *want[4] = { e->host, e->path, e->query, e->frag };
	static const char *const cn[4] = { "hostname", "path", "query", "fragment" };
	if (nng_url_scheme(u) == NULL || strcmp(nng_url_scheme(u), e->scheme) != 0) return "scheme";
	if (nng_url_port(u) != e->port) return "port";
	for (int i = 0; i < 4; i++) {
		if ((got[i] != NULL) != (want[i] != NULL)) return cn[i];
		if (got[i] == NULL) continue;
		if (own && !in_own_storage(u, got[i])) return "storage";
		if (strcmp(got[i], want[i]) != 0) return cn[i];
	}
	return NULL;
}

static long n_huge, n_huge_acc, n_huge_rej, n_huge_max;

static void
huge_case(const char *input, const hexp *e, const char *shape)
{
	char     disc[96];
	nng_url *u = NULL, *u2 = NULL, *c = NULL;
	size_t   len = strlen(input);
	n_huge++;
	n_cases++;
	if ((long) len > n_huge_max) n_huge_max = (long) len;
	int rv = nng_url_parse(&u, input);
	if (rv != 0) {
		n_reject++;
		n_huge_rej++;
		vf_class("huge|%s|rej|rv=%d|%s", shape, rv, e->accept ? "UNEXPECTED" : "expected");
		if (e->accept) { // over-rejection: not a violation, but the verdict would be vacuous
			n_overstrict++;
			n_overstrict_unexplained++;
			vf_sample("{\"overstrict_rejected_huge\":\"%s\",\"len\":%zu,\"rv\":%d}", shape, len, rv);
		}
		return;
	}
	n_accept++;
	n_huge_acc++;
	n_heap_urls++;
	vf_class("huge|%s|acc|%s", shape, len >= 65536 ? ">=64K" : "<64K");
	if (!e->accept) {
		n_strict_fired++;
		viol("strict", "host-too-long", input, "accepted a %zu byte input (%s)", len, shape);
		nng_url_free(u);
		return;
	}
	const char *d;
	n_storage++;
	if ((d = huge_diff(u, e, true)) != NULL) {
		snprintf(disc, sizeof(disc), "%s-mismatch", d);
		viol(!strcmp(d, "storage") ? "storage/string-outside-buffer" : "component", !strcmp(d, "storage") ? "huge" : disc, input,
		    "%zu byte input (%s): %s differs from the expected component", len, shape, d);
		nng_url_free(u);
		return;
	}
	// format: size query, exact-size block, content
	size_t want = strlen(e->canon);
	int    n = nng_url_sprintf(NULL, 0, u);
	if (n < 0 || (size_t) n != want) {
		viol("sprintf/length", NULL, input, "%zu byte input (%s): size query returned %d, expected %zu", len, shape, n, want);
	} else {
		char *buf = malloc(want + 1);
		memset(buf, 0x7e, want + 1);
		int n2 = nng_url_sprintf(buf, want + 1, u);
		n_round++;
		if (n2 != n || memchr(buf, 0, want + 1) == NULL || strcmp(buf, e->canon) != 0) {
			viol("roundtrip", "formatted-differs", input, "%zu byte input (%s): formatting returned %d and not the expected string", len, shape, n2);
		} else if ((rv = nng_url_parse(&u2, buf)) != 0) {
			viol("roundtrip/reparse-rejected", "other", input, "%zu byte input (%s): formatted URL rejected with %d", len, shape, rv);
		} else {
			if ((d = huge_diff(u2, e, true)) != NULL) {
				snprintf(disc, sizeof(disc), "%s-differs", d);
				viol("roundtrip", disc, input, "%zu byte input (%s): formatted URL parses with a different %s", len, shape, d);
			}
			nng_url_free(u2);
		}
		size_t k = want / 2 + 1; // truncating call
		char  *tb = malloc(k);
		memset(tb, 0x7e, k);
		(void) nng_url_sprintf(tb, k, u);
		if (memchr(tb, 0, k) == NULL) viol("sprintf/unterminated", NULL, input, "buffer of %zu bytes for a %zu byte URL not NUL-terminated", k, want);
		n_trunc++;
		free(tb);
		free(buf);
	}
	int cls = (e->host == NULL ? 2 : 0) | 1;
	if (quarantine[cls]) {
		n_clone_skip++;
		nng_url_free(u);
		return;
	}
	rv = nng_url_clone(&c, u);
	n_clone++;
	n_clone_heap++;
	if (e->host == NULL) n_clone_hostless++;
	if (rv != 0 || c == NULL) {
		viol("clone/failed", cls_names[cls], input, "%zu byte input (%s): nng_url_clone returned %d", len, shape, rv);
		nng_url_free(u);
		return;
	}
	if ((d = huge_diff(c, e, true)) != NULL) {
		if (!strcmp(d, "storage")) snprintf(disc, sizeof(disc), "shares-storage/%s", cls_names[cls]);
		else snprintf(disc, sizeof(disc), "%s-differs/%s", d, cls_names[cls]);
		viol("clone", disc, input, "%zu byte input (%s): clone differs in %s", len, shape, d);
		nng_url_free(c);
		nng_url_free(u);
		return;
	}
	if (len & 1) {
		n_free_src_first++;
		nng_url_free(u);
		if ((d = huge_diff(c, e, true)) != NULL) {
			snprintf(disc, sizeof(disc), "changed-after-source-freed/%s", cls_names[cls]);
			viol("clone", disc, input, "%zu byte input (%s): %s", len, shape, d);
		}
		nng_url_free(c);
	} else {
		n_free_clone_first++;
		nng_url_free(c);
		if ((d = huge_diff(u, e, true)) != NULL) {
			snprintf(disc, sizeof(disc), "source-changed-after-clone-freed/%s", cls_names[cls]);
			viol("clone", disc, input, "%zu byte input (%s): %s", len, shape, d);
		}
		nng_url_free(u);
	}
}

static char *
rep(const char *unit, size_t count, const char *head, const char *tail)
{
	size_t ul = strlen(unit), hl = strlen(head), tl = strlen(tail);
	char  *r = malloc(hl + ul * count + tl + 1), *p = r;
	memcpy(p, head, hl);
	p += hl;
	for (size_t i = 0; i < count; i++, p += ul) memcpy(p, unit, ul);
	memcpy(p, tail, tl + 1);
	return r;
}

static void
enum_huge(void)
{
	static const size_t Ls[] = { 4096, 65535, 65536, 65537, 1u << 20 };
	static const char *const sn[] = { "path-a", "dot-segments", "query", "hostless", "host255-long-path", "host256-long-path", "escapes", "segments", "fragment", "dup-slashes" };
	char h255[260], h256[260];
	memset(h255, 'h', 255);
	h255[255] = 0;
	memset(h256, 'h', 256);
	h256[256] = 0;
	for (size_t li = 0; li < sizeof(Ls) / sizeof(Ls[0]); li++)
		for (int sh = 0; sh < 10; sh++) {
			if (!e_take()) continue;
			size_t L = Ls[li];
			hexp   e = { .accept = true, .scheme = "http", .host = "h", .port = 80 };
			char  *in = NULL, *a = NULL, *b = NULL, tmp[300];
			switch (sh) {
			case 0: // total length exactly L
				in = rep("a", L - 9, "http://h/", "");
				e.path = in + 8;
				e.canon = strdup(in);
				break;
			case 1: // more than 64K segments removed again
				in = rep("/a/..", L / 5, "http://H", "/z");
				e.path = "/z";
				e.canon = strdup("http://h/z");
				break;
			case 2:
				in = rep("q", L, "ws://h/p?", "");
				e.scheme = "ws";
				e.path = "/p";
				e.query = in + 9;
				e.canon = strdup(in);
				break;
			case 3:
				in = rep("i", L - 9, "inproc://", "");
				e.scheme = "inproc";
				e.host = NULL;
				e.port = 0;
				e.path = in + 9;
				e.canon = strdup(in);
				break;
			case 4:
			case 5:
				snprintf(tmp, sizeof(tmp), "tcp://%s:7/", sh == 4 ? h255 : h256);
				in = rep("b", L, tmp, "");
				e.accept = sh == 4;
				e.scheme = "tcp";
				e.host = h255;
				e.port = 7;
				e.path = strchr(in + 6, '/');
				e.canon = strdup(in);
				break;
			case 6: // every escape decoded: the output is a third of the input
				in = rep("%41", L / 3, "http://h/", "");
				a = rep("A", L / 3, "/", "");
				e.path = a;
				e.canon = b = rep("A", L / 3, "http://h/", "");
				b = NULL;
				break;
			case 7: // more than 255 / 64K kept segments
				in = rep("/s", L / 2, "http://h:8080", "");
				e.port = 8080;
				e.path = in + 13;
				e.canon = strdup(in);
				break;
			case 8:
				in = rep("f", L, "wss://h:443#", "");
				e.scheme = "wss";
				e.port = 443;
				e.path = "";
				e.frag = in + 12;
				e.canon = rep("f", L, "wss://h#", "");
				break;
			default: // L slashes collapse into one
				in = rep("/", L, "http://h", "x");
				e.path = "/x";
				e.canon = strdup("http://h/x");
				break;
			}
			vf_case_begin(e_idx - 1, "huge %s L=%zu", sn[sh], L);
			vf_watchdog(600);
			{ // exact-size copy so that ASan sees an over-read
				char *x = strdup(in);
				// pointers of e into `in` stay valid: in is kept until the end of the case
				huge_case(x, &e, sn[sh]);
				free(x);
			}
			vf_stat("length_huge", 1);
			free(e.canon);
			free(a);
			free(b);
			free(in);
		}
}

// Started listeners: the URL lives inside the listener object, is bound
// (port 0 is resolved through nng_url_resolve_port on the embedded struct)
// and must still be the URL that was given, for lengths on both sides of
// the inline buffer.  A dialer created from the reported URL must agree.
static void
enum_listen(void)
{
	static const int lens[] = { 24, 100, 120, 124, 125, 126, 127, 128, 129, 130, 131, 132, 136, 160, 200, 256, 300, 390 };
	static const char *const heads[] = { "ws://127.0.0.1:0/", "ws4://127.0.0.1:0/", "ws://localhost:0/", "tcp://127.0.0.1:0", "tcp4://127.0.0.1:0",
		"inproc://c19-listen-", "ws://127.0.0.1:0/p?q=" };
	char why[900];
	for (size_t hd = 0; hd < sizeof(heads) / sizeof(heads[0]); hd++) {
		for (size_t li = 0; li < sizeof(lens) / sizeof(lens[0]); li++) {
			if (!e_take()) continue;
			bool tcp = !strncmp(heads[hd], "tcp", 3);
			if (tcp && li > 0) continue; // tcp URLs carry no path
			sb u;
			sb_init(&u);
			sb_add(&u, heads[hd]);
			const char *sep = strstr(u.s, "://");
			char        tag[40];
			snprintf(tag, sizeof(tag), "%d.%d.%zu.", (int) getpid(), vf_shard, li);
			if (!tcp) {
				sb_add(&u, tag);
				while (strlen(sep) < (size_t) lens[li]) sb_addc(&u, 'a' + (char) (strlen(sep) % 26));
			}
			bool heap = strlen(strstr(u.s, "://")) >= 128;
			vf_case_begin(e_idx - 1, "listen: %s", u.s);
			n_listen_try++;
			nng_url *pu = NULL;
			if (nng_url_parse(&pu, u.s) != 0) vf_harness_fail("listen workload URL rejected: %s", u.s);
			take_snap(pu, &S);
			nng_url_free(pu);
			nng_listener l;
			int          rv = nng_listener_create(&l, ep_sock, u.s);
			bool         created = rv == 0;
			if (rv == 0) rv = nng_listener_start(l, 0);
			if (rv != 0) { // no such address family here, etc.
				n_listen_fail++;
				vf_class("listen|failed|%s|%s|rv=%d", heads[hd], created ? "start" : "create", rv);
				if (vf_verbose) fprintf(stderr, "listen %s failed in %s: %s\n", u.s, created ? "start" : "create", nng_strerror(rv));
				if (created) nng_listener_close(l);
				continue;
			}
			const nng_url *eu = NULL;
			if (nng_listener_get_url(l, &eu) != 0 || eu == NULL) {
				viol("endpoint/get-url-failed", "listener-started", u.s, "nng_listener_get_url failed");
				nng_listener_close(l);
				continue;
			}
			n_listen_ok++;
			if (heap) n_listen_heap++;
			bool wantport = S.hh && S.port == 0; // hosted scheme bound to port 0
			if (wantport) {
				uint32_t p = nng_url_port(eu);
				if (p == 0 || p > 65535) {
					viol("endpoint/port-not-resolved", heap ? "heap" : "inline", u.s, "started listener reports port %u", p);
				} else {
					n_listen_port++;
				}
				S.port = p;
			}
			const char *d = cmp_snap(eu, &S, true, true, why, sizeof(why));
			if (d != NULL) {
				char disc[96];
				snprintf(disc, sizeof(disc), "%s-differs/listener-started/%s", d, heap ? "heap" : "inline");
				viol("endpoint", disc, u.s, "started listener reports %s", why);
			} else { // format, parse again, and hand the embedded URL to a dialer
				char buf[MAXIN];
				int  n = nng_url_sprintf(buf, sizeof(buf), eu);
				nng_url *u2 = NULL;
				if (n <= 0 || n >= (int) sizeof(buf) || nng_url_parse(&u2, buf) != 0) {
					viol("endpoint/reparse-rejected", "listener-started", u.s, "formatted \"%s\"", n > 0 ? esc(buf) : "?");
				} else {
					if ((d = cmp_snap(u2, &S, false, false, why, sizeof(why))) != NULL) {
						char disc[96];
						snprintf(disc, sizeof(disc), "%s-differs/listener-started-reparsed", d);
						viol("endpoint", disc, u.s, "formatted \"%s\" parses with %s", esc(buf), why);
					}
					nng_url_free(u2);
				}
				nng_dialer     dl;
				const nng_url *du = NULL;
				if (nng_dialer_create_url(&dl, ep_sock, eu) == 0) {
					if (nng_dialer_get_url(dl, &du) == 0 && du != NULL && (d = cmp_snap(du, &S, true, true, why, sizeof(why))) != NULL) {
						char disc[96];
						snprintf(disc, sizeof(disc), "%s-differs/dialer-from-listener/%s", d, heap ? "heap" : "inline");
						viol("endpoint", disc, u.s, "dialer created from the listener's URL reports %s", why);
					}
					n_listen_dialer++;
					nng_dialer_close(dl);
				}
			}
			vf_class("listen|ok|%s|%s|port%d", heads[hd], heap ? "heap" : "inline", wantport);
			nng_listener_close(l);
		}
	}
}

static const char *const corpus[] = { "http://www.google.com", "http://www.google.com:1234", "http://www.google.com:1234/somewhere",
	"http://garrett@www.google.com:1234/somewhere", "http://www.google.com/somewhere?result=yes",
	"http://www.google.com/somewhere?result=yes#chapter1", "http://www.google.com/somewhere#chapter2", "http://www.google.com#chapter3",
	"http://www.google.com?color=red", "http://[::1]", "http://[::1]:29", "http://[::1]:29/bottles", "tcp://:9876/", "ws://",
	"ssh://user@host.example.com", "www.google.com", "http:www.google.com", "nosuch://bogus", "http://[::1", "http://[::1]bogus",
	"http://www.EXAMPLE.com/%7Egarrett", "http://www.x.com//abc/def/./x/..///./../y", "http://www.x.com/?/abc/def/./x/.././../y",
	"http://x.com/x%80x", "http://x.com/x%c0%81", "http://www.x.com/%c2%a2_cents", "http://www.x.com:/something",
	"http://www.x.com:nosuchservice", "http://user@@user@www.x.com", "", ":", "://", "://x", "ht://x", "t://x", "w://h/p", "HTTP://x",
	"http://h/%E0%9F%BF", "http://h/%ED%A0%80", "http://h/%E0%A0%80", "http://h/%F4%90%80%80", "http://h/%F0%8F%BF%BF",
	"http://h/%EF%BF%BF", "http://h/%F0%90%80%80", "http://h/%F4%8F%BF%BF", "http://h/\xe2\x82\xac", "http://h/%e2%82%ac?%e2%82%ac#%e2%82%ac",
	"http://h/a/..", "http://h/a/.", "http://h/..", "http://h/.", "http://h/../../a", "http://h/a/b/../../../c/", "http://h/a//../b",
	"http://h/%2e%2E/%2e/x", "http://h/a%2F..%2Fb", "http://h/...", "http://h/.a/..b", "http://h/a/./", "http://h/a/../",
	"http://h/%41%5a%61%7A%30%39%2d%2E%5f%7e", "http://h/%2f%3f%23%25%20%00", "http://h/%", "http://h/%4", "http://h/%4?1", "http://h/%zz",
	"http://h/?%", "http://h/#%4", "http://h/?a=%41&b=%2f#%41%2f", "http://h/p?q?r#f#g?h", "http://h/p#f?notquery", "http://h?", "http://h#",
	"http://h/?#", "http://?q", "http://#f", "http://:80", "http://:", "tcp://h:+80", "tcp://h: 80", "tcp://h:-0", "tcp://[[a]", "tcp://[a]",
	"tcp://[A:B]:5", "tcp://u@[::1]:5/", "ipc://", "ipc:///var/run/x.sock", "ipc://%zz", "inproc://\xff\xfe", "abstract://%00a%ff", "unix://./rel",
	"socket://7", "inproc://a?b#c", "ip://x", "i://x", "tls+tcp://[::1]:4433", "tls+tcp4://127.0.0.1:0", "mailto://u@h", "file:///etc/passwd",
	"http://h/\x01\x7f ", "http://h\x01/", "http://h/%C3", "http://h/%C3/..", "http://h/\xc3/../x", "http://h/%80/../x" };

static void
enum_corpus(void)
{
	for (size_t i = 0; i < sizeof(corpus) / sizeof(corpus[0]); i++) {
		if (!e_take()) continue;
		vf_case_begin(e_idx - 1, "corpus: %s", esc(corpus[i]));
		bool acc = run_case(corpus[i], "corpus", NULL);
		vf_class("corpus|%zu|%s", i, acc ? "acc" : "rej");
		vf_stat("corpus", 1);
		vf_sample("{\"input\":\"%s\",\"accepted\":%s}", esc(corpus[i]), acc ? "true" : "false");
	}
}

// ---------------------------------------------------------------- grammar
static const char *
pick(vf_rng *r, const char *const *v, size_t n)
{
	return v[vf_below(r, (uint32_t) n)];
}
#define PICK(r, arr) pick(r, arr, sizeof(arr) / sizeof(arr[0]))

static void
gen_word(vf_rng *r, sb *b, int maxlen, bool mixed)
{
	static const char lo[] = "abcdefghijklmnopqrstuvwxyz0123456789";
	int               n = 1 + (int) vf_below(r, (uint32_t) maxlen);
	for (int i = 0; i < n; i++) {
		char c = lo[vf_below(r, 36)];
		if (mixed && vf_chance(r, 1, 3)) c = (char) toupper((unsigned char) c);
		sb_addc(b, c);
	}
}

static void
gen_scheme(vf_rng *r, sb *b)
{
	static const char *const hosted_common[] = { "tcp", "http", "https", "ws", "wss", "tls+tcp", "tcp4", "tcp6", "udp", "dtls" };
	uint32_t                 k = vf_below(r, 100);
	const char              *s = ref_schemes[vf_below(r, NSCHEMES)];
	if (k < 45) {
		sb_add(b, PICK(r, hosted_common));
	} else if (k < 80) {
		sb_add(b, s);
	} else if (k < 88) { // truncation
		sb_addn(b, s, vf_below(r, (uint32_t) strlen(s)));
	} else if (k < 92) { // case variant
		size_t at = b->n;
		sb_add(b, s);
		size_t i = at + vf_below(r, (uint32_t) strlen(s));
		b->s[i] = (char) toupper((unsigned char) b->s[i]);
	} else if (k < 96) {
		sb_add(b, s);
		sb_addc(b, "x46s+-."[vf_below(r, 7)]);
	} else {
		gen_word(r, b, 6, false);
	}
	if (vf_chance(r, 94, 100)) {
		sb_add(b, "://");
	} else {
		static const char *const seps[] = { ":", ":/", "//", ":///", "", ";//", "::/" };
		sb_add(b, PICK(r, seps));
	}
}

static const char *const v6[] = { "[::1]", "[::]", "[fe80::1%eth0]", "[2001:DB8::A:b]", "[::ffff:192.0.2.1]", "[1:2:3:4:5:6:7:8]", "[v1.x]",
	"[::1", "::1]", "[::1]]", "[[::1]", "[]", "[::1]junk", "[:]" };
static const char *const odd_hosts[] = { "h_o-s.t", "a b", "h%41", "h%zz", "*", "a,b", "\xc3\xa9", "\xff", "h\x01", "a[b", "a]b", "..", "-" };
static const char *const port_ok[] = { "0", "1", "80", "443", "8080", "65535", "00080", "5555", "9418" };
static const char *const port_bad[] = { "65536", "99999", "100000", "4294967296", "18446744073709551617", "-1", "8o", "0x50", "80:1", "65535 ", "1e3" };
static const char *const port_signed[] = { "+80", " 80", "-0", "+0", "\t443", "+65535", " +7" };
static const char *const port_svc[] = { "http", "https", "ssh", "domain", "HTTP", "Ssh", "nosuchsvc", "telnet", "ftp" };

// random bracketed literal near the IPv6 grammar: groups, "::", a dotted
// quad, a zone, and the usual ways to get them wrong
static void
gen_v6(vf_rng *r, sb *b)
{
	int  groups = (int) vf_below(r, 10), gap = vf_chance(r, 3, 5) ? (int) vf_below(r, (uint32_t) groups + 1) : -1;
	bool v4 = vf_chance(r, 1, 5);
	sb_addc(b, '[');
	for (int i = 0; i < groups; i++) {
		if (i == gap) sb_add(b, i == 0 ? "::" : ":");
		else if (i > 0 && !(v4 && i == groups - 1 && vf_chance(r, 1, 20))) sb_addc(b, ':');
		if (v4 && i == groups - 1) {
			char t[40];
			snprintf(t, sizeof(t), vf_chance(r, 1, 10) ? "%u.%u.%u" : vf_chance(r, 1, 10) ? "%u.%u.%u.%u.1" : vf_chance(r, 1, 10) ? "0%u.%u.%u.%u" : "%u.%u.%u.%u",
			    vf_below(r, 256), vf_below(r, vf_chance(r, 1, 10) ? 300 : 256), vf_below(r, 256), vf_below(r, 256));
			sb_add(b, t);
		} else {
			int nd = vf_chance(r, 1, 25) ? (int) vf_below(r, 7) : 1 + (int) vf_below(r, 4);
			for (int k = 0; k < nd; k++) sb_addc(b, vf_chance(r, 1, 60) ? "gG-. x"[vf_below(r, 6)] : "0123456789abcdefABCDEF"[vf_below(r, 22)]);
		}
	}
	if (gap == groups) sb_add(b, groups == 0 ? "::" : vf_chance(r, 1, 8) ? ":" : "::");
	if (vf_chance(r, 1, 5)) {
		static const char *const zones[] = { "%lo", "%25eth0", "%1", "%", "%e th", "%e\x01", "%[x", "%\xc3\xa9", "%a.b_c-d~" };
		sb_add(b, PICK(r, zones));
	}
	if (!vf_chance(r, 1, 30)) sb_addc(b, ']');
}

static void
gen_authority(vf_rng *r, sb *b)
{
	uint32_t k;
	if (vf_chance(r, 15, 100)) {
		static const char *const uis[] = { "user", "User:Pass", "u%41", "", "a.b-c_d~", "u:p:q", "U" };
		sb_add(b, PICK(r, uis));
		sb_addc(b, '@');
		if (vf_chance(r, 1, 12)) {
			sb_add(b, "x@");
		}
	}
	k = vf_below(r, 100);
	if (k < 8) {
	} else if (k < 50) {
		int labels = 1 + (int) vf_below(r, 4);
		for (int i = 0; i < labels; i++) {
			if (i) sb_addc(b, '.');
			gen_word(r, b, 10, vf_chance(r, 1, 3));
		}
	} else if (k < 63) {
		char t[32];
		snprintf(t, sizeof(t), "%u.%u.%u.%u", vf_below(r, 256), vf_below(r, 256), vf_below(r, 256), vf_below(r, 256));
		sb_add(b, t);
	} else if (k < 74) {
		sb_add(b, PICK(r, v6));
	} else if (k < 85) {
		gen_v6(r, b);
	} else if (k < 94) {
		sb_add(b, PICK(r, odd_hosts));
	} else { // long host around the 256 limit
		sb_fill(b, vf_chance(r, 1, 2) ? 'a' : 'B', 250 + vf_below(r, 10));
	}
	k = vf_below(r, 100);
	if (k < 45) {
	} else if (k < 70) {
		sb_addc(b, ':');
		if (vf_chance(r, 1, 3)) {
			char t[16];
			snprintf(t, sizeof(t), "%u", vf_below(r, 65536));
			sb_add(b, t);
		} else {
			sb_add(b, PICK(r, port_ok));
		}
	} else if (k < 78) {
		sb_addc(b, ':');
		sb_add(b, PICK(r, port_bad));
	} else if (k < 82) {
		sb_addc(b, ':');
	} else if (k < 92) {
		sb_addc(b, ':');
		sb_add(b, PICK(r, port_svc));
	} else {
		sb_addc(b, ':');
		sb_add(b, PICK(r, port_signed));
	}
}

static const char *const seg_special[] = { ".", "..", "...", ".a", "a.", "..a", "%2e", "%2E%2e", "%2E", ".%2e", "%41", "%7e", "%5F", "%2d", "%30",
	"%2F", "%2f", "%3f", "%23", "%25", "%00", "%20", "%5B", "%7f", " ", "a+b", "a;b=c", "a:b", "a@b", "[x]", "!$&'()*,=" };
static const char *const seg_utf8_ok[] = { "%C3%A9", "%c3%a9", "\xc3\xa9", "%E2%82%AC", "\xe2\x82\xac", "%F0%9F%98%80", "\xf0\x9f\x98\x80", "%E0%A0%80",
	"%ED%9F%BF", "%EE%80%80", "%EF%BF%BF", "%F0%90%80%80", "%F4%8F%BF%BF", "%C2%80", "%DF%BF", "\xe0\xa0\x80", "%E1%80%80", "\xc3%A9", "%C3\xa9" };
static const char *const seg_utf8_bad[] = { "%C0%80", "%C1%BF", "%E0%80%80", "%E0%9F%BF", "%ED%A0%80", "%ED%BF%BF", "%F0%80%80%80", "%F0%8F%BF%BF",
	"%F4%90%80%80", "%F5%80%80%80", "%F8%88%80%80%80", "%FF", "%FE", "%80", "%BF", "%C3", "%E2%82", "%F0%9F%98", "%C3%41", "%E2%41%AC", "\xc0\x80",
	"\xed\xa0\x80", "\xe0\x9f\xbf", "\xf4\x90\x80\x80", "\x80", "\xc3", "\xff" };
static const char *const seg_badesc[] = { "%", "%4", "%zz", "%4g", "%g4", "%%41", "a%", "%-1", "%\xc3\xa9" };

static void
gen_segment(vf_rng *r, sb *b, bool in_path)
{
	uint32_t k = vf_below(r, 100);
	if (k < 40) {
		gen_word(r, b, 8, vf_chance(r, 1, 4));
	} else if (k < 70) {
		sb_add(b, PICK(r, seg_special));
	} else if (k < 82) {
		sb_add(b, PICK(r, seg_utf8_ok));
	} else if (k < 90) {
		sb_add(b, PICK(r, seg_utf8_bad));
		if (vf_chance(r, 1, 2)) gen_word(r, b, 2, false);
	} else if (k < 93) {
		sb_add(b, PICK(r, seg_badesc));
	} else if (k < 97) { // random escape of any byte, random hex case
		int n = 1 + (int) vf_below(r, 3);
		for (int i = 0; i < n; i++) sb_pct(b, vf_below(r, 256), vf_chance(r, 1, 2));
	} else if (in_path) { // several dot segments in a row
		int n = 1 + (int) vf_below(r, 4);
		for (int i = 0; i < n; i++) sb_add(b, i ? "/.." : "..");
	} else {
		sb_add(b, "a/../b//c");
	}
}

static void
gen_tail(vf_rng *r, sb *b)
{
	if (!vf_chance(r, 15, 100)) {
		int n = 1 + (int) vf_below(r, 7);
		for (int i = 0; i < n; i++) {
			sb_addc(b, '/');
			if (vf_chance(r, 1, 10)) sb_fill(b, '/', 1 + vf_below(r, 2));
			gen_segment(r, b, true);
		}
		if (vf_chance(r, 1, 5)) sb_addc(b, '/');
	}
	if (vf_chance(r, 30, 100)) {
		sb_addc(b, '?');
		int n = (int) vf_below(r, 4);
		for (int i = 0; i < n; i++) {
			if (i) sb_addc(b, "&;/?"[vf_below(r, 4)]);
			gen_segment(r, b, false);
			if (vf_chance(r, 2, 3)) {
				sb_addc(b, '=');
				gen_segment(r, b, false);
			}
		}
	}
	if (vf_chance(r, 25, 100)) {
		sb_addc(b, '#');
		int n = (int) vf_below(r, 3);
		for (int i = 0; i < n; i++) {
			gen_segment(r, b, false);
			if (vf_chance(r, 1, 4)) sb_addc(b, "#?/"[vf_below(r, 3)]);
		}
	}
}

static void
gen_url(vf_rng *r, sb *b)
{
	sb_init(b);
	gen_scheme(r, b);
	bool hostless = false;
	for (int i = 0; i < NSCHEMES; i++) {
		size_t l = strlen(ref_schemes[i]);
		if (b->n == l + 3 && !strncmp(b->s, ref_schemes[i], l) && scheme_hostless(ref_schemes[i])) hostless = true;
	}
	if (hostless && vf_chance(r, 4, 5)) {
		uint32_t k = vf_below(r, 4);
		if (k == 0) {
			sb_add(b, "/tmp/");
			gen_word(r, b, 12, true);
		} else if (k == 1) {
			int n = (int) vf_below(r, 6);
			for (int i = 0; i < n; i++) gen_segment(r, b, true);
		} else if (k == 2) {
			int n = (int) vf_below(r, 40);
			for (int i = 0; i < n; i++) sb_addc(b, (char) (1 + vf_below(r, 255)));
		} else {
			gen_tail(r, b);
		}
	} else {
		gen_authority(r, b);
		gen_tail(r, b);
	}
	// length shaping around the inline buffer (remainder of 128 bytes)
	if (vf_chance(r, 18, 100)) {
		static const int targets[] = { 120, 126, 127, 128, 129, 130, 131, 132, 135, 140, 200, 255, 256, 257, 300, 400, 700 };
		size_t           t = (size_t) targets[vf_below(r, sizeof(targets) / sizeof(targets[0]))] + vf_below(r, 3);
		if (b->n < t) {
			char c = "a/Z.q%"[vf_below(r, 6)];
			if (strpbrk(b->s + (strstr(b->s, "://") ? (strstr(b->s, "://") - b->s) + 3 : 0), "/?#") == NULL && !hostless) sb_addc(b, '/');
			sb_fill(b, c, t - b->n);
		}
	}
	// byte-level mutation
	if (vf_chance(r, 12, 100) && b->n > 0) {
		static const char nasty[] = "%/?#@:[]. \x01\x7f\x80\xbf\xc0\xc3\xe0\xed\xf4\xff" "AZaz09+-";
		int               n = 1 + (int) vf_below(r, 3);
		for (int i = 0; i < n && b->n > 0; i++) {
			size_t at = vf_below(r, (uint32_t) b->n);
			char   c = nasty[vf_below(r, sizeof(nasty) - 1)];
			switch (vf_below(r, 4)) {
			case 0: b->s[at] = c; break;
			case 1:
				if (b->n < MAXIN - 1) {
					memmove(b->s + at + 1, b->s + at, b->n - at + 1);
					b->s[at] = c;
					b->n++;
				}
				break;
			case 2:
				memmove(b->s + at, b->s + at + 1, b->n - at);
				b->n--;
				break;
			default:
				if (vf_chance(r, 1, 3)) {
					b->s[at] = 0;
					b->n = at;
				} else {
					b->s[at] = (char) (1 + vf_below(r, 255));
				}
			}
		}
	}
}

static void
run_grammar(void)
{
	long   n_gram = 0;
	vf_rng r;
	sb     u;
	for (long c = 0; c < vf_cases; c++) {
		if (!vf_want_case(c)) continue;
		vf_rng_seed(&r, vf_seed, (uint64_t) c);
		gen_url(&r, &u);
		vf_case_begin(c, "gram: %s", esc(u.s));
		bool acc = run_case(u.s, "gram", NULL);
		if ((c & 0x3fff) == 7) vf_sample("{\"input\":\"%s\",\"accepted\":%s}", esc(u.s), acc ? "true" : "false");
		if ((c & 0x3ff) == 0) vf_watchdog(120);
		n_gram++;
	}
	vf_stat("gram_cases", n_gram);
}

static void
report_stats(void)
{
	vf_stat("cases", n_cases);
	vf_stat("accepted", n_accept);
	vf_stat("rejected", n_reject);
	vf_stat("accepted_hostless", n_hostless_acc);
	vf_stat("accepted_heap", n_heap_urls);
	vf_stat("ref_compared", n_ref_compared);
	vf_stat("overstrict", n_overstrict);
	vf_stat("strict_fired", n_strict_fired);
	vf_stat("roundtrips", n_round);
	vf_stat("sprintf_truncated", n_trunc);
	vf_stat("clones", n_clone);
	vf_stat("clones_heap", n_clone_heap);
	vf_stat("clones_hostless", n_clone_hostless);
	vf_stat("clones_skipped_quarantined", n_clone_skip);
	vf_stat("clone_port_mutations", n_portmut);
	vf_stat("clone_freed_source_first", n_free_src_first);
	vf_stat("clone_freed_clone_first", n_free_clone_first);
	vf_stat("utf8_enum", n_utf8_enum);
	static const char *const un[3] = { "2byte", "3byte", "4byte" };
	for (int i = 0; i < 3; i++) {
		char k[64];
		snprintf(k, sizeof(k), "utf8_enum_valid_%s", un[i]);
		vf_stat(k, n_utf8_valid[i]);
		snprintf(k, sizeof(k), "utf8_enum_valid_%s_accepted", un[i]);
		vf_stat(k, n_utf8_valid_acc[i]);
	}
	for (int i = 1; i < N_UP; i++) {
		char k[80];
		snprintf(k, sizeof(k), "utf8_pos_%s", up_names[i]);
		vf_stat(k, n_up_cases[i]);
		if (i == UP_HOSTLESS || i == UP_SPLIT) continue;
		snprintf(k, sizeof(k), "utf8_pos_%s_valid", up_names[i]);
		vf_stat(k, n_up_valid[i]);
		snprintf(k, sizeof(k), "utf8_pos_%s_valid_accepted", up_names[i]);
		vf_stat(k, n_up_valid_acc[i]);
	}
	vf_stat("utf8_pos_hostless_accepted", n_up_hostless_acc);
	vf_stat("length_huge_accepted", n_huge_acc);
	vf_stat("length_huge_rejected", n_huge_rej);
	vf_stat_max("length_huge_max_bytes", n_huge_max);
	vf_stat("listen_tried", n_listen_try);
	vf_stat("listen_started_compared", n_listen_ok);
	vf_stat("listen_started_heap", n_listen_heap);
	vf_stat("listen_failed_to_start", n_listen_fail);
	vf_stat("listen_port_resolved", n_listen_port);
	vf_stat("listen_dialer_from_listener", n_listen_dialer);
	vf_stat("overstrict_unexplained", n_overstrict_unexplained);
	vf_stat("judged_authority_blank_or_control", n_judged_ctl);
	vf_stat("judged_bracket_not_an_address", n_judged_v6);
	vf_stat("judged_bracket_valid_address", n_judged_v6_valid);
	vf_stat("judged_bracket_valid_address_accepted", n_judged_v6_valid_acc);
	vf_stat("host_escape_judged", n_host_esc_judged);
	vf_stat("host_escape_unreserved_judged", n_host_esc_unres);
	for (int i = 0; i < N_OPEN; i++) {
		char k[80];
		// base_*: exact in mode enum (pinned by the spec); open_*: the same classes in the sampled modes
		const char *pre = !strncmp(vf_mode, "enum", 4) ? "base" : "open";
		snprintf(k, sizeof(k), "%s_%s_driven", pre, op_names[i]);
		vf_stat(k, n_base_driven[i]);
		snprintf(k, sizeof(k), "%s_%s_accepted", pre, op_names[i]);
		vf_stat(k, n_base_acc[i]);
		snprintf(k, sizeof(k), "%s_%s_rejected", pre, op_names[i]);
		vf_stat(k, n_base_rej[i]);
	}
	vf_stat("storage_checked", n_storage);
	vf_stat("endpoint_tried", n_ep_try);
	vf_stat("endpoint_compared", n_ep_ok);
	vf_stat("endpoint_compared_heap", n_ep_ok_heap);
	vf_stat("endpoint_scheme_without_transport", n_ep_notsup);
	vf_stat("endpoint_refused_by_transport", n_ep_refused);
	for (int i = 0; i < 4; i++) {
		char k[64];
		snprintf(k, sizeof(k), "endpoint_compared_%s", ep_forms[i]);
		vf_stat(k, n_ep_form[i]);
	}
}

static void
endpoint_open(void)
{
	int rv = nng_pair0_open(&ep_sock);
	if (rv != 0) vf_harness_fail("nng_pair0_open: %s", nng_strerror(rv));
	ep_ready = true;
}

static void
endpoint_close(void)
{
	if (ep_ready) {
		ep_ready = false;
		nng_socket_close(ep_sock);
	}
}

// Unexplained over-rejection makes "accepts only if" partly vacuous: the run
// is then inconclusive (never a violation - the property does not forbid it).
static void
vacuity_guard(void)
{
	if (n_overstrict_unexplained > 0) {
		vf_harness_fail("nng refused %ld inputs the strict reference accepts for reasons the reference does not leave open "
		                "(see samples overstrict_rejected / stats overstrict_*): the accept-only-if verdict would be vacuous for them",
		    n_overstrict_unexplained);
	}
}

#ifndef C19_NO_MAIN
int
main(int argc, char **argv)
{
	vf_init(argc, argv);
	if (vf_only < 0 || vf_only >= CANARY_BASE) run_canaries();
	vf_nng_init(1, 1, 1);
	endpoint_open();
	if (vf_only < CANARY_BASE) {
		if (!strncmp(vf_mode, "lit:", 4)) { // judge one literal URL (debugging aid)
			vf_verbose = 1;
			vf_case_begin(0, "literal: %s", esc(vf_mode + 4));
			bool acc = run_case(vf_mode + 4, "lit", NULL);
			fprintf(stderr, "nng %s; reference %s %s\n", acc ? "accepts" : "rejects", R.accept ? "accepts" : "rejects", R.reason);
		} else if (!strncmp(vf_mode, "enum", 4)) { // "enum", or "enum:<part>[,<part>]" (debugging aid)
#define PART(name) (vf_mode[4] != ':' || strstr(vf_mode + 5, name) != NULL)
			if (PART("corpus")) enum_corpus();
			if (PART("listen")) enum_listen();
			if (PART("schemes")) enum_schemes();
			if (PART("authority")) enum_authority();
			if (PART("hostbytes")) enum_hostbytes();
			if (PART("literals")) enum_literals();
			if (PART("lengths")) enum_lengths();
			if (PART("huge")) enum_huge();
			if (PART("positions")) enum_utf8_positions();
			if (PART("utf8")) enum_utf8();
#undef PART
		} else {
			run_grammar();
		}
	}
	report_stats();
	endpoint_close();
	vf_nng_fini("C19");
	int rc = vf_finish();
	vacuity_guard();
	return rc;
}
#endif // C19_NO_MAIN
