// C07 (surveyor side): a surveyor socket / context receives only responses
// to its own most recent survey, only until that survey's deadline; a receive
// pending at the deadline fails with NNG_ETIMEDOUT; receive with no live
// survey fails with NNG_ESTATE.
//
// One real SURVEYOR socket with 1-4 contexts (optionally the socket itself as
// "context 0"), one harness thread per context, so "the most recent survey of
// context c" and the instants around its nng_ctx_send call are known exactly.
// Every survey body is {nonce, directive, ctx | survey#}; the directive tells
// the respondents how to behave (prompt / slow / silent / certainly-late /
// around-the-deadline).  The respondents (1-3 in total) are
//   real    RESPONDENT sockets with 1-2 echoing workers (context or socket);
//   tcpadv  a raw TCP adversary speaking SP as RESPONDENT (0x63): it learns
//           survey ids from the wire and emits the correct response,
//           duplicates, stale ids (an earlier survey of a context), another
//           context's live id (with that context's tag), ids without the high
//           bit, frames shorter than an id (the pipe is killed and redialled),
//           responses deferred until they are CERTAINLY late, and responses
//           placed around the deadline;
//   xresp   the same adversary behind an nng raw RESPONDENT socket (inproc or
//           tcp).
// Every response body echoes the (ctx, survey#) its id belongs to plus
// {class, serial}; the serial indexes a table with the harness-side time stamp
// taken just before (and after) the frame was written.
//
// Oracle, judged by the thread owning the context:
//  * a receive that returns a message: the message carries this context's tag
//    and the number of its most recent survey, a real survey id (not the
//    high-bit-less copy), and was not written at t_w >= t_send_ret + T + 5 ms
//    (the library's deadline lies in [t_send_call + T, t_send_ret + T], so such
//    a frame is late whatever the load);
//  * NNG_ETIMEDOUT never earlier than min(t_recv_call + aio timeout,
//    t_send_call + T) - 1 ms; a receive pending at the deadline completes
//    within 4 s after it (re-checked once) - aio timeouts longer than the
//    remaining survey time (30 s, infinite, default, remaining + a few ms)
//    exercise the clamp;
//  * a receive issued before any survey or at t >= t_send_ret + T + 5 ms
//    returns NNG_ESTATE; NNG_ESTATE is never returned well inside the survey
//    time (unless an earlier receive on that survey timed out / was cancelled,
//    after which the state is unspecified);
//  * responses to the current survey written in the first half of T (T >= 100
//    ms) while the context keeps receiving are all delivered (raw TCP and real
//    respondents only; the raw nng respondent may drop frames itself).
//
// Second-audit additions:
//  * ghost contexts: every few rounds a thread opens 1-3 short-lived contexts
//    in a row; each sends a survey tagged MAXCTX + thread (a tag no working
//    context uses) whose answers are slow / prompt / around the deadline /
//    late, posts 0-2 receives and is closed 0-3 ms later, while its survey is
//    live and answers are still being written.  The adversary also replays
//    the ids of such closed contexts later on.  An answer carrying a ghost tag
//    that is delivered anywhere but to the ghost that sent the survey is a
//    wrong-context / stale delivery; a receive pending at the close ends with
//    NNG_ECLOSED (or a legitimate answer), never by timing out after the
//    context is gone.
//  * survey times of 1-39 ms in one general survey out of ten; the edge values
//    0 and NNG_DURATION_INFINITE are driven and what receives return is
//    recorded as classes, not judged.
//  * flood: the adversary answers one survey 150 times at once while nobody
//    receives (the context buffers 128); afterwards the context receives until
//    the deadline (each frame at most once, none late) or sends the next
//    survey (no buffered frame may survive it).
//  * discarded_<class> counts only frames with a later-written delivered frame
//    on the same raw TCP connection (they demonstrably reached the surveyor).
#include "vfh.h"

#include <errno.h>
#include <poll.h>
#include <pthread.h>
#include <stdatomic.h>
#include <sys/socket.h>
#include <time.h>
#include <unistd.h>

#define MAXCTX 4
#define MAXREAL 3
#define MAXWORK 6
#define NROP 64
#define LONG_MS 30000
#define BOUND_MS 4000
#define MS 1000000ULL
#define LATE_NS (5 * MS)
#define STICKY_MS 20 // timeout given ONCE to the aio that the reused-aio rounds keep re-submitting
#define NSTICKY 8
#define NSLOT (2 * MAXCTX) // survey tables: contexts 0..MAXCTX-1, ghost contexts of thread i at MAXCTX + i
#define FLOOD_N 150 // answers to one flood survey (the context's receive buffer holds 128)
#define HUGE_T 3600000

enum { K_CORRECT, K_DUP, K_STALE, K_OTHER, K_NOBIT, K_LATE, K_MID, K_ECHO, K_FAKE, K_HOP, K_GHOST, K_N };
static const char *kname[K_N] = { "correct", "dup", "stale", "other-ctx", "nobit", "late", "mid", "echo", "never-issued-id", "hop-before-id", "closed-ctx-id" };

enum { D_PROMPT, D_SLOW, D_SILENT, D_LATE, D_MID, D_FLOOD, D_N };
static const char *dname[D_N] = { "prompt", "slow", "silent", "late", "mid", "flood" };

enum { SRC_TCP, SRC_XRESP, SRC_REAL, SRC_N };
static const char *srcname[SRC_N] = { "tcpadv", "xresp", "real" };

enum { AK_NONE, AK_TCP, AK_XRESP };
static const char *akname[3] = { "none", "tcpadv", "xresp" };

enum { OP_COLLECT, OP_MIXED, OP_SUPERSEDE, OP_SENDOVER, OP_SENDOVER_DL, OP_ABORT, OP_QUICK, OP_PROBE, OP_REUSED, OP_GHOST, OP_FLOOD, OP_EDGE, OP_N };
enum { TM_EXPLICIT, TM_INHERIT, TM_DEFAULT, TM_N }; // where a context's survey time comes from
static const char *tmname[TM_N] = { "set-per-survey", "inherited-from-socket", "default-1s" };
static const char *opname[OP_N] = { "collect", "mixed-timeouts", "supersede", "send-over-recv", "send-over-recv-at-deadline", "abort", "quick", "probe", "reused-aio-timeout-set-once", "ghost-ctx-closed-mid-survey", "flood-fills-receive-buffer", "edge-survey-time" };

enum { DUE_NOW, DUE_REL, DUE_LATE, DUE_MID };

typedef struct {
	int      adv, tran, nctx, nreal, rounds;
	int      nwork[MAXREAL];
	bool     resp_sock[MAXREAL];
	bool     use_sock, kills;
	int      tmode[MAXCTX];
	uint32_t sock_T;
	int      jit_permille, jit_us, exp_permille, exp_min_us, exp_us;
	uint32_t nonce;
	uint64_t key;
} casecfg;

static int dbg_off; // debugging: C07_OFF bit mask switches extensions off

static uint32_t
get32(const uint8_t *p)
{
	return ((uint32_t) p[0] << 24) | ((uint32_t) p[1] << 16) | ((uint32_t) p[2] << 8) | p[3];
}
static void
put32(uint8_t *p, uint32_t v)
{
	p[0] = (uint8_t) (v >> 24);
	p[1] = (uint8_t) (v >> 16);
	p[2] = (uint8_t) (v >> 8);
	p[3] = (uint8_t) v;
}

static const char *
errname(int rv)
{
	switch (rv) {
	case 0: return "message";
	case NNG_ETIMEDOUT: return "ETIMEDOUT";
	case NNG_ESTATE: return "ESTATE";
	case NNG_ECANCELED: return "ECANCELED";
	case NNG_ECLOSED: return "ECLOSED";
	case NNG_EAGAIN: return "EAGAIN";
	case NNG_ENOMEM: return "ENOMEM";
	default: return "other";
	}
}

// ------------------------------------------------------------ shared tables
// surveys: written by the owning context thread, read by everybody
typedef struct {
	_Atomic uint64_t t_call, t_ret; // ns; t_ret == 0 until the send returned
	_Atomic uint32_t T;             // ms
	_Atomic uint32_t id;            // as seen on the wire by the adversary
	_Atomic uint64_t t_closed;      // ghost contexts: when nng_ctx_close of the surveying context returned
} srec;

// responses: one per frame put on the wire (or handed to nng_send)
typedef struct {
	_Atomic uint64_t t_before, t_after; // t_after == 0: not (yet) written
	_Atomic uint32_t ctx, seq, klass, src;
	_Atomic uint32_t delivered;
	_Atomic uint32_t conn; // which connection / worker wrote it (diagnostics)
	_Atomic uint32_t pipe; // frames with the same value travel one FIFO pipe to the surveyor
	_Atomic uint64_t t_dlv; // when the receive that got it was seen complete (0: not delivered)
} rrec;

static struct {
	srec            *st[NSLOT];
	uint32_t         st_cap;
	rrec            *rr;
	uint32_t         rr_cap;
	_Atomic uint32_t rr_n;
	uint32_t         nonce;
	int              nctx;
	_Atomic bool     stop;
} G;

static uint32_t
rr_alloc(uint32_t c, uint32_t s, int klass, int src, uint32_t conn, uint32_t pipe)
{
	uint32_t serial = atomic_fetch_add(&G.rr_n, 1);
	if (serial >= G.rr_cap) vf_harness_fail("response table full (%u)", serial);
	rrec *e = &G.rr[serial];
	atomic_store(&e->ctx, c);
	atomic_store(&e->seq, s);
	atomic_store(&e->klass, (uint32_t) klass);
	atomic_store(&e->src, (uint32_t) src);
	atomic_store(&e->conn, conn);
	atomic_store(&e->pipe, pipe);
	return serial;
}

static srec *
st_get(uint32_t c, uint32_t s)
{
	if (s == 0 || s >= G.st_cap) return NULL;
	if (c >= (uint32_t) G.nctx && (c < MAXCTX || c >= MAXCTX + (uint32_t) G.nctx)) return NULL;
	return &G.st[c][s];
}

// the deadline of survey (c, s) certainly passed before instant t
static bool
certainly_late(uint32_t c, uint32_t s, uint64_t t)
{
	srec *e = st_get(c, s);
	if (e == NULL) return false;
	uint64_t tr = atomic_load(&e->t_ret);
	if (tr == 0) return false;
	return t >= tr + (uint64_t) atomic_load(&e->T) * MS + LATE_NS;
}

// wait until the surveyor published when its send returned
static bool
wait_published(uint32_t c, uint32_t s, uint64_t *t_call, uint64_t *t_ret, uint32_t *T)
{
	srec *e = st_get(c, s);
	if (e == NULL) return false;
	for (int i = 0; i < 40000; i++) {
		uint64_t tr = atomic_load(&e->t_ret);
		if (tr != 0) {
			*t_ret = tr;
			*t_call = atomic_load(&e->t_call);
			*T = atomic_load(&e->T);
			return true;
		}
		if (atomic_load(&G.stop)) return false;
		vf_usleep(50);
	}
	return false;
}

// response body: vf body echoing (class, ctx | survey#) of the id, then serial
static size_t
build_resp(uint8_t *buf, uint32_t c, uint32_t s, int klass, uint32_t serial)
{
	size_t bl = VF_BODY_MIN + (size_t) (vf_mix64(((uint64_t) s << 24) ^ serial) % 40);
	vf_body_make(buf, bl, (G.nonce << 16) | ((uint32_t) klass << 8) | c, s);
	put32(buf + bl, serial);
	return bl + 4;
}

// ------------------------------------------------------------ adversary
typedef struct {
	uint32_t idword, c, s;
	uint32_t pre; // K_HOP: a word without the high bit in front of the id
	int      klass, due_kind;
	uint64_t due; // DUE_REL: ns from now; afterwards: absolute
} pframe;

static struct {
	pthread_mutex_t mtx;
	vf_rng          rng;
	uint32_t        latest[NSLOT];
	bool            kills;
	uint32_t        first_id; // first survey id seen on the wire (ids are handed out consecutively)
	long            inj[K_N], late_written[K_N], seen, killed, unpublished;
	long            ghosts_seen, closed_written, closed_written_live, floods, flood_frames;
	bool            inj_state[3][K_N]; // target survey: old / latest / expired-latest
} A;

static void
adv_init(const casecfg *cc)
{
	pthread_mutex_init(&A.mtx, NULL);
	vf_rng_seed(&A.rng, cc->key, 7);
	memset(A.latest, 0, sizeof(A.latest));
	memset(A.inj, 0, sizeof(A.inj));
	memset(A.late_written, 0, sizeof(A.late_written));
	memset(A.inj_state, 0, sizeof(A.inj_state));
	A.kills = cc->kills;
	A.first_id = 0;
	A.seen = A.killed = A.unpublished = 0;
	A.ghosts_seen = A.closed_written = A.closed_written_live = A.floods = A.flood_frames = 0;
}

// an adversarial extra frame for some survey seen earlier.  A.mtx held.
static int
adv_extra(uint32_t cur_c, pframe *f)
{
	vf_rng  *r = &A.rng;
	uint32_t u = vf_below(r, 100);
	uint32_t c, s;
	f->due_kind = vf_chance(r, 1, 4) ? DUE_REL : DUE_NOW;
	f->due = f->due_kind == DUE_REL ? (uint64_t) vf_range(r, 100, 3000) * 1000ULL : 0;
	if (A.ghosts_seen > 0 && vf_chance(r, 1, 4)) {
		// the id of a survey sent by a context that was closed right after
		// (or is about to be): nobody owns that id any more
		c = MAXCTX + vf_below(r, (uint32_t) G.nctx);
		if (A.latest[c] < 1) return 0;
		s = A.latest[c] - vf_below(r, A.latest[c] < 3 ? A.latest[c] : 3);
		f->klass = K_GHOST;
	} else if (u < 40) {
		// an earlier survey of a context (biased to the surveying one)
		c = vf_chance(r, 1, 2) ? cur_c : vf_below(r, (uint32_t) G.nctx);
		if (A.latest[c] < 2) return 0;
		uint32_t span = A.latest[c] - 1;
		uint32_t back = 1 + vf_below(r, span < 6 || vf_chance(r, 1, 4) ? span : 6);
		s = A.latest[c] - back;
		f->klass = K_STALE;
	} else if (u < 72) {
		// the live survey of another context, with that context's tag
		if (G.nctx < 2) return 0;
		c = (cur_c + 1 + vf_below(r, (uint32_t) G.nctx - 1)) % (uint32_t) G.nctx;
		if (A.latest[c] < 1) return 0;
		s = A.latest[c];
		f->klass = K_OTHER;
	} else if (u < 84) {
		// a seen id without the high bit
		c = vf_below(r, (uint32_t) G.nctx);
		if (A.latest[c] < 1) return 0;
		s = A.latest[c] - (A.latest[c] > 1 && vf_chance(r, 1, 2) ? 1 : 0);
		f->klass = K_NOBIT;
	} else if (u < 92) {
		// an id with the high bit that this socket certainly never issued: ids
		// are allocated consecutively (from a random start, wrapping after
		// 2^31), so anything well below the first one seen is unused
		if (A.first_id == 0 || A.latest[cur_c] < 1) return 0;
		c = cur_c;
		s = A.latest[c];
		f->klass = K_FAKE;
	} else {
		// a live id preceded by a peer-id word, as if a device had forgotten
		// to pop it: the first word is what the surveyor must look at
		c = cur_c;
		if (A.latest[c] < 1) return 0;
		s = A.latest[c];
		f->klass = K_HOP;
	}
	srec *e = st_get(c, s);
	uint32_t id = e ? atomic_load(&e->id) : 0;
	if (id == 0) return 0; // never saw that one on the wire
	f->idword = f->klass == K_NOBIT ? (id & 0x7fffffffu) : id;
	f->pre = 0;
	if (f->klass == K_FAKE) f->idword = 0x80000000u | ((A.first_id - 1000 - vf_below(r, 1u << 20)) & 0x7fffffffu);
	if (f->klass == K_HOP) f->pre = (uint32_t) vf_rand(r) & 0x7fffffffu;
	f->c = c;
	f->s = s;
	return 1;
}

// decide what to send in response to one survey frame
static int
adv_plan(uint32_t id, uint32_t c, uint32_t s, int dir, pframe *out, bool *kill, int *flood)
{
	int     n = 0;
	vf_rng *r = &A.rng;
	pthread_mutex_lock(&A.mtx);
	srec *e = st_get(c, s);
	if (e == NULL) vf_harness_fail("adversary saw survey ctx %u seq %u outside the table", c, s);
	atomic_store(&e->id, id);
	if (A.first_id == 0) A.first_id = id;
	if (s > A.latest[c]) A.latest[c] = s;
	A.seen++;
	if (c >= MAXCTX) A.ghosts_seen++;
	*flood = 0;
	uint32_t k = vf_below(r, 100);
	int      npre = k < 40 ? 0 : k < 72 ? 1 : k < 90 ? 2 : 3;
	for (int i = 0; i < npre; i++) n += adv_extra(c, &out[n]);
	pframe *f = &out[n];
	f->idword = id;
	f->pre = 0;
	f->c = c;
	f->s = s;
	f->due = 0;
	switch (dir) {
	case D_FLOOD:
		// more answers than the context can buffer, all at once
		*flood = FLOOD_N - 1;
		A.floods++;
		__attribute__((fallthrough));
	case D_PROMPT:
		f->klass = K_CORRECT;
		f->due_kind = DUE_NOW;
		n++;
		break;
	case D_SLOW:
		f->klass = K_CORRECT;
		f->due_kind = DUE_REL;
		f->due = (uint64_t) vf_range(r, 200, 3000) * 1000ULL;
		n++;
		break;
	case D_LATE:
		f->klass = K_LATE;
		f->due_kind = DUE_LATE;
		f->due = (uint64_t) vf_below(r, 4000) * 1000ULL; // extra beyond "certainly late"
		n++;
		break;
	case D_MID:
		f->klass = K_MID;
		f->due_kind = DUE_MID;
		f->due = vf_range(r, 900, 1100); // permille of T after the send call
		n++;
		break;
	default: break; // silent
	}
	if ((dir == D_PROMPT || dir == D_SLOW) && vf_chance(r, 1, 4)) {
		out[n] = *f;
		out[n].klass = K_DUP;
		n++;
	}
	if (vf_chance(r, 1, 4)) n += adv_extra(c, &out[n]);
	*kill = A.kills && vf_chance(r, 1, 40);
	if (*kill) A.killed++;
	pthread_mutex_unlock(&A.mtx);
	return n;
}

// turn a plan entry into (absolute due time | now); false: cannot be sent
static bool
adv_resolve(pframe *f)
{
	uint64_t now = vf_now_ns(), tc, tr;
	uint32_t T;
	switch (f->due_kind) {
	case DUE_NOW: f->due = 0; return true;
	case DUE_REL: f->due += now; return true;
	default: break;
	}
	if (!wait_published(f->c, f->s, &tc, &tr, &T)) {
		pthread_mutex_lock(&A.mtx);
		A.unpublished++;
		pthread_mutex_unlock(&A.mtx);
		return false;
	}
	if (f->due_kind == DUE_LATE) {
		f->due = tr + (uint64_t) T * MS + LATE_NS + f->due;
	} else {
		f->due = tc + (uint64_t) T * f->due * (MS / 1000);
	}
	return true;
}

static void
adv_account(const pframe *f, uint64_t t_before)
{
	pthread_mutex_lock(&A.mtx);
	A.inj[f->klass]++;
	bool late = certainly_late(f->c, f->s, t_before);
	if (late) A.late_written[f->klass]++;
	int st = f->s < A.latest[f->c] ? 0 : late ? 2 : 1;
	A.inj_state[st][f->klass] = true;
	if (f->c >= MAXCTX) {
		srec    *e = st_get(f->c, f->s);
		uint64_t tcl = e ? atomic_load(&e->t_closed) : 0;
		if (tcl != 0 && t_before > tcl) {
			A.closed_written++;
			if (t_before < atomic_load(&e->t_call) + (uint64_t) atomic_load(&e->T) * MS) A.closed_written_live++;
		}
	}
	pthread_mutex_unlock(&A.mtx);
}

// ------------------------------------------------------------ debug trace
typedef struct {
	uint64_t t;
	int      fd;
	char     what[8];
	uint32_t a, b, c;
} dbgev;
static dbgev           dbg[8192];
static _Atomic uint32_t dbg_n;
static void
dbg_ev(int fd, const char *what, uint32_t a, uint32_t b, uint32_t c)
{
	uint32_t i = atomic_fetch_add(&dbg_n, 1) % 8192;
	dbg[i].t = vf_now_ns();
	dbg[i].fd = fd;
	snprintf(dbg[i].what, sizeof(dbg[i].what), "%s", what);
	dbg[i].a = a;
	dbg[i].b = b;
	dbg[i].c = c;
}
static void
dbg_dump(uint64_t from, uint64_t to)
{
	uint32_t n = atomic_load(&dbg_n);
	int      lines = 0;
	for (uint32_t k = n > 8192 ? n - 8192 : 0; k < n && lines < 60; k++) {
		dbgev *e = &dbg[k % 8192];
		if (e->t < from || e->t > to) continue;
		lines++;
		fprintf(stderr, "DBG %+9lld us fd=%d %s %u %u %u\n", (long long) ((int64_t) (e->t - from) / 1000), e->fd, e->what, e->a, e->b, e->c);
	}
}

// ------------------------------------------------------------ tcp adversary
typedef struct {
	int       fd;
	pthread_t thr;
} tconn;

static struct {
	int       lfd;
	uint16_t  port;
	pthread_t acc;
	tconn     conns[256];
	int       nconns;
	_Atomic uint32_t conn_ids;
} T;

static _Thread_local uint32_t my_conn; // id of the connection this thread serves

static int
tcp_emit(int fd, const pframe *f)
{
	uint8_t  buf[8 + 8 + 128];
	uint32_t serial = rr_alloc(f->c, f->s, f->klass, SRC_TCP, my_conn, my_conn);
	size_t   hl = f->klass == K_HOP ? 8 : 4;
	size_t   bl = build_resp(buf + 8 + hl, f->c, f->s, f->klass, serial);
	memset(buf, 0, 8);
	put32(buf + 4, (uint32_t) (bl + hl));
	if (hl == 8) put32(buf + 8, f->pre);
	put32(buf + 4 + hl, f->idword);
	uint64_t tb = vf_now_ns();
	atomic_store(&G.rr[serial].t_before, tb);
	int rv = vf_fd_write_all(fd, buf, 8 + hl + bl, 5000);
	if (rv == 0) atomic_store(&G.rr[serial].t_after, vf_now_ns());
	dbg_ev(fd, "emit", serial, f->c, f->s);
	adv_account(f, tb);
	return rv;
}

#define NDQ 96

static void *
tcp_conn_thread(void *arg)
{
	int      fd = (int) (intptr_t) arg;
	uint16_t peer = 0;
	pframe   dq[NDQ];
	int      ndq = 0;
	vf_rng   lr;
	vf_rng_seed(&lr, vf_mix64((uint64_t) fd), 99);

	if (vf_sp_handshake(fd, 0x63, &peer, 5000) != 0 || peer != 0x62) {
		dbg_ev(fd, "hsfail", peer, 0, 0);
		close(fd);
		return NULL;
	}
	my_conn = atomic_fetch_add(&T.conn_ids, 1) + 1;
	dbg_ev(fd, "open", my_conn, 0, 0);
	for (;;) {
		uint64_t now = vf_now_ns(), next = 0;
		for (int i = 0; i < ndq;) {
			if (dq[i].due <= now) {
				if (tcp_emit(fd, &dq[i]) != 0) goto out;
				dq[i] = dq[--ndq];
			} else {
				if (next == 0 || dq[i].due < next) next = dq[i].due;
				i++;
			}
		}
		int to = 20;
		if (next != 0) {
			now = vf_now_ns();
			to = next > now ? (int) ((next - now + MS - 1) / MS) : 0;
			if (to > 20) to = 20;
		}
		struct pollfd p = { fd, POLLIN, 0 };
		int           pr = poll(&p, 1, to);
		if (pr < 0 && errno != EINTR) break;
		if (pr <= 0) {
			if (atomic_load(&G.stop)) break;
			continue;
		}
		uint8_t hdr[8], fr[512];
		long    got = vf_fd_read_full(fd, hdr, 8, 5000);
		if (got == 0) break; // surveyor closed the connection
		uint64_t len = ((uint64_t) get32(hdr) << 32) | get32(hdr + 4);
		if (got != 8 || len < 4 + VF_BODY_MIN || len > sizeof(fr) || vf_fd_read_full(fd, fr, (size_t) len, 5000) != (long) len) {
			if (!atomic_load(&G.stop)) vf_violation("C07/survey-garbled/frame", "raw RESPONDENT peer: survey frame header %ld bytes, length %llu", got, (unsigned long long) len);
			break;
		}
		uint32_t id = get32(fr), tag;
		uint64_t seq;
		if ((id & 0x80000000u) == 0 || vf_body_check(fr + 4, (size_t) len - 4, &tag, &seq) != 0 || (tag >> 16) != G.nonce) {
			vf_violation("C07/survey-garbled/body", "survey frame with id %08x: body of %llu bytes is not a survey that was sent", id, (unsigned long long) len - 4);
			break;
		}
		pframe pl[10];
		bool   kill = false;
		int    flood = 0;
		int    n = adv_plan(id, tag & 0xff, (uint32_t) seq, (int) ((tag >> 8) & 0xff), pl, &kill, &flood);
		dbg_ev(fd, "survey", tag & 0xff, (uint32_t) seq, (uint32_t) kill);
		if (flood > 0) {
			pframe ff = { .idword = id, .c = tag & 0xff, .s = (uint32_t) seq, .pre = 0, .klass = K_DUP, .due_kind = DUE_NOW, .due = 0 };
			for (int i = 0; i < flood; i++) {
				if (tcp_emit(fd, &ff) != 0) goto out;
			}
			pthread_mutex_lock(&A.mtx);
			A.flood_frames += flood;
			pthread_mutex_unlock(&A.mtx);
		}
		for (int i = 0; i < n; i++) {
			if (!adv_resolve(&pl[i])) continue;
			if (pl[i].due == 0 || ndq >= NDQ) {
				if (pl[i].due != 0) {
					// no room to defer: hold the line until it is due
					uint64_t nw = vf_now_ns();
					if (pl[i].due > nw) vf_usleep((int) ((pl[i].due - nw) / 1000) + 1);
				}
				if (tcp_emit(fd, &pl[i]) != 0) goto out;
			} else {
				dq[ndq++] = pl[i];
			}
		}
		if (kill) {
			// a frame shorter than a survey id: the surveyor must drop the
			// connection (it redials)
			uint8_t sf[11];
			int     sl = (int) vf_below(&lr, 4);
			memset(sf, 0, 8);
			sf[7] = (uint8_t) sl;
			sf[8] = 0x80;
			sf[9] = sf[10] = 0x11;
			vf_fd_write_all(fd, sf, 8 + (size_t) sl, 5000);
			dbg_ev(fd, "short", (uint32_t) sl, 0, 0);
			int eo = vf_fd_wait_eof(fd, 5000);
			dbg_ev(fd, "eof", (uint32_t) eo, 0, 0);
			break;
		}
	}
out:
	dbg_ev(fd, "close", 0, 0, 0);
	close(fd);
	return NULL;
}

static void *
tcp_accept_thread(void *arg)
{
	(void) arg;
	while (!atomic_load(&G.stop)) {
		int fd = vf_tcp_accept(T.lfd, 20);
		if (fd < 0) continue;
		if (T.nconns >= 256) {
			close(fd);
			continue;
		}
		T.conns[T.nconns].fd = fd;
		if (pthread_create(&T.conns[T.nconns].thr, NULL, tcp_conn_thread, (void *) (intptr_t) fd) != 0) vf_harness_fail("pthread_create");
		T.nconns++;
	}
	return NULL;
}

// ------------------------------------------------------------ xresp adversary
static struct {
	nng_socket s;
	pthread_t  thr;
} X;

static void
xresp_emit(uint32_t pipe, const pframe *f)
{
	nng_msg *m;
	uint8_t  buf[128];
	uint32_t serial = rr_alloc(f->c, f->s, f->klass, SRC_XRESP, pipe, pipe);
	size_t   bl = build_resp(buf, f->c, f->s, f->klass, serial);
	if (nng_msg_alloc(&m, 0) != 0) vf_harness_fail("msg alloc");
	nng_msg_header_append_u32(m, pipe);
	if (f->klass == K_HOP) nng_msg_header_append_u32(m, f->pre);
	nng_msg_header_append_u32(m, f->idword);
	nng_msg_append(m, buf, bl);
	uint64_t tb = vf_now_ns();
	atomic_store(&G.rr[serial].t_before, tb);
	if (nng_sendmsg(X.s, m, 0) != 0) {
		nng_msg_free(m);
	} else {
		atomic_store(&G.rr[serial].t_after, vf_now_ns());
	}
	adv_account(f, tb);
}

static void *
xresp_thread(void *arg)
{
	struct {
		pframe   f;
		uint32_t pipe;
	} dq[NDQ];
	int    ndq = 0;
	vf_rng lr;
	(void) arg;
	vf_rng_seed(&lr, 4242, 98);
	while (!atomic_load(&G.stop)) {
		uint64_t now = vf_now_ns();
		for (int i = 0; i < ndq;) {
			if (dq[i].f.due <= now) {
				xresp_emit(dq[i].pipe, &dq[i].f);
				dq[i] = dq[--ndq];
			} else {
				i++;
			}
		}
		nng_msg *m = NULL;
		int      rv = nng_recvmsg(X.s, &m, 0);
		if (rv == NNG_ETIMEDOUT) continue;
		if (rv != 0) break;
		uint32_t tag;
		uint64_t seq;
		if (nng_msg_header_len(m) != 8) {
			vf_violation("C07/survey-garbled/backtrace", "raw RESPONDENT got a survey with a %zu-byte header from a directly connected surveyor", nng_msg_header_len(m));
			nng_msg_free(m);
			continue;
		}
		const uint8_t *h = nng_msg_header(m);
		uint32_t       pipe = get32(h), id = get32(h + 4);
		if (vf_body_check(nng_msg_body(m), nng_msg_len(m), &tag, &seq) != 0 || (tag >> 16) != G.nonce) {
			vf_violation("C07/survey-garbled/body", "survey with id %08x: body of %zu bytes is not a survey that was sent", id, nng_msg_len(m));
			nng_msg_free(m);
			continue;
		}
		nng_msg_free(m);
		pframe pl[10];
		bool   kill = false;
		int    flood = 0;
		int    n = adv_plan(id, tag & 0xff, (uint32_t) seq, (int) ((tag >> 8) & 0xff), pl, &kill, &flood);
		if (flood > 0) {
			pframe ff = { .idword = id, .c = tag & 0xff, .s = (uint32_t) seq, .pre = 0, .klass = K_DUP, .due_kind = DUE_NOW, .due = 0 };
			for (int i = 0; i < flood; i++) xresp_emit(pipe, &ff);
			pthread_mutex_lock(&A.mtx);
			A.flood_frames += flood;
			pthread_mutex_unlock(&A.mtx);
		}
		for (int i = 0; i < n; i++) {
			if (!adv_resolve(&pl[i])) continue;
			if (pl[i].due != 0 && ndq < NDQ) {
				dq[ndq].f = pl[i];
				dq[ndq].pipe = pipe;
				ndq++;
			} else {
				if (pl[i].due != 0) {
					uint64_t nw = vf_now_ns();
					if (pl[i].due > nw) vf_usleep((int) ((pl[i].due - nw) / 1000) + 1);
				}
				xresp_emit(pipe, &pl[i]);
			}
		}
		if (kill) {
			nng_msg *sm;
			int      sl = (int) vf_below(&lr, 4);
			if (nng_msg_alloc(&sm, (size_t) sl) != 0) vf_harness_fail("msg alloc");
			if (sl) memset(nng_msg_body(sm), 0x80, (size_t) sl);
			nng_msg_header_append_u32(sm, pipe);
			if (nng_sendmsg(X.s, sm, 0) != 0) nng_msg_free(sm);
		}
	}
	return NULL;
}

// ------------------------------------------------------------ real respondents
typedef struct {
	nng_socket s;
	int        sock_idx;
	nng_ctx    ctx;
	bool       is_sock;
	pthread_t  thr;
	vf_rng     rng;
	long       served, silent, late_sent, send_fail, closed_sent, closed_sent_live;
	_Atomic int  state; // 0 receiving, 1 waiting to answer, 2 sending
	_Atomic long got, sent_ok, sent_err, last_err;
} rworker;

static struct {
	nng_socket socks[MAXREAL];
	int        nsocks;
	rworker    w[MAXWORK];
	int        nw;
} P;

static void
sleep_until(uint64_t t)
{
	for (;;) {
		uint64_t now = vf_now_ns();
		if (now >= t || atomic_load(&G.stop)) return;
		uint64_t d = t - now;
		vf_usleep(d > 20 * MS ? 20000 : (int) (d / 1000) + 1);
	}
}

static void *
real_worker(void *arg)
{
	rworker *w = arg;
	nng_aio *aio;
	if (nng_aio_alloc(&aio, NULL, NULL) != 0) vf_harness_fail("aio alloc");
	while (!atomic_load(&G.stop)) {
		nng_aio_set_timeout(aio, 20);
		if (w->is_sock) {
			nng_socket_recv(w->s, aio);
		} else {
			nng_ctx_recv(w->ctx, aio);
		}
		nng_aio_wait(aio);
		int rv = nng_aio_result(aio);
		if (rv == NNG_ETIMEDOUT) continue;
		if (rv != 0) break;
		nng_msg *m = nng_aio_get_msg(aio);
		nng_aio_set_msg(aio, NULL);
		uint32_t tag;
		uint64_t seq;
		if (vf_body_check(nng_msg_body(m), nng_msg_len(m), &tag, &seq) != 0 || (tag >> 16) != G.nonce) {
			vf_violation("C07/survey-garbled/body", "RESPONDENT received a %zu-byte survey that is not one that was sent", nng_msg_len(m));
			nng_msg_free(m);
			continue;
		}
		nng_msg_free(m);
		atomic_fetch_add(&w->got, 1);
		atomic_store(&w->state, 1);
		uint32_t c = tag & 0xff, s = (uint32_t) seq, T;
		int      dir = (int) ((tag >> 8) & 0xff);
		uint64_t tc, tr;
		if (dir == D_SILENT) {
			w->silent++; // never answered; the next receive replaces it
			atomic_store(&w->state, 0);
			continue;
		}
		if (dir == D_SLOW) {
			vf_usleep((int) vf_range(&w->rng, 200, 3000));
		} else if (dir == D_LATE || dir == D_MID) {
			if (!wait_published(c, s, &tc, &tr, &T)) continue;
			if (dir == D_LATE) {
				sleep_until(tr + (uint64_t) T * MS + LATE_NS + (uint64_t) vf_below(&w->rng, 3000) * 1000ULL);
			} else {
				sleep_until(tc + (uint64_t) T * vf_range(&w->rng, 900, 1100) * (MS / 1000));
			}
			if (atomic_load(&G.stop)) break;
		}
		uint8_t  buf[128];
		uint32_t serial = rr_alloc(c, s, K_ECHO, SRC_REAL, 1000 + (uint32_t) (w - P.w), 2000 + (uint32_t) w->sock_idx);
		size_t   bl = build_resp(buf, c, s, K_ECHO, serial);
		if (nng_msg_alloc(&m, 0) != 0) vf_harness_fail("msg alloc");
		nng_msg_append(m, buf, bl);
		nng_aio_set_msg(aio, m);
		nng_aio_set_timeout(aio, 10000);
		uint64_t tb = vf_now_ns();
		atomic_store(&G.rr[serial].t_before, tb);
		atomic_store(&w->state, 2);
		if (w->is_sock) {
			nng_socket_send(w->s, aio);
		} else {
			nng_ctx_send(w->ctx, aio);
		}
		nng_aio_wait(aio);
		if ((rv = nng_aio_result(aio)) != 0) {
			if ((m = nng_aio_get_msg(aio)) != NULL) nng_msg_free(m);
			nng_aio_set_msg(aio, NULL);
			w->send_fail++;
			atomic_fetch_add(&w->sent_err, 1);
			atomic_store(&w->last_err, rv);
			atomic_store(&w->state, 0);
			if (rv == NNG_ECLOSED) break;
			continue;
		}
		atomic_store(&G.rr[serial].t_after, vf_now_ns());
		atomic_fetch_add(&w->sent_ok, 1);
		atomic_store(&w->state, 0);
		w->served++;
		if (certainly_late(c, s, tb)) w->late_sent++;
		if (c >= MAXCTX) {
			srec    *e = st_get(c, s);
			uint64_t tcl = e ? atomic_load(&e->t_closed) : 0;
			if (tcl != 0 && tb > tcl) {
				w->closed_sent++;
				if (tb < atomic_load(&e->t_call) + (uint64_t) atomic_load(&e->T) * MS) w->closed_sent_live++;
			}
		}
	}
	nng_aio_free(aio);
	return NULL;
}

// ------------------------------------------------------------ surveyor side
typedef struct {
	nng_aio        *aio;
	pthread_mutex_t m;
	pthread_cond_t  cv;
	bool            done;
	uint64_t        t_done;
} rop;

typedef struct cthr {
	int            idx;
	bool           is_sock;
	nng_socket     sock;
	nng_ctx        ctx;
	const casecfg *cc;
	vf_rng         rng;
	nng_aio       *saio;
	rop            r[NROP];
	rop            sticky[NSTICKY]; // their timeout is set once, at creation, and never again
	bool           sticky_broken;
	unsigned       rnext;
	// the most recent survey of this context
	uint32_t seq, T;
	uint64_t t_call, t_ret;
	int      dir, op;
	bool     tainted; // a receive on it timed out by itself / was cancelled
	uint64_t taint_at;
	int          tmode;    // TM_*
	uint32_t     T_fixed;  // survey time of a context that never sets the option
	nng_duration rcvtimeo; // NNG_OPT_RECVTIMEO in force (what NNG_DURATION_DEFAULT means)
	int          rounds;
	bool         opt_changed; // the survey-time option was changed after the current survey was sent
	struct cthr *ghost;       // state of the short-lived contexts this thread opens and closes mid-survey
	bool         force_opt;   // next survey: set the survey-time option to force_val (edge values)
	nng_duration force_val;
	int          floods;
	uint32_t scan_from;
	struct {
		int      tmo, tmo_eff, rv, kind; // kind: 0 aio, 1 sync, 2 nonblock, +4 multi
		uint32_t at_us, done_us;
	} rlog[12];
	int      nlog;
	int      nrecv;                     // receives issued on the current survey
	uint64_t first_rstart, last_rstart; // diagnostics
	// evidence
	long dlv[K_N], ops[OP_N], dirs[D_N], surveys, estate_never, estate_expired, estate_ambiguous, deadline_timeouts, own_timeouts, clamp_by[4], cancelled_by_send,
	    completed_before_send, cancel_won, cancel_lost, must_checked, must_rounds, after_taint[3], fresh_probes, expiry_probe_msgs, idle_expiries, lost_unconfirmed, multi_posted, multi_timeouts, multi_msgs, multi_cancelled, sync_recvs, sync_res[4],
	    nonblock_recvs, nonblock_again, nonblock_msgs, rcvtimeo_own, rcvtimeo_clamped, opt_changes, opt_change_deadlines, huge_rounds, huge_msgs, surveys_by_tm[TM_N], deadline_by_tm[TM_N],
	    old_before_new, sticky_clamped, sticky_unclamped_after_clamped, sticky_rounds, sticky_aimed[4], closed_live, closed_expired, closed_recv_eclosed, closed_recv_other, closed_with_recv, closed_with_queued,
	    small_T_surveys, small_T_deadlines, small_T_msgs, flood_rounds, flood_written, flood_delivered, flood_overflowed, flood_dropped, flood_superseded, edge_rounds[2], edge_res[2][4];
	bool dlv_seen[OP_N][K_N], res_seen[OP_N][D_N][5];
	nng_msg *spare; // the last response that was delivered, kept to be sent again as a survey
	long     reused_msgs;
} cthr;

// one receive operation and the survey state it was issued under
typedef struct {
	rop     *o;
	int      tmo;     // what the aio was given
	int      tmo_eff; // what that means (NNG_DURATION_DEFAULT -> NNG_OPT_RECVTIMEO)
	uint64_t t_rcall, t_rstarted, t_cancel, t_done;
	uint32_t seq, T;
	uint64_t t_call, t_ret;
	bool     tainted, cancelled, sync, nonblock, multi, opt_changed;
	bool     closing;     // the context is closed while this receive is pending
	uint64_t t_close_ret; // when nng_ctx_close returned
} rcv;

static void rlog_dump(cthr *t);

static void
rop_cb(void *arg)
{
	rop     *o = arg;
	uint64_t now = vf_now_ns();
	pthread_mutex_lock(&o->m);
	o->t_done = now;
	o->done = true;
	pthread_cond_signal(&o->cv);
	pthread_mutex_unlock(&o->m);
}

static void
rop_init(rop *o)
{
	pthread_condattr_t ca;
	pthread_mutex_init(&o->m, NULL);
	pthread_condattr_init(&ca);
	pthread_condattr_setclock(&ca, CLOCK_MONOTONIC);
	pthread_cond_init(&o->cv, &ca);
	pthread_condattr_destroy(&ca);
	o->done = true;
	if (nng_aio_alloc(&o->aio, rop_cb, o) != 0) vf_harness_fail("aio alloc");
}

static void
rop_fini(rop *o)
{
	nng_aio_free(o->aio);
	pthread_cond_destroy(&o->cv);
	pthread_mutex_destroy(&o->m);
}

static void
r_start(cthr *t, rcv *rc, int tmo, const nng_ctx *other)
{
	// Never re-submit an aio whose previous operation ended less than 20 ms
	// ago: the expiry of that operation may still be in flight and would
	// cancel the new one (a timer defect that property C02 owns).
	rop *o = NULL;
	for (int tries = 0; o == NULL; tries++) {
		uint64_t now = vf_now_ns();
		for (int k = 0; k < NROP && o == NULL; k++) {
			rop *q = &t->r[t->rnext++ % NROP];
			pthread_mutex_lock(&q->m);
			if (q->done && (q->t_done == 0 || now > q->t_done + 20 * MS)) {
				q->done = false;
				o = q;
			}
			pthread_mutex_unlock(&q->m);
		}
		if (o == NULL) {
			if (tries > 5000) vf_harness_fail("no idle receive slot");
			vf_usleep(1000);
		}
	}
	memset(rc, 0, sizeof(*rc));
	rc->o = o;
	rc->tmo = tmo;
	rc->tmo_eff = tmo == NNG_DURATION_DEFAULT ? (other == NULL ? t->rcvtimeo : NNG_DURATION_INFINITE) : tmo;
	if (other == NULL) {
		rc->seq = t->seq;
		rc->T = t->T;
		rc->t_call = t->t_call;
		rc->t_ret = t->t_ret;
		rc->tainted = t->tainted;
		rc->opt_changed = t->opt_changed;
	}
	nng_aio_set_timeout(o->aio, tmo);
	rc->t_rcall = vf_now_ns();
	if (other != NULL) {
		nng_ctx_recv(*other, o->aio);
	} else if (t->is_sock) {
		nng_socket_recv(t->sock, o->aio);
	} else {
		nng_ctx_recv(t->ctx, o->aio);
	}
	rc->t_rstarted = vf_now_ns();
	if (other == NULL) {
		if (t->nrecv++ == 0) t->first_rstart = rc->t_rstarted;
		t->last_rstart = rc->t_rstarted;
	}
}

// re-submit the aio whose timeout was set once; nothing about the aio is
// touched between operations, as an application with one long-lived aio does
static void
r_start_sticky(cthr *t, rcv *rc, int k)
{
	rop *o = &t->sticky[k];
	pthread_mutex_lock(&o->m);
	if (!o->done) vf_harness_fail("reused aio still busy");
	o->done = false;
	pthread_mutex_unlock(&o->m);
	memset(rc, 0, sizeof(*rc));
	rc->o = o;
	rc->tmo = rc->tmo_eff = STICKY_MS;
	rc->seq = t->seq;
	rc->T = t->T;
	rc->t_call = t->t_call;
	rc->t_ret = t->t_ret;
	rc->tainted = t->tainted;
	rc->opt_changed = t->opt_changed;
	rc->t_rcall = vf_now_ns();
	if (t->is_sock) {
		nng_socket_recv(t->sock, o->aio);
	} else {
		nng_ctx_recv(t->ctx, o->aio);
	}
	rc->t_rstarted = vf_now_ns();
	if (t->nrecv++ == 0) t->first_rstart = rc->t_rstarted;
	t->last_rstart = rc->t_rstarted;
}

static void
r_cancel(rcv *rc)
{
	rc->t_cancel = vf_now_ns();
	rc->cancelled = true;
	nng_aio_cancel(rc->o->aio);
}

static bool
timed_wait_done(rop *o, uint64_t until_ns)
{
	struct timespec ts;
	ts.tv_sec = (time_t) (until_ns / 1000000000ULL);
	ts.tv_nsec = (long) (until_ns % 1000000000ULL);
	while (!o->done) {
		if (pthread_cond_timedwait(&o->cv, &o->m, &ts) == ETIMEDOUT) break;
	}
	return o->done;
}

// wait for the receive; a receive that outlives its latest legitimate
// completion by 2 x BOUND_MS is reported (and then cancelled)
static int
r_wait(cthr *t, rcv *rc, nng_msg **mp)
{
	rop     *o = rc->o;
	uint64_t latest = rc->t_rstarted;
	bool     own = false;
	if (rc->seq != 0) {
		latest = rc->t_ret + (uint64_t) rc->T * MS;
		if (latest < rc->t_rstarted) latest = rc->t_rstarted;
		if (rc->tmo_eff > 0 && rc->t_rstarted + (uint64_t) rc->tmo_eff * MS < latest) {
			latest = rc->t_rstarted + (uint64_t) rc->tmo_eff * MS;
			own = true;
		}
	}
	pthread_mutex_lock(&o->m);
	if (!timed_wait_done(o, latest + BOUND_MS * MS) && !timed_wait_done(o, latest + 2 * BOUND_MS * MS)) {
		pthread_mutex_unlock(&o->m);
		char key[96];
		snprintf(key, sizeof(key), "C07/deadline/receive-outlives-deadline/%s", rc->seq == 0 ? "no-survey" : own ? "own-timeout" : "clamped");
		vf_violation(key, "ctx %d op %s: a receive (aio timeout %d ms) issued %llu ms after survey %u (T=%u ms) was sent is still pending %d ms after its latest possible deadline", t->idx,
		    opname[t->op], rc->tmo, (unsigned long long) ((rc->t_rcall - rc->t_call) / MS), rc->seq, rc->T, 2 * BOUND_MS);
		nng_aio_cancel(o->aio);
		rc->cancelled = true;
		if (o >= &t->sticky[0] && o <= &t->sticky[NSTICKY - 1]) t->sticky_broken = true; // do not pay the watchdog again
		pthread_mutex_lock(&o->m);
		while (!o->done) pthread_cond_wait(&o->cv, &o->m);
	}
	pthread_mutex_unlock(&o->m);
	rc->t_done = o->t_done;
	int rv = nng_aio_result(o->aio);
	*mp = nng_aio_get_msg(o->aio);
	nng_aio_set_msg(o->aio, NULL);
	if (rv != 0 && *mp != NULL) {
		nng_msg_free(*mp);
		*mp = NULL;
	} else if (rv == 0 && *mp == NULL) {
		vf_violation("C07/response-garbled/no-message", "ctx %d: receive returned 0 without a message", t->idx);
		rv = NNG_EINTERNAL;
	}
	return rv;
}

// A receive returned a message; acceptable survey numbers are e1 / e2.
static bool
judge_msg(cthr *t, nng_msg *m, uint32_t e1, uint32_t e2, uint64_t t_done)
{
	const uint8_t *b = nng_msg_body(m);
	size_t         len = nng_msg_len(m);
	uint32_t       tag, serial;
	uint64_t       seq64;
	char           key[128];
	if (len < VF_BODY_MIN + 4 || vf_body_check(b, len - 4, &tag, &seq64) != 0 || (tag >> 16) != G.nonce || (serial = get32(b + len - 4)) >= atomic_load(&G.rr_n)) {
		vf_violation("C07/response-garbled", "ctx %d op %s: delivered a %zu-byte message that is not one of the responses sent", t->idx, opname[t->op], len);
		nng_msg_free(m);
		return false;
	}
	uint32_t kl = (tag >> 8) & 0xff, c = tag & 0xff, seq = (uint32_t) seq64;
	if (kl >= K_N) kl = K_N - 1;
	rrec    *e = &G.rr[serial];
	uint64_t tb = atomic_load(&e->t_before);
	bool     bad = true;
	srec    *sv = st_get(c, seq);
	if (atomic_load(&e->t_dlv) == 0) atomic_store(&e->t_dlv, t_done);
	if (atomic_exchange(&e->delivered, 1) != 0) {
		snprintf(key, sizeof(key), "C07/delivered-twice/%s", kname[kl]);
		vf_violation(key, "ctx %d op %s: response frame #%u (%s, for ctx %u survey %u) was handed to a receive a second time", t->idx, opname[t->op], serial, kname[kl], c, seq);
	} else if (kl == K_NOBIT) {
		vf_violation("C07/unknown-id-delivered/nobit", "ctx %d (survey %u): a frame whose id word lacks the high bit (copy of ctx %u survey %u's id) was delivered", t->idx, t->seq, c, seq);
	} else if (kl == K_FAKE || kl == K_HOP) {
		snprintf(key, sizeof(key), "C07/unknown-id-delivered/%s", kname[kl]);
		vf_violation(key, "ctx %d (survey %u): a frame whose first word is %s was delivered (body names ctx %u survey %u)", t->idx, t->seq, kl == K_FAKE ? "an id this socket never issued" : "a peer id, not a survey id", c, seq);
	} else if ((int) c != t->idx) {
		snprintf(key, sizeof(key), "C07/wrong-context/%s", kname[kl]);
		vf_violation(key, "ctx %d (most recent survey %u) was handed response frame #%u (%s) that answers ctx %u survey %u", t->idx, t->seq, serial, kname[kl], c, seq);
	} else if (seq != e1 && seq != e2) {
		snprintf(key, sizeof(key), "C07/stale-delivered/%s/%s", kname[kl], opname[t->op]);
		vf_violation(key, "ctx %d op %s: most recent survey is %u but response frame #%u (%s) for survey %u was delivered (written %lld us after survey %u was sent)", t->idx, opname[t->op],
		    e2, serial, kname[kl], seq, (long long) ((int64_t) (tb - t->t_ret) / 1000), t->seq);
	} else if (seq != e2 && tb > t->t_ret) {
		// accepted as "completed before the new survey went out", but the
		// frame did not exist yet when the new survey's send returned
		snprintf(key, sizeof(key), "C07/stale-delivered/%s/%s/written-after-new-survey", kname[kl], opname[t->op]);
		vf_violation(key, "ctx %d op %s: a receive pending across the send of survey %u returned response frame #%u (%s) for survey %u, which was written %llu us after that send had returned", t->idx,
		    opname[t->op], e2, serial, kname[kl], seq, (unsigned long long) ((tb - t->t_ret) / 1000));
	} else if (certainly_late(c, seq, tb)) {
		snprintf(key, sizeof(key), "C07/late-delivered/%s/%s", kname[kl], srcname[atomic_load(&e->src) % SRC_N]);
		vf_violation(key, "ctx %d op %s: response frame #%u (%s) was written %llu us after the latest possible deadline (send returned + T=%u ms) of survey %u and was delivered", t->idx,
		    opname[t->op], serial, kname[kl], (unsigned long long) ((tb - atomic_load(&sv->t_ret) - (uint64_t) atomic_load(&sv->T) * MS) / 1000), atomic_load(&sv->T), seq);
	} else {
		bad = false;
		t->dlv[kl]++;
		t->dlv_seen[t->op][kl] = true;
		if (seq != e2) t->old_before_new++;
	}
	// an application may well send the message it has just received again
	// (with a new body): keep one
	if (t->spare == NULL && !bad) {
		t->spare = m;
	} else {
		nng_msg_free(m);
	}
	return !bad;
}

enum { RES_MSG, RES_TIMEOUT, RES_ESTATE, RES_CANCEL, RES_CLOSED };

// Judge the outcome of one receive.  Returns the result code.
static int
r_judge(cthr *t, rcv *rc, int rv, nng_msg *m)
{
	char     key[128];
	uint64_t t_done = rc->t_done;
	uint64_t dl_lo = rc->t_call + (uint64_t) rc->T * MS; // earliest possible deadline
	bool     never = rc->seq == 0;
	bool     expired = !never && rc->t_rcall >= rc->t_ret + (uint64_t) rc->T * MS + LATE_NS;
	bool     superseded = t->seq != rc->seq;

	if (never || expired) {
		if (rv == NNG_ESTATE) {
			if (never) t->estate_never++; else t->estate_expired++;
		} else {
			snprintf(key, sizeof(key), "C07/state/recv-without-live-survey/%s/%s", never ? "never-surveyed" : "expired", errname(rv));
			if (never) {
				vf_violation(key, "ctx %d: receive on a context that never sent a survey returned %s, expected NNG_ESTATE", t->idx, rv == 0 ? "a message" : nng_strerror(rv));
			} else {
				vf_violation(key, "ctx %d op %s: receive issued %llu us after the latest possible deadline of survey %u (T=%u ms, directive %s) returned %s, expected NNG_ESTATE", t->idx,
				    opname[t->op], (unsigned long long) ((rc->t_rcall - rc->t_ret - (uint64_t) rc->T * MS) / 1000), rc->seq, rc->T, dname[t->dir], rv == 0 ? "a message" : nng_strerror(rv));
			}
			if (rv == 0) {
				t->expiry_probe_msgs++;
				judge_msg(t, m, rc->seq, rc->seq, t_done);
			}
		}
		return rv;
	}
	switch (rv) {
	case 0:
		judge_msg(t, m, rc->seq, t->seq, t_done);
		t->res_seen[t->op][t->dir][RES_MSG] = true;
		if (rc->T < 40) t->small_T_msgs++;
		if (rc->multi) t->multi_msgs++;
		if (rc->nonblock) t->nonblock_msgs++;
		break;
	case NNG_ETIMEDOUT: {
		uint64_t dl = dl_lo;
		bool     own = false;
		if (rc->tmo_eff > 0 && rc->t_rcall + (uint64_t) rc->tmo_eff * MS < dl) {
			dl = rc->t_rcall + (uint64_t) rc->tmo_eff * MS;
			own = true;
		}
		if (rc->nonblock) {
			// only nng_*_recvmsg turns the zero timeout into NNG_EAGAIN
			snprintf(key, sizeof(key), "C07/disturbed/recv-error/%s", errname(rv));
			vf_violation(key, "ctx %d op %s: non-blocking receive on survey %u failed with %s", t->idx, opname[t->op], rc->seq, nng_strerror(rv));
		} else if (t_done + MS < dl) {
			snprintf(key, sizeof(key), "C07/deadline/timeout-early/%s", own ? "own-timeout" : "clamped");
			vf_violation(key, "ctx %d op %s: receive (aio timeout %d ms, issued %llu us after survey %u with T=%u ms was sent) failed with NNG_ETIMEDOUT %llu us before the earliest legitimate instant",
			    t->idx, opname[t->op], rc->tmo, (unsigned long long) ((rc->t_rcall - rc->t_call) / 1000), rc->seq, rc->T, (unsigned long long) ((dl - t_done) / 1000));
		} else if (rc->closing && rc->t_close_ret != 0 && rc->t_close_ret + 2 * MS <= dl) {
			// nng_ctx_close had returned before this receive could time out
			// legitimately, and it was still pending afterwards: it waited on
			// a context that no longer exists
			vf_violation("C07/ctx-close/receive-outlived-context/ETIMEDOUT", "ghost ctx %d: a receive pending on survey %u (T=%u ms) when nng_ctx_close was called timed out %llu us after nng_ctx_close had returned instead of ending with NNG_ECLOSED",
			    t->idx, rc->seq, rc->T, (unsigned long long) ((t_done - rc->t_close_ret) / 1000));
		} else if (own) {
			t->own_timeouts++;
			if (rc->tmo == NNG_DURATION_DEFAULT) t->rcvtimeo_own++;
		} else {
			t->deadline_timeouts++;
			if (rc->T < 40) t->small_T_deadlines++;
			t->deadline_by_tm[t->tmode]++;
			if (rc->opt_changed) t->opt_change_deadlines++;
			if (rc->tmo == NNG_DURATION_DEFAULT && rc->tmo_eff > 0) t->rcvtimeo_clamped++;
			t->clamp_by[rc->tmo == NNG_DURATION_INFINITE ? 1 : rc->tmo == NNG_DURATION_DEFAULT ? 2 : rc->tmo >= LONG_MS ? 0 : 3]++;
		}
		if (rc->multi) t->multi_timeouts++;
		if (!superseded && own) {
			t->tainted = true;
			if (dl - MS < t->taint_at) t->taint_at = dl - MS;
		}
		t->res_seen[t->op][t->dir][RES_TIMEOUT] = true;
		break;
	}
	case NNG_ESTATE:
		if (!rc->tainted && !superseded && t_done + 2 * MS <= dl_lo) {
			snprintf(key, sizeof(key), "C07/live-survey/estate/%s", opname[t->op]);
			vf_violation(key, "ctx %d op %s: receive issued %llu us after survey %u (T=%u ms) was sent, with no earlier receive on it timed out or cancelled, failed with NNG_ESTATE %llu us before the deadline",
			    t->idx, opname[t->op], (unsigned long long) ((rc->t_rcall - rc->t_call) / 1000), rc->seq, rc->T, (unsigned long long) ((dl_lo - t_done) / 1000));
			fprintf(stderr, "DBG estate: ctx %d survey %u T=%u rcvtimeo=%d optchanged=%d tmode=%d sendtook=%llu us\n", t->idx, rc->seq, rc->T, (int) t->rcvtimeo, t->opt_changed, t->tmode, (unsigned long long) ((rc->t_ret - rc->t_call) / 1000));
			rlog_dump(t);
		} else if (rc->tainted) {
			t->after_taint[1]++;
		} else {
			t->estate_ambiguous++;
		}
		t->res_seen[t->op][t->dir][RES_ESTATE] = true;
		break;
	case NNG_EAGAIN:
		if (!rc->nonblock) {
			vf_violation("C07/disturbed/recv-error/EAGAIN", "ctx %d op %s: a blocking receive on survey %u failed with NNG_EAGAIN", t->idx, opname[t->op], rc->seq);
		} else {
			t->nonblock_again++;
		}
		break;
	case NNG_ECANCELED:
		if (superseded) {
			t->cancelled_by_send++;
			if (rc->multi) t->multi_cancelled++;
		} else if (rc->cancelled) {
			t->cancel_won++;
			t->tainted = true;
			if (rc->t_cancel < t->taint_at) t->taint_at = rc->t_cancel;
		} else {
			vf_violation("C07/disturbed/recv-error/ECANCELED", "ctx %d op %s: a receive nobody cancelled (survey %u still the most recent) failed with NNG_ECANCELED", t->idx, opname[t->op], rc->seq);
		}
		t->res_seen[t->op][t->dir][RES_CANCEL] = true;
		break;
	case NNG_ECLOSED:
		if (rc->closing) {
			t->closed_recv_eclosed++;
			t->res_seen[t->op][t->dir][RES_CLOSED] = true;
			break;
		}
		__attribute__((fallthrough));
	default:
		snprintf(key, sizeof(key), "C07/disturbed/recv-error/%s", errname(rv));
		vf_violation(key, "ctx %d op %s: receive on survey %u failed with %s", t->idx, opname[t->op], rc->seq, nng_strerror(rv));
		break;
	}
	return rv;
}

static void
rlog_add(cthr *t, rcv *rc, int rv)
{
	if (rc->seq != t->seq || rc->seq == 0) return;
	int i = t->nlog++ % 12;
	t->rlog[i].tmo = rc->tmo;
	t->rlog[i].tmo_eff = rc->tmo_eff;
	t->rlog[i].rv = rv;
	t->rlog[i].kind = (rc->nonblock ? 2 : rc->sync ? 1 : 0) + (rc->multi ? 4 : 0);
	t->rlog[i].at_us = (uint32_t) ((rc->t_rcall - rc->t_call) / 1000);
	t->rlog[i].done_us = (uint32_t) ((rc->t_done - rc->t_call) / 1000);
}

static void
rlog_dump(cthr *t)
{
	for (int k = t->nlog > 12 ? t->nlog - 12 : 0; k < t->nlog; k++) {
		int i = k % 12;
		fprintf(stderr, "DBG recv kind=%d tmo=%d eff=%d issued=+%u us done=+%u us rv=%d\n", t->rlog[i].kind, t->rlog[i].tmo, t->rlog[i].tmo_eff, t->rlog[i].at_us, t->rlog[i].done_us, t->rlog[i].rv);
	}
}

static int
r_finish(cthr *t, rcv *rc)
{
	nng_msg *m;
	int      rv = r_wait(t, rc, &m);
	rlog_add(t, rc, rv);
	return r_judge(t, rc, rv, m);
}

// the synchronous forms: nng_ctx_recvmsg / nng_recvmsg, blocking (the timeout
// is NNG_OPT_RECVTIMEO, clamped to the survey like any other) or NNG_FLAG_NONBLOCK
static int
r_sync(cthr *t, bool nonblock)
{
	rcv      rc;
	nng_msg *m = NULL;
	memset(&rc, 0, sizeof(rc));
	rc.sync = true;
	rc.nonblock = nonblock;
	rc.tmo = nonblock ? NNG_DURATION_ZERO : NNG_DURATION_DEFAULT;
	rc.tmo_eff = nonblock ? 0 : t->rcvtimeo;
	rc.seq = t->seq;
	rc.T = t->T;
	rc.t_call = t->t_call;
	rc.t_ret = t->t_ret;
	rc.tainted = t->tainted;
	rc.opt_changed = t->opt_changed;
	rc.t_rcall = vf_now_ns();
	int rv = t->is_sock ? nng_recvmsg(t->sock, &m, nonblock ? NNG_FLAG_NONBLOCK : 0) : nng_ctx_recvmsg(t->ctx, &m, nonblock ? NNG_FLAG_NONBLOCK : 0);
	rc.t_done = rc.t_rstarted = vf_now_ns();
	if (t->nrecv++ == 0) t->first_rstart = rc.t_rstarted;
	t->last_rstart = rc.t_rstarted;
	if (rv != 0) m = NULL;
	if (rv == 0 && m == NULL) {
		vf_violation("C07/response-garbled/no-message", "ctx %d: synchronous receive returned 0 without a message", t->idx);
		rv = NNG_EINTERNAL;
	}
	if (nonblock) {
		t->nonblock_recvs++;
	} else {
		t->sync_recvs++;
		t->sync_res[rv == 0 ? 0 : rv == NNG_ETIMEDOUT ? 1 : rv == NNG_ESTATE ? 2 : 3]++;
	}
	rlog_add(t, &rc, rv);
	return r_judge(t, &rc, rv, m);
}

static void
set_rcvtimeo(cthr *t, nng_duration v)
{
	int rv = t->is_sock ? nng_socket_set_ms(t->sock, NNG_OPT_RECVTIMEO, v) : nng_ctx_set_ms(t->ctx, NNG_OPT_RECVTIMEO, v);
	if (rv != 0) vf_harness_fail("set recv timeout: %s", nng_strerror(rv));
	t->rcvtimeo = v;
}

static void
set_survey_time(cthr *t, uint32_t T)
{
	int rv = t->is_sock ? nng_socket_set_ms(t->sock, NNG_OPT_SURVEYOR_SURVEYTIME, (nng_duration) T) : nng_ctx_set_ms(t->ctx, NNG_OPT_SURVEYOR_SURVEYTIME, (nng_duration) T);
	if (rv != 0) vf_harness_fail("set survey time: %s", nng_strerror(rv));
}

// send a new survey; it becomes the most recent one whatever happens
static int
t_send(cthr *t, int dir, uint32_t T)
{
	nng_msg *m;
	size_t   size = VF_BODY_MIN + vf_below(&t->rng, 64);
	int      rv;
	if (t->spare != NULL && vf_chance(&t->rng, 1, 2)) {
		// the survey travels in a message that came out of a receive on this
		// socket: whatever the library left in its header is not the
		// application's business and must not reach the wire
		m        = t->spare;
		t->spare = NULL;
		nng_msg_clear(m);
		if (nng_msg_realloc(m, size) != 0) vf_harness_fail("msg realloc");
		t->reused_msgs++;
	} else if (nng_msg_alloc(&m, size) != 0) {
		vf_harness_fail("msg alloc");
	}
	if (t->force_opt) {
		// an edge value of the option; what it means is recorded, not judged,
		// and nothing about this survey is ever called late
		rv = t->is_sock ? nng_socket_set_ms(t->sock, NNG_OPT_SURVEYOR_SURVEYTIME, t->force_val) : nng_ctx_set_ms(t->ctx, NNG_OPT_SURVEYOR_SURVEYTIME, t->force_val);
		if (rv != 0) vf_harness_fail("set survey time %d: %s", (int) t->force_val, nng_strerror(rv));
		T = HUGE_T;
	} else if (t->tmode == TM_EXPLICIT) {
		set_survey_time(t, T);
	} else {
		T = t->T_fixed; // whatever the context got when it was opened
	}
	uint32_t seq = t->seq + 1;
	srec    *e = st_get((uint32_t) t->idx, seq);
	if (e == NULL) vf_harness_fail("survey table full (ctx %d seq %u)", t->idx, seq);
	vf_body_make(nng_msg_body(m), size, (G.nonce << 16) | ((uint32_t) dir << 8) | (uint32_t) t->idx, seq);
	t->scan_from = atomic_load(&G.rr_n);
	atomic_store(&e->T, T);
	nng_aio_set_msg(t->saio, m);
	nng_aio_set_timeout(t->saio, 10000);
	uint64_t tc = vf_now_ns();
	atomic_store(&e->t_call, tc);
	t->seq = seq; // from here on the old survey is not the most recent one
	if (t->is_sock) {
		nng_socket_send(t->sock, t->saio);
	} else {
		nng_ctx_send(t->ctx, t->saio);
	}
	nng_aio_wait(t->saio);
	uint64_t tr = vf_now_ns();
	t->T = T;
	t->dir = dir;
	t->t_call = tc;
	t->t_ret = tr;
	t->tainted = false;
	t->taint_at = UINT64_MAX;
	t->nrecv = 0;
	t->nlog = 0;
	t->opt_changed = false;
	atomic_store(&e->t_ret, tr);
	if ((rv = nng_aio_result(t->saio)) != 0) {
		if ((m = nng_aio_get_msg(t->saio)) != NULL) nng_msg_free(m);
		nng_aio_set_msg(t->saio, NULL);
		char key[96];
		snprintf(key, sizeof(key), "C07/disturbed/send-failed/%s", errname(rv));
		vf_violation(key, "ctx %d: sending survey %u failed: %s", t->idx, seq, nng_strerror(rv));
		t->tainted = true; // nothing can be expected of it
		t->taint_at = 0;
		return rv;
	}
	t->surveys++;
	t->surveys_by_tm[t->tmode]++;
	t->dirs[dir]++;
	if (T < 40) t->small_T_surveys++;
	return 0;
}

// an aio timeout that is longer than what is left of the survey
static int
long_tmo(cthr *t)
{
	if (t->T > 2000) return 150 + (int) vf_below(&t->rng, 150); // nobody waits for an hour-long survey
	switch (vf_below(&t->rng, 8)) {
	case 0: return NNG_DURATION_INFINITE;
	case 1: return NNG_DURATION_DEFAULT;
	case 2:
	case 3: {
		// just beyond the latest possible deadline
		uint64_t now = vf_now_ns(), end = t->t_ret + (uint64_t) t->T * MS;
		int      left = end > now ? (int) ((end - now) / MS) : 0;
		return left + 2 + (int) vf_below(&t->rng, 30);
	}
	default: return LONG_MS;
	}
}

// Responses to the current survey that demonstrably reached the surveyor
// protocol while the survey was live and this context kept receiving must all
// have been delivered.  "Demonstrably reached": a frame written LATER on the
// same FIFO pipe was handed to some receive that was seen complete before this
// survey's earliest possible deadline (and before the first own-timeout of a
// receive, which ends the survey in this implementation).  No wall-clock
// allowance is involved.
static void
scan_lost(cthr *t)
{
	char key[128];
	if (t->T > 2000 || t->seq == 0) return;
	uint64_t limit = t->t_call + (uint64_t) t->T * MS - 2 * MS;
	if (t->taint_at != UINT64_MAX && t->taint_at < limit) limit = t->taint_at;
	uint32_t n = atomic_load(&G.rr_n);
	bool     any = false;
	for (uint32_t i = t->scan_from; i < n; i++) {
		rrec    *e = &G.rr[i];
		uint64_t ta = atomic_load(&e->t_after);
		if (ta == 0 || ta > limit) continue;
		if (atomic_load(&e->ctx) != (uint32_t) t->idx || atomic_load(&e->seq) != t->seq) continue;
		uint32_t kl = atomic_load(&e->klass), src = atomic_load(&e->src), pipe = atomic_load(&e->pipe);
		if (kl == K_NOBIT || kl == K_STALE || kl == K_FAKE || kl == K_HOP || src == SRC_XRESP) continue;
		uint32_t witness = 0;
		for (uint32_t j = i + 1; j < n && witness == 0; j++) {
			rrec *l = &G.rr[j];
			if (atomic_load(&l->pipe) != pipe || atomic_load(&l->src) != src || atomic_load(&l->t_before) < ta || !atomic_load(&l->delivered)) continue;
			uint64_t td = atomic_load(&l->t_dlv);
			if (td != 0 && td <= limit) witness = j;
		}
		if (witness == 0) {
			if (!atomic_load(&e->delivered)) t->lost_unconfirmed++;
			continue;
		}
		if (atomic_load(&e->delivered)) {
			t->must_checked++;
			any = true;
			continue;
		}
		snprintf(key, sizeof(key), "C07/live-survey/response-lost/%s/%s", srcname[src % SRC_N], opname[t->op]);
		vf_violation(key, "ctx %d op %s: response frame #%u (%s) to survey %u was written %llu us after the survey was sent (T=%u ms), frame #%u written after it on the same connection was delivered %llu us after the survey was sent, the context kept receiving (%d receives) until a receive timed out, and #%u was never delivered",
		    t->idx, opname[t->op], i, kname[kl % K_N], t->seq, (unsigned long long) ((ta - t->t_call) / 1000), t->T, witness, (unsigned long long) ((atomic_load(&G.rr[witness].t_dlv) - t->t_call) / 1000), t->nrecv, i);
		dbg_dump(t->t_call - 30 * MS, t->t_call + 100 * MS);
		rlog_dump(t);
	}
	if (any) t->must_rounds++;
}

// Receive until the survey is over.  mixed: aio timeouts shorter than the
// remaining time as well.  Returns true if it ended with a receive that was
// pending until it timed out (so everything that arrived before that instant
// was handed to a receive).  With stop_after == 0 it sometimes keeps two or
// three receives pending at once, and uses the synchronous and non-blocking
// forms as well.
static bool
collect(cthr *t, bool mixed, int stop_after)
{
	vf_rng *r = &t->rng;
	int     got = 0;
	bool    timed_out = false, huge = t->T > 2000;
	for (int i = 0; i < 400; i++) {
		uint64_t now = vf_now_ns(), end = t->t_ret + (uint64_t) t->T * MS + LATE_NS;
		rcv      rc[3];
		int      n = 1, rvs[3];
		if (now >= end) break;
		bool was_tainted = t->tainted;
		uint32_t form = vf_below(r, 20);
		if (dbg_off & 1) form = form < 5 ? 5 : form;
		if (dbg_off & 2) form = form >= 5 && form < 11 ? 11 : form;
		if (stop_after == 0 && !huge && form < 2) {
			// non-blocking poll: a message, NNG_EAGAIN, or NNG_ESTATE
			rvs[0] = r_sync(t, true);
			if (rvs[0] == NNG_EAGAIN) {
				vf_usleep((int) vf_below(r, 1500));
				continue;
			}
		} else if (stop_after == 0 && !huge && form < 5) {
			// blocking synchronous receive bounded by NNG_OPT_RECVTIMEO
			rvs[0] = r_sync(t, false);
		} else {
			if (stop_after == 0 && !huge && !was_tainted && form < 11) n = 2 + (int) vf_below(r, 2);
			for (int j = 0; j < n; j++) {
				int tmo;
				now = vf_now_ns();
				if (mixed && vf_chance(r, 2, 3)) {
					int left = end > now ? (int) ((end - now) / MS) : 0;
					if (vf_chance(r, 1, 3) && left > 16) {
						tmo = left - 6 - (int) vf_below(r, 6); // ends just before the deadline
					} else {
						tmo = 1 + (t->T >= 6 ? (int) vf_below(r, t->T / 3) : 0);
					}
				} else {
					tmo = long_tmo(t);
				}
				r_start(t, &rc[j], tmo, NULL);
				rc[j].multi = n > 1;
				// an earlier member of the batch with a short timeout of its
				// own may already have ended the survey
				for (int q = 0; q < j; q++) {
					if (rc[q].tmo_eff > 0 && rc[q].t_rcall + (uint64_t) rc[q].tmo_eff * MS < t->t_call + (uint64_t) t->T * MS) rc[j].tainted = true;
				}
			}
			if (n > 1) t->multi_posted += n;
			for (int j = 0; j < n; j++) rvs[j] = r_finish(t, &rc[j]);
		}
		bool go_on = false, stop = false;
		for (int j = 0; j < n; j++) {
			int rv = rvs[j];
			if (rv == 0) {
				if (was_tainted) t->after_taint[0]++;
				if (huge) t->huge_msgs++;
				if (++got == stop_after) stop = true;
				go_on = true;
			} else if (rv == NNG_ETIMEDOUT) {
				if (was_tainted) {
					t->after_taint[2]++;
				} else {
					timed_out = true;
				}
				// after a receive's own timeout: what does the next one say?
				if (t->tainted && mixed && !huge && !vf_chance(r, 1, 3)) go_on = true;
			}
		}
		if (stop) return false;
		if (!go_on) break;
	}
	return timed_out;
}

// after the deadline: NNG_ESTATE, whatever arrived in the meantime
static void
probe_expired(cthr *t)
{
	rcv rc;
	int saved = t->op;
	uint64_t end = t->t_ret + (uint64_t) t->T * MS + LATE_NS;
	// let certainly-late frames (written up to ~4 ms later) arrive first
	uint64_t until = end + (uint64_t) vf_below(&t->rng, t->dir == D_LATE ? 9000 : 2000) * 1000ULL;
	while (vf_now_ns() < until) vf_usleep(200);
	t->op = OP_PROBE;
	t->ops[OP_PROBE]++;
	r_start(t, &rc, vf_chance(&t->rng, 1, 2) ? 50 : long_tmo(t), NULL);
	r_finish(t, &rc);
	t->op = saved;
}

static uint32_t
pick_T(vf_rng *r, uint32_t lo, uint32_t hi)
{
	// roughly log-uniform; one general-purpose survey in ten is very short
	uint32_t a = vf_range(r, lo, hi), b = vf_range(r, lo, hi);
	if (lo == 40 && !(dbg_off & 32) && vf_chance(r, 1, 10)) return vf_range(r, 1, 39);
	return a < b ? a : b;
}

// A context is closed while its survey is live and its respondents are still
// answering (or about to): the id must leave the socket's survey map with the
// context.  The ghost contexts of thread i survey under tag MAXCTX + i, which
// no working context ever uses, so wherever such an answer ends up being
// delivered - a working context, the next ghost (which may occupy the memory
// of the closed one) - judge_msg reports it.  A receive pending at the close
// ends with NNG_ECLOSED (or with an answer that came first).
static void
ghost_round(cthr *t)
{
	cthr   *g = t->ghost;
	vf_rng *r = &t->rng;
	int     n = 1 + (int) vf_below(r, 3);
	for (int i = 0; i < n; i++) {
		rcv rc[2];
		int rv;
		if (g->seq + 2 >= G.st_cap) return;
		if ((rv = nng_ctx_open(&g->ctx, t->sock)) != 0) vf_harness_fail("ghost ctx open: %s", nng_strerror(rv));
		uint32_t u = vf_below(r, 100);
		int      dir = u < 50 ? D_SLOW : u < 72 ? D_PROMPT : u < 86 ? D_MID : D_LATE;
		g->op = OP_GHOST;
		g->ops[OP_GHOST]++;
		if (t_send(g, dir, vf_range(r, 80, 250)) != 0) { // long enough that the close rarely meets the expiry of a pending receive (a known aio defect)
			nng_ctx_close(g->ctx);
			continue;
		}
		int nrecv = (int) vf_below(r, 3);
		for (int j = 0; j < nrecv; j++) {
			uint32_t q = vf_below(r, 3);
			r_start(t, &rc[j], q == 0 ? NNG_DURATION_INFINITE : q == 1 ? LONG_MS : (int) g->T + 5 + (int) vf_below(r, 20), &g->ctx);
			rc[j].seq = g->seq;
			rc[j].T = g->T;
			rc[j].t_call = g->t_call;
			rc[j].t_ret = g->t_ret;
			rc[j].closing = true;
			rc[j].multi = nrecv > 1;
			g->nrecv++;
		}
		// close at once, a moment later (answers on their way), or with
		// answers already buffered and nobody receiving
		uint32_t w = vf_below(r, 3);
		if (w == 1) vf_usleep((int) vf_below(r, 2000));
		if (w == 2) vf_usleep((int) vf_below(r, nrecv ? 600 : 3500));
		nng_ctx_close(g->ctx);
		uint64_t tcl = vf_now_ns();
		srec    *e = st_get((uint32_t) g->idx, g->seq);
		atomic_store(&e->t_closed, tcl);
		if (tcl < g->t_call + (uint64_t) g->T * MS) {
			g->closed_live++;
			if (nrecv) g->closed_with_recv++;
		} else {
			g->closed_expired++; // the machine was too busy: the survey ran out first
		}
		for (int j = 0; j < nrecv; j++) {
			nng_msg *m;
			rc[j].t_close_ret = tcl;
			rv = r_wait(g, &rc[j], &m);
			rlog_add(g, &rc[j], rv);
			rv = r_judge(g, &rc[j], rv, m);
			if (rv != NNG_ECLOSED) g->closed_recv_other++;
		}
	}
}

static void
flood_counts(cthr *t, uint32_t seq, uint32_t from, long *written, long *delivered)
{
	uint32_t n = atomic_load(&G.rr_n);
	*written = *delivered = 0;
	for (uint32_t i = from; i < n; i++) {
		rrec *e = &G.rr[i];
		if (atomic_load(&e->ctx) != (uint32_t) t->idx || atomic_load(&e->seq) != seq || atomic_load(&e->src) != SRC_TCP || atomic_load(&e->t_after) == 0) continue;
		uint32_t kl = atomic_load(&e->klass);
		if (kl != K_CORRECT && kl != K_DUP) continue;
		(*written)++;
		if (atomic_load(&e->delivered)) (*delivered)++;
	}
}

// The adversary answers one survey FLOOD_N times at once while nobody
// receives: the context's receive buffer (128) fills up and the rest is
// dropped.  What was buffered is then either received (each frame once, none
// after the deadline) or wiped out by the next survey (none may survive).
static void
flood_round(cthr *t)
{
	vf_rng *r = &t->rng;
	long    w, d;
	t->floods++;
	if (t_send(t, D_FLOOD, vf_range(r, 150, 260)) != 0) return;
	uint32_t seq = t->seq, from = t->scan_from;
	uint64_t until = t->t_call + (uint64_t) t->T * MS / 2;
	for (;;) {
		flood_counts(t, seq, from, &w, &d);
		if (w >= FLOOD_N || vf_now_ns() >= until) break;
		vf_usleep(300);
	}
	// written is not yet arrived: leave the surveyor the first half of the
	// survey time to take the frames in (only the evidence depends on this)
	while (vf_now_ns() < until) vf_usleep(500);
	t->flood_rounds++;
	if (vf_chance(r, 1, 3)) {
		// a full buffer is superseded
		t->flood_superseded++;
		if (t_send(t, D_PROMPT, pick_T(r, 100, 260)) != 0) return;
		if (collect(t, false, 0)) scan_lost(t);
		return;
	}
	bool complete = collect(t, false, 0);
	flood_counts(t, seq, from, &w, &d);
	t->flood_written += w;
	t->flood_delivered += d;
	if (complete && w >= FLOOD_N && d >= 128 && d < w) {
		// everything was written in the first half of the survey, the context
		// then received until a receive timed out: what is missing was dropped
		t->flood_overflowed++;
		t->flood_dropped += w - d;
	}
}

// NNG_OPT_SURVEYOR_SURVEYTIME 0 and NNG_DURATION_INFINITE are accepted by the
// option; what a receive then returns is recorded as a class and not judged
// (a delivered message must still be an answer to this survey).
static void
edge_round(cthr *t)
{
	static const char *en[2] = { "zero", "infinite" };
	int                which = (int) vf_below(&t->rng, 2);
	rcv                rc;
	t->force_opt = true;
	t->force_val = which == 0 ? NNG_DURATION_ZERO : NNG_DURATION_INFINITE;
	int rv = t_send(t, D_PROMPT, HUGE_T);
	t->force_opt = false;
	if (rv != 0) return;
	t->edge_rounds[which]++;
	for (int i = 0; i < 3; i++) {
		nng_msg *m;
		if (i > 0 || vf_chance(&t->rng, 1, 2)) vf_usleep((int) vf_below(&t->rng, 3000));
		r_start(t, &rc, 60, NULL);
		rv = r_wait(t, &rc, &m);
		rlog_add(t, &rc, rv);
		t->edge_res[which][rv == 0 ? 0 : rv == NNG_ETIMEDOUT ? 1 : rv == NNG_ESTATE ? 2 : 3]++;
		vf_class("survey-time/%s/%s/recv-%s", en[which], t->is_sock ? "sock" : "ctx", errname(rv));
		if (rv != 0) break;
		judge_msg(t, m, rc.seq, t->seq, rc.t_done);
	}
	t->tainted = true; // nothing is expected of this survey
	t->taint_at = 0;
}

static void *
ctx_thread(void *arg)
{
	cthr   *t = arg;
	vf_rng *r = &t->rng;
	rcv     rc;

	// nothing was ever sent: a receive has nothing to wait for
	t->op = OP_PROBE;
	t->ops[OP_PROBE]++;
	r_start(t, &rc, vf_chance(r, 1, 2) ? 50 : LONG_MS, NULL);
	r_finish(t, &rc);

	for (int x = 0; x < t->rounds; x++) {
		uint32_t k = vf_below(r, 100);
		if (vf_chance(r, 1, 4) && !(dbg_off & 4)) {
			// what NNG_DURATION_DEFAULT and the synchronous receives mean
			static const nng_duration tv[6] = { NNG_DURATION_INFINITE, 15, 60, 150, 400, 20000 };
			set_rcvtimeo(t, tv[vf_below(r, 6)]);
		}
		if (t->ghost != NULL && !(dbg_off & 64) && vf_chance(r, 2, 7)) ghost_round(t);
		int      op = k < 26 ? OP_COLLECT : k < 38 ? OP_MIXED : k < 56 ? OP_SUPERSEDE : k < 66 ? OP_SENDOVER : k < 76 ? OP_SENDOVER_DL : k < 84 ? OP_ABORT : k < 92 && t->tmode != TM_DEFAULT && !t->sticky_broken ? OP_REUSED : OP_QUICK;
		if (t->cc->adv != AK_NONE && t->floods < 2 && t->tmode != TM_DEFAULT && !(dbg_off & 128) && vf_chance(r, 1, 10)) op = OP_FLOOD;
		t->op = op;
		t->ops[op]++;
		switch (op) {
		case OP_FLOOD: flood_round(t); break;
		case OP_COLLECT:
		case OP_MIXED: {
			static const int dirs[10] = { D_PROMPT, D_PROMPT, D_PROMPT, D_SLOW, D_SILENT, D_SILENT, D_LATE, D_LATE, D_MID, D_MID };
			int dir = dirs[vf_below(r, 10)];
			if (t_send(t, dir, pick_T(r, 40, 400)) != 0) break;
			if (t->tmode == TM_EXPLICIT && t->T >= 60 && vf_chance(r, 1, 6) && !(dbg_off & 8)) {
				// changing the option while a survey is live is for the NEXT
				// survey: this one keeps the deadline it was started with
				if (vf_chance(r, 1, 2)) vf_usleep((int) vf_below(r, 2000));
				set_survey_time(t, vf_chance(r, 1, 2) ? t->T / 4 : t->T * 3);
				t->opt_changes++;
				t->opt_changed = true;
			}
			if (vf_chance(r, 1, 5)) {
				// nobody is receiving when the deadline passes: whatever was
				// queued by then (or arrives later) must stay undelivered
				t->idle_expiries++;
				probe_expired(t);
				if (vf_chance(r, 1, 2)) probe_expired(t);
				break;
			}
			if (vf_chance(r, 1, 4)) vf_usleep((int) vf_below(r, 2500)); // responses get queued first
			if (collect(t, op == OP_MIXED, 0)) scan_lost(t);
			if (dir == D_LATE || vf_chance(r, 1, 2)) probe_expired(t);
			break;
		}
		case OP_SUPERSEDE: {
			// responses to the old survey are queued / in flight / still to
			// be written when the new survey goes out
			if (t_send(t, vf_chance(r, 1, 2) ? D_PROMPT : D_SLOW, pick_T(r, 40, 400)) != 0) break;
			uint32_t w = vf_below(r, 3);
			if (w == 0) {
				collect(t, false, 1 + (int) vf_below(r, 2));
			} else if (w == 1) {
				vf_usleep((int) vf_below(r, 3000));
			}
			if (t_send(t, D_PROMPT, pick_T(r, 100, 300)) != 0) break;
			if (vf_chance(r, 1, 3)) {
				if (collect(t, false, 0)) scan_lost(t);
			} else {
				collect(t, false, 1 + (int) vf_below(r, 3));
			}
			break;
		}
		case OP_SENDOVER:
		case OP_SENDOVER_DL: {
			// a new survey while a receive for the old one is pending
			static const int dirs[4] = { D_SILENT, D_SLOW, D_LATE, D_MID };
			uint32_t         T1 = op == OP_SENDOVER_DL ? vf_range(r, 40, 90) : pick_T(r, 40, 400);
			if (t_send(t, dirs[vf_below(r, 4)], T1) != 0) break;
			rcv more[2];
			int nmore = vf_chance(r, 1, 2) && !(dbg_off & 2) ? (int) vf_range(r, 1, 2) : 0;
			r_start(t, &rc, long_tmo(t), NULL);
			for (int j = 0; j < nmore; j++) {
				r_start(t, &more[j], long_tmo(t), NULL);
				more[j].multi = true;
			}
			if (nmore) {
				rc.multi = true;
				t->multi_posted += nmore + 1;
			}
			if (op == OP_SENDOVER_DL) {
				// aim at the instant the old survey's timer fires
				uint64_t at = t->t_call + (uint64_t) t->T * MS + (uint64_t) vf_below(r, 3500) * 1000ULL;
				at = at > 500000 ? at - 500000 : at;
				while (vf_now_ns() < at) vf_usleep(100);
			} else if (vf_chance(r, 2, 3)) {
				vf_usleep((int) vf_below(r, 2000));
			}
			int rv2 = t_send(t, D_PROMPT, pick_T(r, 100, 260));
			int rv1 = r_finish(t, &rc);
			if (rv1 == 0) t->completed_before_send++;
			for (int j = 0; j < nmore; j++) r_finish(t, &more[j]); // every waiter, not just the head
			if (rv2 != 0) break;
			if (vf_chance(r, 1, 2)) {
				if (collect(t, false, 0)) scan_lost(t);
			} else {
				collect(t, false, 1);
			}
			break;
		}
		case OP_REUSED: {
			// Aios whose timeout (20 ms) is set once.  First a receive so late
			// in a survey that it is cut to the survey deadline, then - after a
			// pause, so that no expiry of the first is still in flight - a
			// receive right at the start of the next survey, whose own 20 ms
			// are far less than the survey time: it must time out by itself.
			// One round in three the first receives (one per aio, back to back)
			// are aimed at the last instants of the survey: a receive is then
			// accepted by the protocol, cut to a deadline that has arrived by
			// the time the operation is started, and refused on the spot.
			rcv  rcs[NSTICKY];
			int  rv1[NSTICKY], n1 = 1;
			bool clamped[NSTICKY];
			t->sticky_rounds++;
			if (t_send(t, D_SILENT, vf_range(r, 60, 120)) != 0) break;
			bool aimed = vf_chance(r, 1, 3);
			if (aimed) {
				// the library's deadline is a whole millisecond: its clock (in
				// ms) when the survey went out, plus T
				// ms) when the survey went out, plus T.  While the receives are
				// being issued every mutex acquisition in the library is slow,
				// so that the clock moves between the protocol's look at it (before
				// it takes the socket lock) and the start of the operation.
				uint64_t tick = (t->t_ret / MS + t->T) * MS, at = tick - (uint64_t) vf_range(r, 500, 3500) * 1000ULL;
				while (vf_now_ns() + 200000 < at) vf_usleep(100);
				while (vf_now_ns() < at) {
				}
				n1 = 4;
				if (!(dbg_off & 512)) vf_pt_target(NNI_VP_MTX_LOCK, 1000, 250, 350);
			} else {
				uint64_t at = t->t_call + (uint64_t) t->T * MS - 8 * MS;
				while (vf_now_ns() < at) vf_usleep(200);
			}
			for (int j = 0; j < n1; j++) {
				r_start_sticky(t, &rcs[j], j);
				rcs[j].multi = n1 > 1;
			}
			if (aimed) vf_pt_target(NNI_VP_MTX_LOCK, (t->cc->jit_permille + 3) / 4, 0, t->cc->jit_us);
			for (int j = 0; j < n1; j++) {
				rv1[j] = r_finish(t, &rcs[j]);
				clamped[j] = rv1[j] != NNG_ESTATE && rcs[j].t_rcall + STICKY_MS * MS > rcs[j].t_ret + (uint64_t) rcs[j].T * MS;
				if (clamped[j]) t->sticky_clamped++;
				if (aimed) t->sticky_aimed[rv1[j] == NNG_ETIMEDOUT ? (rcs[j].t_done < rcs[j].t_rstarted + 200000 ? 0 : 1) : rv1[j] == NNG_ESTATE ? 2 : 3]++;
			}
			vf_msleep(25);
			if (t_send(t, D_SILENT, vf_range(r, 150, 300)) != 0) break;
			rcv rc2[NSTICKY];
			for (int j = 0; j < n1; j++) {
				r_start_sticky(t, &rc2[j], j);
				rc2[j].multi = n1 > 1;
				if (j > 0) rc2[j].tainted = true; // the first one's own timeout ends the survey
			}
			for (int j = 0; j < n1; j++) {
				int rv2 = r_finish(t, &rc2[j]);
				if (clamped[j] && rv2 == NNG_ETIMEDOUT) t->sticky_unclamped_after_clamped++;
				if (rv2 == NNG_ETIMEDOUT && rc2[j].t_done + MS < rc2[j].t_rcall + STICKY_MS * MS) {
					fprintf(stderr, "DBG reused aio %d: its previous receive was %s, issued %lld us before the earliest deadline of its survey, returned from the call after %llu us, result %s seen %llu us after the call\n", j,
					    aimed ? "aimed at the deadline" : "8 ms before the deadline", (long long) ((int64_t) (rcs[j].t_call + (uint64_t) rcs[j].T * MS - rcs[j].t_rcall) / 1000),
					    (unsigned long long) ((rcs[j].t_rstarted - rcs[j].t_rcall) / 1000), errname(rv1[j]), (unsigned long long) ((rcs[j].t_done - rcs[j].t_rcall) / 1000));
				}
			}
			break;
		}
		case OP_ABORT: {
			static const int dirs[3] = { D_PROMPT, D_SLOW, D_SILENT };
			if (t_send(t, dirs[vf_below(r, 3)], pick_T(r, 40, 200)) != 0) break;
			r_start(t, &rc, long_tmo(t), NULL);
			if (vf_chance(r, 2, 3)) vf_usleep((int) vf_below(r, t->cc->tran == VF_T_INPROC ? 200 : 600));
			r_cancel(&rc);
			if (r_finish(t, &rc) == 0) t->cancel_lost++;
			// afterwards anything consistent goes: a response to this
			// survey, NNG_ESTATE, or a timeout that is not early
			if (vf_chance(r, 1, 2)) collect(t, vf_chance(r, 1, 2), 1);
			break;
		}
		default:
			if (t->tmode == TM_EXPLICIT && x + 2 < t->rounds && vf_chance(r, 1, 7) && !(dbg_off & 256)) {
				t->op = OP_EDGE;
				t->ops[OP_EDGE]++;
				edge_round(t);
				break;
			}
			if (t->tmode == TM_EXPLICIT && x + 2 < t->rounds && vf_chance(r, 1, 8) && !(dbg_off & 8)) {
				// an hour-long survey: responses arrive, nothing wraps; the next
				// round's survey replaces it
				if (t_send(t, D_PROMPT, 3600000) != 0) break;
				t->huge_rounds++;
				collect(t, false, 1 + (int) vf_below(r, 3));
				break;
			}
			if (t_send(t, vf_chance(r, 3, 4) ? D_PROMPT : D_SLOW, pick_T(r, 40, 400)) != 0) break;
			collect(t, false, 1 + (int) vf_below(r, 2));
			break;
		}
		if (!t->is_sock && vf_chance(r, 1, 10)) {
			// a brand new context on the busy socket has no survey
			nng_ctx fresh;
			if (nng_ctx_open(&fresh, t->sock) != 0) vf_harness_fail("ctx open");
			t->op = OP_PROBE;
			r_start(t, &rc, 50, &fresh);
			r_finish(t, &rc);
			t->fresh_probes++;
			nng_ctx_close(fresh);
		}
	}
	// the last survey runs out; then there is nothing live any more
	t->op = OP_PROBE;
	if (t->seq != 0 && t->T <= 2000) probe_expired(t);
	return NULL;
}

// ------------------------------------------------------------ one case
static void
run_case(long idx, const casecfg *cc)
{
	nng_socket surv;
	cthr      *th = calloc(NSLOT, sizeof(cthr));
	pthread_t  pt[MAXCTX];
	char       url[128], durl[MAXREAL + 1][128];
	int        rv, ndial = 0;

	vf_case_begin(idx, "adv=%s tran=%s ctx=%d%s survey-time=%c%c%c%c/%ums real=%d rounds=%d kills=%d jitter=%d/%dus expire-delay=%d/%d-%dus key=%llx", akname[cc->adv], vf_tran_names[cc->tran], cc->nctx,
	    cc->use_sock ? "+sock" : "", "SID"[cc->tmode[0]], "SID"[cc->tmode[1]], "SID"[cc->tmode[2]], "SID"[cc->tmode[3]], cc->sock_T, cc->nreal, cc->rounds, cc->kills, cc->jit_permille, cc->jit_us, cc->exp_permille, cc->exp_min_us, cc->exp_us, (unsigned long long) cc->key);
	vf_watchdog(300);
	G.nonce = cc->nonce;
	G.nctx = cc->nctx;
	G.st_cap = (uint32_t) cc->rounds * 2 + 8;
	for (int i = 0; i < cc->nctx; i++) {
		G.st[i] = calloc(G.st_cap, sizeof(srec));
		G.st[MAXCTX + i] = calloc(G.st_cap, sizeof(srec));
	}
	G.rr_cap = (uint32_t) (cc->rounds * cc->nctx) * 2 * 8 * 4 * 2 + 4096 + (uint32_t) cc->nctx * 2 * 4 * (FLOOD_N + 16);
	G.rr = calloc(G.rr_cap, sizeof(rrec));
	atomic_store(&G.rr_n, 0);
	atomic_store(&G.stop, false);
	adv_init(cc);

	if ((rv = nng_surveyor0_open(&surv)) != 0) vf_harness_fail("surveyor open: %s", nng_strerror(rv));
	nng_socket_set_ms(surv, NNG_OPT_RECONNMINT, 2);
	nng_socket_set_ms(surv, NNG_OPT_RECONNMAXT, 10);
	nng_socket_set_size(surv, NNG_OPT_RECVMAXSZ, 0);

	if (cc->adv == AK_TCP) {
		T.port = 0;
		T.nconns = 0;
		if ((T.lfd = vf_tcp_listen(&T.port)) < 0) vf_harness_fail("raw listen");
		if (pthread_create(&T.acc, NULL, tcp_accept_thread, NULL) != 0) vf_harness_fail("pthread_create");
		snprintf(durl[ndial++], sizeof(durl[0]), "tcp://127.0.0.1:%u", T.port);
	} else if (cc->adv == AK_XRESP) {
		nng_listener l;
		if ((rv = nng_respondent0_open_raw(&X.s)) != 0) vf_harness_fail("xresp open");
		nng_socket_set_ms(X.s, NNG_OPT_RECVTIMEO, 2);
		nng_socket_set_ms(X.s, NNG_OPT_SENDTIMEO, 5000);
		nng_socket_set_int(X.s, NNG_OPT_RECVBUF, 128);
		nng_socket_set_int(X.s, NNG_OPT_SENDBUF, 128);
		vf_url(cc->tran, url, sizeof(url));
		if ((rv = nng_listen(X.s, url, &l, 0)) != 0) vf_harness_fail("xresp listen %s: %s", url, nng_strerror(rv));
		vf_dial_url(l, cc->tran, url, durl[ndial++], sizeof(durl[0]));
		if (pthread_create(&X.thr, NULL, xresp_thread, NULL) != 0) vf_harness_fail("pthread_create");
	}
	P.nsocks = cc->nreal;
	P.nw = 0;
	memset(P.w, 0, sizeof(P.w));
	for (int i = 0; i < cc->nreal; i++) {
		nng_listener l;
		if ((rv = nng_respondent0_open(&P.socks[i])) != 0) vf_harness_fail("respondent open");
		vf_url(cc->tran, url, sizeof(url));
		if ((rv = nng_listen(P.socks[i], url, &l, 0)) != 0) vf_harness_fail("respondent listen %s: %s", url, nng_strerror(rv));
		vf_dial_url(l, cc->tran, url, durl[ndial++], sizeof(durl[0]));
		for (int j = 0; j < cc->nwork[i]; j++) {
			rworker *w = &P.w[P.nw];
			w->s = P.socks[i];
			w->sock_idx = i;
			w->is_sock = cc->resp_sock[i] && j == 0;
			vf_rng_seed(&w->rng, cc->key, 500 + (uint64_t) P.nw);
			if (!w->is_sock && (rv = nng_ctx_open(&w->ctx, w->s)) != 0) vf_harness_fail("respondent ctx open");
			if (pthread_create(&w->thr, NULL, real_worker, w) != 0) vf_harness_fail("pthread_create");
			P.nw++;
		}
	}
	for (int i = 0; i < ndial; i++) {
		if ((rv = nng_dial(surv, durl[i], NULL, 0)) != 0) vf_harness_fail("dial %s: %s", durl[i], nng_strerror(rv));
	}
	for (int i = 0; vf_pipe_count(surv) < ndial; i++) {
		if (i > 5000) vf_harness_fail("pipes did not come up (%d of %d)", vf_pipe_count(surv), ndial);
		vf_msleep(1);
	}

	vf_pt_jitter(cc->key, cc->jit_permille, cc->jit_us);
	if (cc->exp_permille > 0) vf_pt_target(NNI_VP_AIO_EXPIRE_BEFORE_CANCEL, cc->exp_permille, cc->exp_min_us, cc->exp_us);
	// Contexts that never set the survey time: those opened while the socket
	// still has its default get 1 s, those opened after the socket's option
	// was set get that value - whatever the socket is set to later on.
	for (int pass = 0; pass < 2; pass++) {
		if (pass == 1 && (rv = nng_socket_set_ms(surv, NNG_OPT_SURVEYOR_SURVEYTIME, (nng_duration) cc->sock_T)) != 0) vf_harness_fail("set survey time: %s", nng_strerror(rv));
		for (int i = 0; i < cc->nctx; i++) {
			cthr *t = &th[i];
			bool  is_sock = cc->use_sock && i == 0;
			int   tm = is_sock ? TM_EXPLICIT : cc->tmode[i];
			if ((tm == TM_DEFAULT) != (pass == 0)) continue;
			t->idx = i;
			t->cc = cc;
			t->sock = surv;
			t->is_sock = is_sock;
			t->tmode = tm;
			t->T_fixed = tm == TM_DEFAULT ? 1000 : cc->sock_T;
			t->rounds = tm == TM_DEFAULT ? (cc->rounds / 5 > 4 ? cc->rounds / 5 : 4) : cc->rounds;
			t->rcvtimeo = NNG_DURATION_INFINITE;
			t->taint_at = UINT64_MAX;
			vf_rng_seed(&t->rng, cc->key, 100 + (uint64_t) i);
			if (!t->is_sock && (rv = nng_ctx_open(&t->ctx, surv)) != 0) vf_harness_fail("ctx open: %s", nng_strerror(rv));
			if (nng_aio_alloc(&t->saio, NULL, NULL) != 0) vf_harness_fail("aio alloc");
			for (int j = 0; j < NROP; j++) rop_init(&t->r[j]);
			for (int j = 0; j < NSTICKY; j++) {
				rop_init(&t->sticky[j]);
				nng_aio_set_timeout(t->sticky[j].aio, STICKY_MS); // once
			}
			// the contexts this thread opens, surveys on and closes mid-survey
			cthr *g = &th[MAXCTX + i];
			g->idx = MAXCTX + i;
			g->cc = cc;
			g->sock = surv;
			g->tmode = TM_EXPLICIT;
			g->rcvtimeo = NNG_DURATION_INFINITE;
			g->taint_at = UINT64_MAX;
			vf_rng_seed(&g->rng, cc->key, 150 + (uint64_t) i);
			if (nng_aio_alloc(&g->saio, NULL, NULL) != 0) vf_harness_fail("aio alloc");
			t->ghost = g;
		}
	}
	for (int i = 0; i < cc->nctx; i++) {
		if (pthread_create(&pt[i], NULL, ctx_thread, &th[i]) != 0) vf_harness_fail("pthread_create");
	}
	for (int i = 0; i < cc->nctx; i++) pthread_join(pt[i], NULL);
	vf_pt_off();

	// receive aios first (this waits for an expiry in flight), then contexts
	for (int i = 0; i < cc->nctx; i++) {
		for (int j = 0; j < NROP; j++) rop_fini(&th[i].r[j]);
		for (int j = 0; j < NSTICKY; j++) rop_fini(&th[i].sticky[j]);
		nng_aio_free(th[i].saio);
		nng_aio_free(th[MAXCTX + i].saio);
	}
	for (int i = 0; i < cc->nctx; i++) {
		if (!th[i].is_sock) nng_ctx_close(th[i].ctx);
	}
	atomic_store(&G.stop, true);
	nng_socket_close(surv);
	if (cc->adv == AK_TCP) {
		pthread_join(T.acc, NULL);
		for (int i = 0; i < T.nconns; i++) pthread_join(T.conns[i].thr, NULL);
		close(T.lfd);
		vf_stat("raw_connections", T.nconns);
	} else if (cc->adv == AK_XRESP) {
		pthread_join(X.thr, NULL);
		nng_socket_close(X.s);
	}
	long served = 0, rlate = 0, rsilent = 0;
	for (int i = 0; i < P.nw; i++) pthread_join(P.w[i].thr, NULL);
	for (int i = 0; i < P.nw; i++) {
		if (!P.w[i].is_sock) nng_ctx_close(P.w[i].ctx);
		served += P.w[i].served;
		rlate += P.w[i].late_sent;
		rsilent += P.w[i].silent;
	}
	for (int i = 0; i < P.nsocks; i++) nng_socket_close(P.socks[i]);

	// evidence
	long        dlv[K_N] = { 0 }, delivered = 0, surveys = 0;
	char        buf[96];
	const char *an = akname[cc->adv], *tn = vf_tran_names[cc->tran];
	for (int ii = 0; ii < 2 * cc->nctx; ii++) {
		cthr *t = ii < cc->nctx ? &th[ii] : &th[MAXCTX + ii - cc->nctx]; // working contexts, then their ghosts
		for (int k = 0; k < K_N; k++) {
			dlv[k] += t->dlv[k];
			delivered += t->dlv[k];
			for (int o = 0; o < OP_N; o++) {
				if (t->dlv_seen[o][k]) vf_class("dlv/%s/%s/%s/%s/%s", k == K_ECHO ? "real" : an, k == K_ECHO ? tn : (cc->adv == AK_TCP ? "tcp" : tn), t->is_sock ? "sock" : "ctx", opname[o], kname[k]);
			}
		}
		for (int o = 0; o < OP_N; o++) {
			snprintf(buf, sizeof(buf), "op_%s", opname[o]);
			vf_stat(buf, t->ops[o]);
			for (int d = 0; d < D_N; d++) {
				static const char *rn[5] = { "message", "timeout", "estate", "cancelled", "closed" };
				for (int q = 0; q < 5; q++) {
					if (t->res_seen[o][d][q]) vf_class("recv/%s/%s/%s/%s", t->is_sock ? "sock" : "ctx", opname[o], dname[d], rn[q]);
				}
			}
		}
		for (int d = 0; d < D_N; d++) {
			snprintf(buf, sizeof(buf), "surveys_%s", dname[d]);
			vf_stat(buf, t->dirs[d]);
		}
		surveys += t->surveys;
		vf_stat("estate_never_surveyed", t->estate_never);
		vf_stat("estate_after_expiry", t->estate_expired);
		vf_stat("estate_near_deadline_unjudged", t->estate_ambiguous);
		vf_stat("deadline_timeouts", t->deadline_timeouts);
		vf_stat("clamped_from_long", t->clamp_by[0]);
		vf_stat("clamped_from_infinite", t->clamp_by[1]);
		vf_stat("clamped_from_default", t->clamp_by[2]);
		vf_stat("clamped_from_just_longer", t->clamp_by[3]);
		vf_stat("own_timeouts", t->own_timeouts);
		vf_stat("recv_cancelled_by_send", t->cancelled_by_send);
		vf_stat("recv_completed_before_send", t->completed_before_send);
		vf_stat("cancel_won", t->cancel_won);
		vf_stat("cancel_lost_to_response", t->cancel_lost);
		vf_stat("early_responses_verified_delivered", t->must_checked);
		vf_stat("rounds_with_delivery_check", t->must_rounds);
		vf_stat("after_own_timeout_message", t->after_taint[0]);
		vf_stat("after_own_timeout_estate", t->after_taint[1]);
		vf_stat("after_own_timeout_timeout", t->after_taint[2]);
		vf_stat("fresh_ctx_probes", t->fresh_probes);
		vf_stat("surveys_sent_in_a_received_message", t->reused_msgs);
		if (t->spare != NULL) {
			nng_msg_free(t->spare);
			t->spare = NULL;
		}
		vf_stat("reused_aio_rounds", t->sticky_rounds);
		vf_stat("reused_aio_receive_clamped_to_deadline", t->sticky_clamped);
		vf_stat("reused_aio_own_timeout_after_clamped_receive", t->sticky_unclamped_after_clamped);
		vf_stat("reused_aio_receive_at_deadline_timed_out_at_once", t->sticky_aimed[0]);
		vf_stat("reused_aio_receive_at_deadline_timed_out_later", t->sticky_aimed[1]);
		vf_stat("reused_aio_receive_at_deadline_estate", t->sticky_aimed[2]);
		if (t->sticky_unclamped_after_clamped) vf_class("reused-aio/%s/own-timeout-after-clamped", t->is_sock ? "sock" : "ctx");
		vf_stat("multi_receives_posted", t->multi_posted);
		vf_stat("multi_receives_timed_out_together", t->multi_timeouts);
		vf_stat("multi_receives_got_message", t->multi_msgs);
		vf_stat("multi_receives_cancelled_by_send", t->multi_cancelled);
		vf_stat("sync_blocking_recvs", t->sync_recvs);
		vf_stat("sync_blocking_recv_message", t->sync_res[0]);
		vf_stat("sync_blocking_recv_timeout", t->sync_res[1]);
		vf_stat("sync_blocking_recv_estate", t->sync_res[2]);
		vf_stat("nonblock_recvs", t->nonblock_recvs);
		vf_stat("nonblock_recv_again", t->nonblock_again);
		vf_stat("nonblock_recv_message", t->nonblock_msgs);
		vf_stat("recvtimeo_own_timeouts", t->rcvtimeo_own);
		vf_stat("recvtimeo_clamped_to_deadline", t->rcvtimeo_clamped);
		vf_stat("survey_time_changed_mid_survey", t->opt_changes);
		vf_stat("deadline_timeouts_after_option_change", t->opt_change_deadlines);
		vf_stat("hour_long_surveys", t->huge_rounds);
		vf_stat("hour_long_survey_responses", t->huge_msgs);
		vf_stat("old_survey_response_to_receive_pending_across_send", t->old_before_new);
		for (int m = 0; m < TM_N; m++) {
			snprintf(buf, sizeof(buf), "surveys_time_%s", tmname[m]);
			vf_stat(buf, t->surveys_by_tm[m]);
			snprintf(buf, sizeof(buf), "deadline_timeouts_time_%s", tmname[m]);
			vf_stat(buf, t->deadline_by_tm[m]);
			if (t->deadline_by_tm[m]) vf_class("survey-time/%s/%s/deadline-observed", tmname[m], t->is_sock ? "sock" : "ctx");
		}
		vf_stat("undelivered_on_connection_not_known_alive", t->lost_unconfirmed);
		vf_stat("deadlines_passed_without_receiver", t->idle_expiries);
		vf_stat("ctx_closed_with_live_survey", t->closed_live);
		vf_stat("ctx_closed_after_survey_expired", t->closed_expired);
		vf_stat("ctx_closed_with_receive_pending", t->closed_with_recv);
		vf_stat("ctx_close_pending_receive_eclosed", t->closed_recv_eclosed);
		vf_stat("ctx_close_pending_receive_other_result", t->closed_recv_other);
		vf_stat("surveys_time_below_40ms", t->small_T_surveys);
		vf_stat("deadline_timeouts_time_below_40ms", t->small_T_deadlines);
		vf_stat("responses_delivered_time_below_40ms", t->small_T_msgs);
		vf_stat("flood_rounds", t->flood_rounds);
		vf_stat("flood_rounds_superseded_with_full_buffer", t->flood_superseded);
		vf_stat("flood_frames_written", t->flood_written);
		vf_stat("flood_frames_delivered", t->flood_delivered);
		vf_stat("flood_rounds_buffer_overflowed", t->flood_overflowed);
		vf_stat("flood_frames_dropped_buffer_full", t->flood_dropped);
		vf_stat("edge_surveys_time_zero", t->edge_rounds[0]);
		vf_stat("edge_surveys_time_infinite", t->edge_rounds[1]);
		for (int w = 0; w < 2; w++) {
			static const char *en[2] = { "zero", "infinite" }, *rn[4] = { "message", "timeout", "estate", "other" };
			for (int q = 0; q < 4; q++) {
				snprintf(buf, sizeof(buf), "edge_time_%s_recv_%s", en[w], rn[q]);
				vf_stat(buf, t->edge_res[w][q]);
			}
		}
	}
	vf_stat("surveys", surveys);
	vf_stat("responses_delivered", delivered);
	long injected = 0, late = 0;
	// a frame counts as discarded by the surveyor only if it demonstrably
	// reached it: a frame written later on the same raw TCP connection (one
	// thread writes a connection, so a higher serial was written later) was
	// delivered.  The same count over the nng raw respondent is kept apart
	// (that socket may drop frames itself).
	long      disc_w[K_N] = { 0 }, disc_x[K_N] = { 0 };
	{
		uint32_t n = atomic_load(&G.rr_n), npw = 0;
		struct {
			uint32_t src, pipe;
		} pw[320]; // (src, pipe) with a delivered frame at a higher serial
		for (uint32_t i = n; i-- > 0;) {
			rrec    *e = &G.rr[i];
			uint32_t src = atomic_load(&e->src), pipe = atomic_load(&e->pipe), kl = atomic_load(&e->klass);
			if (src == SRC_REAL || kl >= K_N) continue;
			bool seen = false;
			for (uint32_t q = 0; q < npw && !seen; q++) seen = pw[q].src == src && pw[q].pipe == pipe;
			if (atomic_load(&e->delivered)) {
				if (!seen && npw < 320) {
					pw[npw].src = src;
					pw[npw].pipe = pipe;
					npw++;
				}
			} else if (seen && atomic_load(&e->t_after) != 0) {
				if (src == SRC_TCP) disc_w[kl]++; else disc_x[kl]++;
			}
		}
	}
	snprintf(buf, sizeof(buf), "cases_adv_%s", an);
	vf_stat(buf, 1);
	snprintf(buf, sizeof(buf), "cases_tran_%s", tn);
	vf_stat(buf, 1);
	for (int k = 0; k < K_N; k++) {
		snprintf(buf, sizeof(buf), "dlv_%s", kname[k]);
		vf_stat(buf, dlv[k]);
		if (cc->adv != AK_NONE && k != K_ECHO) {
			static const char *sn[3] = { "old", "latest", "latest-expired" };
			snprintf(buf, sizeof(buf), "inj_%s", kname[k]);
			vf_stat(buf, A.inj[k]);
			injected += A.inj[k];
			late += A.late_written[k];
			snprintf(buf, sizeof(buf), "discarded_%s", kname[k]);
			vf_stat(buf, disc_w[k]);
			snprintf(buf, sizeof(buf), "undelivered_via_raw_respondent_%s", kname[k]);
			vf_stat(buf, disc_x[k]);
			snprintf(buf, sizeof(buf), "undelivered_not_known_to_have_arrived_%s", kname[k]);
			vf_stat(buf, A.inj[k] - dlv[k] - disc_w[k] - disc_x[k]);
			for (int s = 0; s < 3; s++) {
				if (A.inj_state[s][k]) vf_class("inj/%s/%s/%s", an, sn[s], kname[k]);
			}
		}
	}
	vf_stat("adversary_frames", injected);
	vf_stat("certainly_late_frames_written", late + rlate);
	vf_stat("certainly_late_by_real_respondents", rlate);
	vf_stat("surveys_seen_by_adversary", A.seen);
	vf_stat("pipe_kills", A.killed);
	{
		long cw = A.closed_written, cwl = A.closed_written_live;
		for (int i = 0; i < P.nw; i++) {
			cw += P.w[i].closed_sent;
			cwl += P.w[i].closed_sent_live;
		}
		vf_stat("responses_written_for_closed_ctx", cw);
		vf_stat("responses_written_for_closed_ctx_inside_survey_time", cwl);
		vf_stat("flood_surveys_answered", A.floods);
		vf_stat("flood_frames_injected", A.flood_frames);
	}
	vf_stat("real_responses", served);
	vf_stat("real_unanswered", rsilent);
	vf_stat("real_discarded", served - dlv[K_ECHO]);
	vf_stat("response_frames", (long) atomic_load(&G.rr_n));
	vf_stat("cases", 1);
	if ((idx & 3) == 0) {
		vf_sample("{\"adversary\":\"%s\",\"tran\":\"%s\",\"contexts\":%d,\"socket_as_ctx\":%d,\"real_respondents\":%d,\"surveys\":%ld,\"delivered\":%ld,\"adversary_frames\":%ld,\"stale\":%ld,\"other_ctx\":%ld,\"nobit\":%ld,\"certainly_late\":%ld,\"kills\":%ld}",
		    an, tn, cc->nctx, cc->use_sock, cc->nreal, surveys, delivered, injected, A.inj[K_STALE], A.inj[K_OTHER], A.inj[K_NOBIT], late + rlate, A.killed);
	}
	pthread_mutex_destroy(&A.mtx);
	for (int i = 0; i < cc->nctx; i++) {
		free(G.st[i]);
		free(G.st[MAXCTX + i]);
	}
	free(G.rr);
	free(th);
	vf_nng_fini("C07");
	vf_nng_init(4, 2, 2);
}

int
main(int argc, char **argv)
{
	vf_init(argc, argv);
	if (getenv("C07_OFF")) dbg_off = atoi(getenv("C07_OFF"));
	vf_nng_init(4, 2, 2);
	bool thorough = vf_tier == 1;
	for (long idx = 0; idx < vf_cases; idx++) {
		if (!vf_want_case(idx)) continue;
		vf_rng  r;
		casecfg c;
		vf_rng_seed(&r, vf_seed, (uint64_t) idx);
		memset(&c, 0, sizeof(c));
		c.key = vf_rand(&r);
		c.nonce = (uint32_t) (vf_rand(&r) & 0xffff);
		uint32_t k = vf_below(&r, 10);
		c.adv = k < 5 ? AK_TCP : k < 8 ? AK_XRESP : AK_NONE;
		if (!strcmp(vf_mode, "tcpadv")) c.adv = AK_TCP;
		if (!strcmp(vf_mode, "xresp")) c.adv = AK_XRESP;
		if (!strcmp(vf_mode, "real")) c.adv = AK_NONE;
		k = vf_below(&r, 5);
		c.tran = k < 2 ? VF_T_INPROC : k < 4 ? VF_T_TCP : VF_T_IPC;
		c.nctx = (int) vf_range(&r, 1, MAXCTX);
		c.sock_T = vf_range(&r, 60, 300);
		for (int i = 0; i < MAXCTX; i++) {
			uint32_t q = vf_below(&r, 16);
			c.tmode[i] = q < 11 || (dbg_off & 16) ? TM_EXPLICIT : q < 14 ? TM_INHERIT : TM_DEFAULT;
		}
		c.use_sock = vf_chance(&r, 1, 2);
		// 1-3 respondents in total
		c.nreal = c.adv == AK_NONE ? (int) vf_range(&r, 1, 3) : (int) vf_below(&r, 3);
		for (int i = 0; i < MAXREAL; i++) {
			c.nwork[i] = (int) vf_range(&r, 1, 2);
			c.resp_sock[i] = vf_chance(&r, 1, 2);
		}
		c.rounds = (int) vf_range(&r, 16, thorough ? 60 : 30);
		c.kills = c.adv != AK_NONE && vf_chance(&r, 1, 3);
		c.jit_permille = (int) vf_range(&r, 5, 60);
		c.jit_us = (int) vf_range(&r, 20, 300);
		if (vf_chance(&r, 1, 2)) {
			// stretch the window between an expiry being picked and its
			// cancel function running
			c.exp_permille = (int) vf_range(&r, 200, 1000);
			c.exp_min_us = 20;
			c.exp_us = (int) vf_range(&r, 100, 2500);
			if (vf_chance(&r, 1, 3)) {
				// a pre-emption long enough for a certainly-late response to
				// meet a receive that should have timed out already
				c.exp_min_us = (int) vf_range(&r, 5000, 7000);
				c.exp_us = c.exp_min_us + 4000;
			}
		}
		run_case(idx, &c);
	}
	vf_nng_fini("C07");
	return vf_finish();
}
